//! ephar: runs the real etherparse (path dependency on /repo/etherparse) on one operation per
//! input line and prints one canonical result line per operation.
use std::io::{BufRead, Write};
use std::panic::{catch_unwind, AssertUnwindSafe};

mod ck;
mod util;

fn dispatch(op: &str, args: &[&str]) -> String {
    let fam = op.split('.').next().unwrap_or("");
    let r = match fam {
        "ck" => ck::run(op, args),
        _ => None,
    };
    r.unwrap_or_else(|| "bad-op".to_string())
}

fn main() {
    // panics are part of the observable result; keep stderr quiet
    std::panic::set_hook(Box::new(|_| {}));
    let stdin = std::io::stdin();
    let stdout = std::io::stdout();
    let mut out = std::io::LineWriter::new(stdout.lock());
    for line in stdin.lock().lines() {
        let line = match line {
            Ok(l) => l,
            Err(_) => break,
        };
        let mut it = line.split('\t');
        let op = it.next().unwrap_or("");
        let args: Vec<&str> = it.collect();
        let res = catch_unwind(AssertUnwindSafe(|| dispatch(op, &args)))
            .unwrap_or_else(|_| "panic".to_string());
        let _ = writeln!(out, "{}", res);
    }
    let _ = out.flush();
}
