//! ephar: runs the real etherparse (path dependency on /repo/etherparse) on one operation per
//! input line and prints one canonical result line per operation.
use std::io::{BufRead, Write};
use std::panic::{catch_unwind, AssertUnwindSafe};

mod bf;
mod build;
mod ck;
mod dec;
mod enc;
mod enc_link;
mod enc_net;
mod ext;
mod frag;
mod guard;
mod io;
mod opt;
mod rd;
mod set;
mod view;
mod util;

fn dispatch(op: &str, args: &[&str]) -> String {
    let mut it = op.split('.');
    let mut fam = it.next().unwrap_or("");
    if fam == "impl" {
        fam = it.next().unwrap_or("");
    }
    let r = match fam {
        "bf" => bf::run(op, args),
        "build" => build::run(op, args),
        "ck" => ck::run(op, args),
        "dec" => dec::run(op, args),
        "enc" => enc::run(op, args),
        "ext" => ext::run(op, args),
        "frag" => frag::run(op, args),
        "io" => io::run(op, args),
        "opt" => opt::run(op, args),
        "set" => set::run(op, args),
        "view" => view::run(op, args),
        _ => None,
    };
    r.unwrap_or_else(|| "bad-op".to_string())
}

fn main() {
    // panics are part of the observable result; keep stderr quiet
    std::panic::set_hook(Box::new(|_| {}));
    let stdin = std::io::stdin();
    let stdout = std::io::stdout();
    let mut out = std::io::LineWriter::new(stdout.lock());
    for line in stdin.lock().lines() {
        let line = match line {
            Ok(l) => l,
            Err(_) => break,
        };
        let mut it = line.split('\t');
        let op = it.next().unwrap_or("");
        let args: Vec<&str> = it.collect();
        let res = catch_unwind(AssertUnwindSafe(|| dispatch(op, &args)))
            .unwrap_or_else(|_| "panic".to_string());
        let _ = writeln!(out, "{}", res);
    }
    let _ = out.flush();
}
