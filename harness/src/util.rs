//! Argument parsing and canonical printing shared by all operation families.

pub fn hex(s: &str) -> Option<Vec<u8>> {
    if s == "-" {
        return Some(Vec::new());
    }
    if s.len() % 2 != 0 {
        return None;
    }
    let b = s.as_bytes();
    let mut out = Vec::with_capacity(b.len() / 2);
    for i in (0..b.len()).step_by(2) {
        let hi = (b[i] as char).to_digit(16)?;
        let lo = (b[i + 1] as char).to_digit(16)?;
        out.push((hi * 16 + lo) as u8);
    }
    Some(out)
}

pub fn to_hex(b: &[u8]) -> String {
    if b.is_empty() {
        return "-".to_string();
    }
    let mut s = String::with_capacity(b.len() * 2);
    for x in b {
        s.push_str(&format!("{:02x}", x));
    }
    s
}

pub fn num<T: core::str::FromStr>(s: &str) -> Option<T> {
    s.parse::<T>().ok()
}

/// `(offset,len)` of `part` relative to the start of `base` (pointer difference).
/// Prints `(!addr-outside)` if the part does not lie inside the base slice, which is what
/// the C01 range oracle looks for.
pub fn win(base: &[u8], part: &[u8]) -> String {
    let b0 = base.as_ptr() as usize;
    let p0 = part.as_ptr() as usize;
    if part.is_empty() {
        // an empty slice may legally point anywhere inside [b0, b0+len]; normalise dangling ones
        if p0 >= b0 && p0 <= b0 + base.len() {
            return format!("({},0)", p0 - b0);
        }
        return "(!outside,0)".to_string();
    }
    if p0 < b0 || p0 + part.len() > b0 + base.len() {
        return format!("(!outside,{})", part.len());
    }
    format!("({},{})", p0 - b0, part.len())
}

/// C02: the Display and Debug rendering of every error value, and of every error in its `source()` chain,
/// has to return normally (a panic in here surfaces as the operation's result `panic`)
pub fn touch<E: std::error::Error>(e: &E) {
    let _ = format!("{}", e);
    let _ = format!("{:?}", e);
    let mut cur: Option<&dyn std::error::Error> = e.source();
    let mut depth = 0;
    while let Some(c) = cur {
        let _ = format!("{} {:?}", c, c);
        depth += 1;
        if depth > 16 {
            panic!("runaway source chain");
        }
        cur = c.source();
    }
}

fn hash_of<T: std::hash::Hash>(v: &T) -> u64 {
    use std::hash::Hasher;
    let mut h = std::collections::hash_map::DefaultHasher::new();
    v.hash(&mut h);
    h.finish()
}

/// the hand-written `PartialEq` / `Hash` of a header type: a value equals its copy (and hashes alike),
/// and does not equal the given value that differs from it in a byte it carries
pub fn eq_laws_bad<T: PartialEq + Clone + std::hash::Hash>(a: &T, different: Option<T>) -> bool {
    hash_of(a) != hash_of(&a.clone()) || eq_only_bad(a, different)
}

pub fn eq_only_bad<T: PartialEq + Clone>(a: &T, different: Option<T>) -> bool {
    let c = a.clone();
    *a != c || different.map(|d| *a == d || d == *a).unwrap_or(false)
}

/// the enum wrappers around a header (`LinkHeader`, `LinkExtHeader`, `NetHeaders`, `IpHeaders`,
/// `TransportHeader`): the length they announce and the bytes they write have to be the wrapped header's
pub fn wrap_bad(expected: &[u8], lens: &[usize], writes: &[Option<Vec<u8>>]) -> bool {
    lens.iter().any(|l| *l != expected.len()) || writes.iter().any(|w| w.as_deref() != Some(expected))
}

pub fn wvec<E>(f: impl FnOnce(&mut Vec<u8>) -> Result<(), E>) -> Option<Vec<u8>> {
    let mut v = Vec::new();
    f(&mut v).ok().map(|_| v)
}
