//! Argument parsing and canonical printing shared by all operation families.

pub fn hex(s: &str) -> Option<Vec<u8>> {
    if s == "-" {
        return Some(Vec::new());
    }
    if s.len() % 2 != 0 {
        return None;
    }
    let b = s.as_bytes();
    let mut out = Vec::with_capacity(b.len() / 2);
    for i in (0..b.len()).step_by(2) {
        let hi = (b[i] as char).to_digit(16)?;
        let lo = (b[i + 1] as char).to_digit(16)?;
        out.push((hi * 16 + lo) as u8);
    }
    Some(out)
}

pub fn to_hex(b: &[u8]) -> String {
    if b.is_empty() {
        return "-".to_string();
    }
    let mut s = String::with_capacity(b.len() * 2);
    for x in b {
        s.push_str(&format!("{:02x}", x));
    }
    s
}

pub fn num<T: core::str::FromStr>(s: &str) -> Option<T> {
    s.parse::<T>().ok()
}

/// `(offset,len)` of `part` relative to the start of `base` (pointer difference).
/// Prints `(!addr-outside)` if the part does not lie inside the base slice, which is what
/// the C01 range oracle looks for.
pub fn win(base: &[u8], part: &[u8]) -> String {
    let b0 = base.as_ptr() as usize;
    let p0 = part.as_ptr() as usize;
    if part.is_empty() {
        // an empty slice may legally point anywhere inside [b0, b0+len]; normalise dangling ones
        if p0 >= b0 && p0 <= b0 + base.len() {
            return format!("({},0)", p0 - b0);
        }
        return "(!outside,0)".to_string();
    }
    if p0 < b0 || p0 + part.len() > b0 + base.len() {
        return format!("(!outside,{})", part.len());
    }
    format!("({},{})", p0 - b0, part.len())
}
