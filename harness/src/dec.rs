//! `dec.*` and `impl.dec.*` operations (stub; filled in by the owner of this family).
#![allow(unused_imports, dead_code)]
use crate::util::*;

pub fn run(_op: &str, _a: &[&str]) -> Option<String> {
    None
}
