//! `dec.*` operations: every decoding door of etherparse, printing every accessor of the result
//! in the canonical grammar shared with lean/EpModel/Driver/DecRender.lean.
#![allow(clippy::too_many_arguments)]
use crate::util::*;
use etherparse::err::packet::SliceError;
use etherparse::err::{Layer, LenError};
use etherparse::*;

fn b01(b: bool) -> &'static str {
    if b {
        "1"
    } else {
        "0"
    }
}

pub fn src(s: LenSource) -> &'static str {
    match s {
        LenSource::Slice => "Slice",
        LenSource::MacsecShortLength => "MacsecShortLength",
        LenSource::Ipv4HeaderTotalLen => "Ipv4HeaderTotalLen",
        LenSource::Ipv6HeaderPayloadLen => "Ipv6HeaderPayloadLen",
        LenSource::UdpHeaderLen => "UdpHeaderLen",
        LenSource::TcpHeaderLen => "TcpHeaderLen",
        LenSource::ArpAddrLengths => "ArpAddrLengths",
    }
}

pub fn layer(l: Layer) -> String {
    format!("{:?}", l)
}

pub fn len_err(e: &LenError) -> String {
    crate::util::touch(e);
    format!(
        "len(req={},len={},src={},layer={},off={})",
        e.required_len,
        e.len,
        src(e.len_source),
        layer(e.layer),
        e.layer_start_offset
    )
}

fn sll_err(e: &err::linux_sll::HeaderError) -> String {
    crate::util::touch(e);
    use err::linux_sll::HeaderError::*;
    match e {
        UnsupportedPacketTypeField { packet_type } => format!("LinuxSll(PacketType({}))", packet_type),
        UnsupportedArpHardwareId { arp_hardware_type } => {
            format!("LinuxSll(ArpHw({}))", u16::from(*arp_hardware_type))
        }
    }
}

fn macsec_err(e: &err::macsec::HeaderError) -> String {
    crate::util::touch(e);
    use err::macsec::HeaderError::*;
    match e {
        UnexpectedVersion => "Macsec(UnexpectedVersion)".to_string(),
        InvalidUnmodifiedShortLen => "Macsec(InvalidUnmodifiedShortLen)".to_string(),
    }
}

fn ip_err(e: &err::ip::HeaderError) -> String {
    crate::util::touch(e);
    use err::ip::HeaderError::*;
    match e {
        UnsupportedIpVersion { version_number } => format!("Ip(Version({}))", version_number),
        Ipv4HeaderLengthSmallerThanHeader { ihl } => format!("Ip(Ihl({}))", ihl),
    }
}

fn ipv4_err(e: &err::ipv4::HeaderError) -> String {
    crate::util::touch(e);
    use err::ipv4::HeaderError::*;
    match e {
        UnexpectedVersion { version_number } => format!("Ipv4(Version({}))", version_number),
        HeaderLengthSmallerThanHeader { ihl } => format!("Ipv4(Ihl({}))", ihl),
    }
}

fn ipv6_err(e: &err::ipv6::HeaderError) -> String {
    crate::util::touch(e);
    use err::ipv6::HeaderError::*;
    match e {
        UnexpectedVersion { version_number } => format!("Ipv6(Version({}))", version_number),
    }
}

fn auth_err_v4(_e: &err::ip_auth::HeaderError) -> String {
    crate::util::touch(_e);
    "Ipv4Exts(ZeroPayloadLen)".to_string()
}

fn ipv6_exts_err(e: &err::ipv6_exts::HeaderError) -> String {
    crate::util::touch(e);
    use err::ipv6_exts::HeaderError::*;
    match e {
        HopByHopNotAtStart => "Ipv6Exts(HopByHopNotAtStart)".to_string(),
        IpAuth(_) => "Ipv6Exts(IpAuth(ZeroPayloadLen))".to_string(),
    }
}

fn tcp_err(e: &err::tcp::HeaderError) -> String {
    crate::util::touch(e);
    use err::tcp::HeaderError::*;
    match e {
        DataOffsetTooSmall { data_offset } => format!("Tcp(DataOffset({}))", data_offset),
    }
}

pub fn perr(e: &SliceError) -> String {
    crate::util::touch(e);
    match e {
        SliceError::Len(l) => len_err(l),
        SliceError::LinuxSll(e) => sll_err(e),
        SliceError::Macsec(e) => macsec_err(e),
        SliceError::Ip(e) => ip_err(e),
        SliceError::Ipv4(e) => ipv4_err(e),
        SliceError::Ipv6(e) => ipv6_err(e),
        SliceError::Ipv4Exts(e) => auth_err_v4(e),
        SliceError::Ipv6Exts(e) => ipv6_exts_err(e),
        SliceError::Tcp(e) => tcp_err(e),
    }
}

fn stop(s: &Option<(SliceError, Layer)>) -> String {
    match s {
        None => "none".to_string(),
        Some((e, l)) => format!("({},{})", perr(e), layer(*l)),
    }
}

// ---------------------------------------------------------------------------------------------
// field lists

fn eth2_fields(dst: [u8; 6], srcm: [u8; 6], et: EtherType) -> String {
    format!("dst={},src={},et={}", to_hex(&dst), to_hex(&srcm), et.0)
}

fn sll_proto(p: LinuxSllProtocolType) -> String {
    match p {
        LinuxSllProtocolType::Ignored(v) => format!("Ignored({})", v),
        LinuxSllProtocolType::NetlinkProtocolType(v) => format!("Netlink({})", v),
        LinuxSllProtocolType::GenericRoutingEncapsulationProtocolType(v) => format!("Gre({})", v),
        LinuxSllProtocolType::EtherType(v) => format!("EtherType({})", v.0),
        LinuxSllProtocolType::LinuxNonstandardEtherType(v) => format!("Nonstandard({})", u16::from(v)),
    }
}

fn sll_fields(h: &LinuxSllHeader) -> String {
    format!(
        "pt={},hw={},alen={},addr={},proto={}",
        u16::from(h.packet_type),
        u16::from(h.arp_hrd_type),
        h.sender_address_valid_length,
        to_hex(&h.sender_address),
        sll_proto(h.protocol_type)
    )
}

fn vlan_fields(h: &SingleVlanHeader) -> String {
    format!(
        "pcp={},dei={},vid={},et={}",
        h.pcp.value(),
        b01(h.drop_eligible_indicator),
        h.vlan_id.value(),
        h.ether_type.0
    )
}

fn macsec_fields(h: &MacsecHeader) -> String {
    let ptype = match h.ptype {
        MacsecPType::Unmodified(et) => format!("Unmodified({})", et.0),
        MacsecPType::Modified => "Modified".to_string(),
        MacsecPType::Encrypted => "Encrypted".to_string(),
        MacsecPType::EncryptedUnmodified => "EncryptedUnmodified".to_string(),
    };
    format!(
        "ptype={},es={},scb={},an={},sl={},pn={},sci={}",
        ptype,
        b01(h.endstation_id),
        b01(h.scb),
        h.an.value(),
        h.short_len.value(),
        h.packet_nr,
        match h.sci {
            Some(v) => v.to_string(),
            None => "none".to_string(),
        }
    )
}

fn ipv4_fields(h: &Ipv4Header) -> String {
    format!(
        "ihl={},dscp={},ecn={},tl={},id={},df={},mf={},fo={},ttl={},proto={},ck={},src={},dst={}",
        h.ihl(),
        h.dscp.value(),
        h.ecn.value(),
        h.total_len,
        h.identification,
        b01(h.dont_fragment),
        b01(h.more_fragments),
        h.fragment_offset.value(),
        h.time_to_live,
        h.protocol.0,
        h.header_checksum,
        to_hex(&h.source),
        to_hex(&h.destination)
    )
}

fn ipv4_slice_fields(h: &Ipv4HeaderSlice) -> String {
    format!(
        "ihl={},dscp={},ecn={},tl={},id={},df={},mf={},fo={},ttl={},proto={},ck={},src={},dst={}",
        h.ihl(),
        h.dcp().value(),
        h.ecn().value(),
        h.total_len(),
        h.identification(),
        b01(h.dont_fragment()),
        b01(h.more_fragments()),
        h.fragments_offset().value(),
        h.ttl(),
        h.protocol().0,
        h.header_checksum(),
        to_hex(&h.source()),
        to_hex(&h.destination())
    )
}

fn ipv6_fields(h: &Ipv6Header) -> String {
    format!(
        "tc={},fl={},plen={},nh={},hop={},src={},dst={}",
        h.traffic_class,
        h.flow_label.value(),
        h.payload_length,
        h.next_header.0,
        h.hop_limit,
        to_hex(&h.source),
        to_hex(&h.destination)
    )
}

fn ipv6_slice_fields(h: &Ipv6HeaderSlice) -> String {
    format!(
        "tc={},fl={},plen={},nh={},hop={},src={},dst={}",
        h.traffic_class(),
        h.flow_label().value(),
        h.payload_length(),
        h.next_header().0,
        h.hop_limit(),
        to_hex(&h.source()),
        to_hex(&h.destination())
    )
}

fn frag_fields(nh: IpNumber, fo: IpFragOffset, mf: bool, id: u32) -> String {
    format!("nh={},fo={},mf={},id={}", nh.0, fo.value(), b01(mf), id)
}

fn udp_fields(sp: u16, dp: u16, len: u16, ck: u16) -> String {
    format!("sp={},dp={},len={},ck={}", sp, dp, len, ck)
}

fn tcp_flags(ns: bool, fin: bool, syn: bool, rst: bool, psh: bool, ack: bool, urg: bool, ece: bool, cwr: bool) -> u32 {
    (ns as u32) * 256
        + (fin as u32)
        + (syn as u32) * 2
        + (rst as u32) * 4
        + (psh as u32) * 8
        + (ack as u32) * 16
        + (urg as u32) * 32
        + (ece as u32) * 64
        + (cwr as u32) * 128
}

fn tcp_hdr_fields(h: &TcpHeader) -> String {
    format!(
        "sp={},dp={},seq={},ack={},doff={},flags={},win={},ck={},urg={}",
        h.source_port,
        h.destination_port,
        h.sequence_number,
        h.acknowledgment_number,
        h.data_offset(),
        tcp_flags(h.ns, h.fin, h.syn, h.rst, h.psh, h.ack, h.urg, h.ece, h.cwr),
        h.window_size,
        h.checksum,
        h.urgent_pointer
    )
}

fn tcp_slice_fields(h: &TcpSlice) -> String {
    format!(
        "sp={},dp={},seq={},ack={},doff={},flags={},win={},ck={},urg={}",
        h.source_port(),
        h.destination_port(),
        h.sequence_number(),
        h.acknowledgment_number(),
        h.data_offset(),
        tcp_flags(h.ns(), h.fin(), h.syn(), h.rst(), h.psh(), h.ack(), h.urg(), h.ece(), h.cwr()),
        h.window_size(),
        h.checksum(),
        h.urgent_pointer()
    )
}

fn arp_fields(hw: ArpHardwareId, proto: EtherType, hlen: u8, plen: u8, op: ArpOperation) -> String {
    format!("hw={},proto={},hlen={},plen={},op={}", u16::from(hw), proto.0, hlen, plen, op.0)
}

fn ip_pl(num: IpNumber, frag: bool, s: LenSource, base: &[u8], p: &[u8], inc: bool) -> String {
    format!("(num={},frag={},src={},w={},inc={})", num.0, b01(frag), src(s), win(base, p), b01(inc))
}

// ---------------------------------------------------------------------------------------------
// slice family

fn link_slice(base: &[u8], l: &Option<LinkSlice>) -> String {
    match l {
        None => "none".to_string(),
        Some(LinkSlice::Ethernet2(e)) => {
            // accessors vs to_header must agree
            let h = e.to_header();
            let f = eth2_fields(e.destination(), e.source(), e.ether_type());
            let f2 = eth2_fields(h.destination, h.source, h.ether_type);
            let pl = e.payload();
            format!(
                "eth2(s={},{},pl={}){}",
                win(base, e.slice()),
                f,
                win(base, pl.payload),
                if f != f2 || pl.ether_type != e.ether_type() || pl.len_source != LenSource::Slice || win(base, e.header_slice()) != format!("({},14)", off(base, e.slice())) || e.payload_slice() != pl.payload {
                    "!accessor-mismatch"
                } else {
                    ""
                }
            )
        }
        Some(LinkSlice::LinuxSll(s)) => {
            let h = s.to_header();
            let pl = s.payload();
            format!(
                "sll(s={},{},sa={},pl={}){}",
                win(base, s.slice()),
                sll_fields(&h),
                win(base, s.sender_address()),
                win(base, pl.payload),
                if pl.protocol_type != s.protocol_type()
                    || h.packet_type != s.packet_type()
                    || h.arp_hrd_type != s.arp_hardware_type()
                    || win(base, s.header_slice()) != format!("({},16)", off(base, s.slice()))
                    || h.sender_address_valid_length != s.sender_address_valid_length()
                    || h.sender_address != s.sender_address_full()
                    || s.sender_address_full()[..] != s.slice()[6..14]
                    || s.sender_address_valid_length() != u16::from_be_bytes([s.slice()[4], s.slice()[5]])
                    || s.sender_address() != &s.slice()[6..6 + usize::from(s.sender_address_valid_length()).min(8)]
                    || s.payload_slice() != pl.payload
                    || LinuxSllHeaderSlice::from_slice(s.slice()).map(|x| (x.to_header(), x.slice().len(), x.sender_address_valid_length(), x.sender_address_full(), x.sender_address().to_vec(), x.packet_type(), x.arp_hardware_type(), x.protocol_type())).ok()
                        != Some((h.clone(), 16, s.sender_address_valid_length(), s.sender_address_full(), s.sender_address().to_vec(), s.packet_type(), s.arp_hardware_type(), s.protocol_type()))
                {
                    "!accessor-mismatch"
                } else {
                    ""
                }
            )
        }
        Some(LinkSlice::EtherPayload(e)) => format!("ep(et={},pl={})", e.ether_type.0, win(base, e.payload)),
        Some(LinkSlice::LinuxSllPayload(e)) => format!("sllp(proto={},pl={})", sll_proto(e.protocol_type), win(base, e.payload)),
    }
}

fn off(base: &[u8], part: &[u8]) -> usize {
    (part.as_ptr() as usize).wrapping_sub(base.as_ptr() as usize)
}

fn vlan_slice(base: &[u8], v: &SingleVlanSlice) -> String {
    let h = v.to_header();
    let pl = v.payload();
    format!(
        "vlan(s={},{},pl={}){}",
        win(base, v.slice()),
        vlan_fields(&h),
        win(base, pl.payload),
        if pl.ether_type != v.ether_type() || h.vlan_id != v.vlan_identifier() || h.pcp != v.priority_code_point() || h.drop_eligible_indicator != v.drop_eligible_indicator() || win(base, v.header_slice()) != format!("({},4)", off(base, v.slice())) || v.payload_slice() != pl.payload {
            "!accessor-mismatch"
        } else {
            ""
        }
    )
}

fn macsec_hdr_check(h: &MacsecHeaderSlice) -> &'static str {
    let t = h.to_header();
    let ok = t.ptype == h.ptype()
        && t.endstation_id == h.endstation_id()
        && t.scb == h.tci_scb()
        && t.an == h.an()
        && t.short_len == h.short_len()
        && t.packet_nr == h.packet_nr()
        && t.sci == h.sci()
        && h.header_len() == h.slice().len()
        && h.sci_present() == h.sci().is_some()
        && h.is_unmodified() == h.next_ether_type().is_some()
        && h.expected_payload_len() == t.expected_payload_len()
        && h.tci_an_raw() == h.slice()[0]
        && h.encrypted() == (h.slice()[0] & 0b1000 != 0)
        && h.userdata_changed() == (h.slice()[0] & 0b100 != 0)
        && h.is_unmodified() == !(h.encrypted() || h.userdata_changed())
        && h.sci_present() == (h.slice()[0] & 0b10_0000 != 0)
        && (t.ptype
            == match (h.encrypted(), h.userdata_changed()) {
                (true, true) => MacsecPType::Encrypted,
                (true, false) => MacsecPType::EncryptedUnmodified,
                (false, true) => MacsecPType::Modified,
                (false, false) => MacsecPType::Unmodified(h.next_ether_type().unwrap_or(EtherType(0))),
            });
    if ok {
        ""
    } else {
        "!accessor-mismatch"
    }
}

fn ext_slice(base: &[u8], e: &LinkExtSlice) -> String {
    match e {
        LinkExtSlice::Vlan(v) => vlan_slice(base, v),
        LinkExtSlice::Macsec(m) => {
            let (pl, s) = match &m.payload {
                MacsecPayloadSlice::Unmodified(e) => (e.payload, e.len_source),
                MacsecPayloadSlice::Modified(p) => (*p, if m.header.expected_payload_len().is_some() { LenSource::MacsecShortLength } else { LenSource::Slice }),
            };
            format!(
                "macsec(h={},{},pl={},plsrc={},inc=0){}",
                win(base, m.header.slice()),
                macsec_fields(&m.header.to_header()),
                win(base, pl),
                src(s),
                macsec_hdr_check(&m.header)
            )
        }
    }
}

fn lax_ext_slice(base: &[u8], e: &LaxLinkExtSlice) -> String {
    match e {
        LaxLinkExtSlice::Vlan(v) => vlan_slice(base, v),
        LaxLinkExtSlice::Macsec(m) => {
            let (pl, s, inc) = match &m.payload {
                LaxMacsecPayloadSlice::Unmodified(e) => (e.payload, e.len_source, e.incomplete),
                LaxMacsecPayloadSlice::Modified { incomplete, payload } => (
                    *payload,
                    if m.header.expected_payload_len().is_some() && !*incomplete { LenSource::MacsecShortLength } else { LenSource::Slice },
                    *incomplete,
                ),
            };
            format!(
                "macsec(h={},{},pl={},plsrc={},inc={}){}",
                win(base, m.header.slice()),
                macsec_fields(&m.header.to_header()),
                win(base, pl),
                src(s),
                b01(inc),
                macsec_hdr_check(&m.header)
            )
        }
    }
}

fn ah_slice(base: &[u8], a: &IpAuthHeaderSlice) -> String {
    let h = a.to_header();
    format!(
        "s={},nh={},spi={},seq={},icv={}{}",
        win(base, a.slice()),
        a.next_header().0,
        a.spi(),
        a.sequence_number(),
        win(base, a.raw_icv()),
        if h.next_header != a.next_header() || h.spi != a.spi() || h.sequence_number != a.sequence_number() || h.raw_icv() != a.raw_icv() {
            "!accessor-mismatch"
        } else {
            ""
        }
    )
}

fn ext_iter(base: &[u8], exts: &Ipv6ExtensionsSlice) -> String {
    let mut items = Vec::new();
    let mut n = 0usize;
    for e in exts.clone().into_iter() {
        n += 1;
        if n > exts.slice().len() / 4 + 3 {
            items.push("runaway".to_string());
            break;
        }
        items.push(match e {
            Ipv6ExtensionSlice::HopByHop(s) => {
                let _ = s.to_header();
                format!("HopByHop(s={},nh={})", win(base, s.slice()), s.next_header().0)
            }
            Ipv6ExtensionSlice::Routing(s) => {
                let _ = s.to_header();
                format!("Routing(s={},nh={})", win(base, s.slice()), s.next_header().0)
            }
            Ipv6ExtensionSlice::DestinationOptions(s) => {
                let _ = s.to_header();
                format!("DestinationOptions(s={},nh={})", win(base, s.slice()), s.next_header().0)
            }
            Ipv6ExtensionSlice::Fragment(s) => {
                let h = s.to_header();
                format!(
                    "Fragment(s={},{}){}",
                    win(base, s.slice()),
                    frag_fields(s.next_header(), s.fragment_offset(), s.more_fragments(), s.identification()),
                    if h.is_fragmenting_payload() != s.is_fragmenting_payload() { "!accessor-mismatch" } else { "" }
                )
            }
            Ipv6ExtensionSlice::Authentication(s) => format!("Authentication({})", ah_slice(base, &s)),
        });
    }
    format!("[{}]", items.join(","))
}

fn ipv4_slice_str(base: &[u8], h: &Ipv4HeaderSlice, exts: &Ipv4ExtensionsSlice, pl: String) -> String {
    let th = h.to_header();
    let mism = ipv4_fields(&th) != ipv4_slice_fields(h) || &th.options[..] != h.options() || h.is_fragmenting_payload() != th.is_fragmenting_payload() || h.version() != 4;
    format!(
        "ipv4(h={},{},opts={},auth={},pl={}){}",
        win(base, h.slice()),
        ipv4_slice_fields(h),
        win(base, h.options()),
        match &exts.auth {
            None => "none".to_string(),
            Some(a) => format!("ah({})", ah_slice(base, a)),
        },
        pl,
        if mism { "!accessor-mismatch" } else { "" }
    )
}

fn ipv6_slice_str(base: &[u8], h: &Ipv6HeaderSlice, exts: &Ipv6ExtensionsSlice, pl: String) -> String {
    let th = h.to_header();
    let mism = ipv6_fields(&th) != ipv6_slice_fields(h) || h.version() != 6 || exts.is_empty() != exts.slice().is_empty();
    format!(
        "ipv6(h={},{},exts={},first={},iter={},pl={}){}",
        win(base, h.slice()),
        ipv6_slice_fields(h),
        win(base, exts.slice()),
        match exts.first_header() {
            None => "none".to_string(),
            Some(n) => n.0.to_string(),
        },
        ext_iter(base, exts),
        pl,
        if mism { "!accessor-mismatch" } else { "" }
    )
}

fn arp_slice_str(base: &[u8], a: &ArpPacketSlice) -> String {
    let p = a.to_packet();
    let mism = p.sender_hw_addr() != a.sender_hw_addr() || p.sender_protocol_addr() != a.sender_protocol_addr() || p.target_hw_addr() != a.target_hw_addr() || p.target_protocol_addr() != a.target_protocol_addr() || p.hw_addr_type != a.hw_addr_type() || p.operation != a.operation() || p.proto_addr_type != a.proto_addr_type();
    format!(
        "arp(s={},{},sha={},spa={},tha={},tpa={}){}",
        win(base, a.slice()),
        arp_fields(a.hw_addr_type(), a.proto_addr_type(), a.hw_addr_size(), a.proto_addr_size(), a.operation()),
        win(base, a.sender_hw_addr()),
        win(base, a.sender_protocol_addr()),
        win(base, a.target_hw_addr()),
        win(base, a.target_protocol_addr()),
        if mism { "!accessor-mismatch" } else { "" }
    )
}

fn net_slice(base: &[u8], n: &Option<NetSlice>) -> String {
    match n {
        None => "none".to_string(),
        Some(NetSlice::Arp(a)) => arp_slice_str(base, a),
        Some(NetSlice::Ipv4(s)) => {
            let p = s.payload();
            let mism = s.payload_ip_number() != p.ip_number || s.is_payload_fragmented() != p.fragmented;
            format!(
                "{}{}",
                ipv4_slice_str(base, &s.header(), &s.extensions(), ip_pl(p.ip_number, p.fragmented, p.len_source, base, p.payload, false)),
                if mism { "!accessor-mismatch" } else { "" }
            )
        }
        Some(NetSlice::Ipv6(s)) => {
            let p = s.payload();
            let mism = s.is_payload_fragmented() != p.fragmented;
            format!(
                "{}{}",
                ipv6_slice_str(base, &s.header(), s.extensions(), ip_pl(p.ip_number, p.fragmented, p.len_source, base, p.payload, false)),
                if mism { "!accessor-mismatch" } else { "" }
            )
        }
    }
}

fn lax_net_slice(base: &[u8], n: &Option<LaxNetSlice>) -> String {
    match n {
        None => "none".to_string(),
        Some(LaxNetSlice::Arp(a)) => arp_slice_str(base, a),
        Some(LaxNetSlice::Ipv4(s)) => {
            let p = s.payload();
            ipv4_slice_str(base, &s.header(), &s.extensions(), ip_pl(p.ip_number, p.fragmented, p.len_source, base, p.payload, p.incomplete))
        }
        Some(LaxNetSlice::Ipv6(s)) => {
            let p = s.payload();
            ipv6_slice_str(base, &s.header(), s.extensions(), ip_pl(p.ip_number, p.fragmented, p.len_source, base, p.payload, p.incomplete))
        }
    }
}

fn udp_slice_str(base: &[u8], u: &UdpSlice) -> String {
    crate::guard::observe(&format!("udp_ck={:?}", u.to_header().calc_checksum_ipv4_raw([1, 2, 3, 4], [5, 6, 7, 8], u.payload()).ok()));
    let h = u.to_header();
    let mism = h.source_port != u.source_port()
        || h.length != u.length()
        || win(base, u.header_slice()) != format!("({},8)", off(base, u.slice()))
        || u.header_len() != 8
        || u.header_len_u16() != 8
        || h.header_len() != 8
        || h.header_len_u16() != 8
        || u.payload_len_source() != (if usize::from(u.length()) == u.slice().len() { LenSource::UdpHeaderLen } else { LenSource::Slice })
        || UdpHeaderSlice::from_slice(u.slice()).map(|x| x.slice().len() != 8 || x.to_header() != h || x.slice().as_ptr() != u.slice().as_ptr()).unwrap_or(true);
    format!(
        "udp(s={},{},pl={}){}",
        win(base, u.slice()),
        udp_fields(u.source_port(), u.destination_port(), u.length(), u.checksum()),
        win(base, u.payload()),
        if mism { "!accessor-mismatch" } else { "" }
    )
}

fn tcp_slice_str(base: &[u8], t: &TcpSlice) -> String {
    // sums over the decoded bytes: a function of the bytes, wherever they lie
    crate::guard::observe(&format!(
        "tcp_ck={:?}/{:?}",
        t.calc_checksum_ipv4([1, 2, 3, 4], [5, 6, 7, 8]).ok(),
        t.calc_checksum_ipv6([0x11; 16], [0x22; 16]).ok()
    ));
    let h = t.to_header();
    let mism = tcp_hdr_fields(&h) != tcp_slice_fields(t) || h.options.as_slice() != t.options() || win(base, t.header_slice()) != format!("({},{})", off(base, t.slice()), t.header_len());
    // drive the options iterator (bounded) - its items are the subject of C13
    let mut n = 0;
    for _ in t.options_iterator() {
        n += 1;
        if n > 64 {
            return "runaway".to_string();
        }
    }
    format!(
        "tcp(s={},hl={},{},opts={},pl={}){}",
        win(base, t.slice()),
        t.header_len(),
        tcp_slice_fields(t),
        win(base, t.options()),
        win(base, t.payload()),
        if mism { "!accessor-mismatch" } else { "" }
    )
}

fn icmp4_slice_str(base: &[u8], i: &Icmpv4Slice) -> String {
    crate::guard::observe(&format!("icmp4_ck={}", i.header().icmp_type.calc_checksum(i.payload())));
    let h = i.header();
    // the typed header has to be a reading of the same type/code octets
    let hb = h.to_bytes();
    let mism = h.header_len() != i.header_len() || h.checksum != i.checksum() || hb[0] != i.type_u8() || hb[1] != i.code_u8() || h.icmp_type != i.icmp_type();
    format!(
        "icmp4(s={},type={},code={},ck={},b58={},hl={},pl={}){}",
        win(base, i.slice()),
        i.type_u8(),
        i.code_u8(),
        i.checksum(),
        to_hex(&i.bytes5to8()),
        i.header_len(),
        win(base, i.payload()),
        if mism { "!accessor-mismatch" } else { "" }
    )
}

fn icmp6_slice_str(base: &[u8], i: &Icmpv6Slice) -> String {
    crate::guard::observe(&format!("icmp6_valid={}", i.is_checksum_valid([0x11; 16], [0x22; 16])));
    let h = i.header();
    let hb = h.to_bytes();
    let mism = h.header_len() > i.slice().len().max(8) + 32
        || h.checksum != i.checksum()
        || i.header_len() != 8
        || h.icmp_type.type_u8() != i.type_u8()
        || h.icmp_type.code_u8() != i.code_u8()
        || hb[0] != i.type_u8()
        || hb[1] != i.code_u8()
        || h.icmp_type != i.icmp_type();
    let _ = i.payload_slice();
    format!(
        "icmp6(s={},type={},code={},ck={},b58={},pl={}){}",
        win(base, i.slice()),
        i.type_u8(),
        i.code_u8(),
        i.checksum(),
        to_hex(&i.bytes5to8()),
        win(base, i.payload()),
        if mism { "!accessor-mismatch" } else { "" }
    )
}

fn tp_slice(base: &[u8], t: &Option<TransportSlice>) -> String {
    match t {
        None => "none".to_string(),
        Some(TransportSlice::Udp(u)) => udp_slice_str(base, u),
        Some(TransportSlice::Tcp(t)) => tcp_slice_str(base, t),
        Some(TransportSlice::Icmpv4(i)) => icmp4_slice_str(base, i),
        Some(TransportSlice::Icmpv6(i)) => icmp6_slice_str(base, i),
    }
}

/// the convenience accessors of the packet types, against the layers they summarise
// ---------------------------------------------------------------------------------------------
// the enum wrappers around the layer slices: every helper has to say what the wrapped variant says

fn eth_pl_eq(a: &EtherPayloadSlice, b: &EtherPayloadSlice) -> bool {
    a.ether_type == b.ether_type && a.len_source == b.len_source && a.payload.as_ptr() == b.payload.as_ptr() && a.payload.len() == b.payload.len()
}

fn net_slice_helpers_bad(n: &NetSlice) -> bool {
    let (v4, v6, arp) = match n {
        NetSlice::Ipv4(_) => (true, false, false),
        NetSlice::Ipv6(_) => (false, true, false),
        NetSlice::Arp(_) => (false, false, true),
    };
    let pl = match n {
        NetSlice::Ipv4(s) => Some(s.payload().clone()),
        NetSlice::Ipv6(s) => Some(s.payload().clone()),
        NetSlice::Arp(_) => None,
    };
    let via_from = match n {
        NetSlice::Ipv4(s) => NetSlice::from(s.clone()) != *n || NetSlice::from(IpSlice::Ipv4(s.clone())) != *n || NetSlice::from(IpSlice::from(s.clone())) != *n,
        NetSlice::Ipv6(s) => NetSlice::from(s.clone()) != *n || NetSlice::from(IpSlice::Ipv6(s.clone())) != *n || NetSlice::from(IpSlice::from(s.clone())) != *n,
        NetSlice::Arp(_) => false,
    };
    n.is_ip() != (v4 || v6)
        || n.is_ipv4() != v4
        || n.is_ipv6() != v6
        || n.is_arp() != arp
        || n.ipv4_ref().is_some() != v4
        || n.ipv6_ref().is_some() != v6
        || n.arp_ref().is_some() != arp
        || n.ipv4_ref().map(|s| NetSlice::Ipv4(s.clone()) != *n).unwrap_or(false)
        || n.ipv6_ref().map(|s| NetSlice::Ipv6(s.clone()) != *n).unwrap_or(false)
        || n.arp_ref().map(|s| NetSlice::Arp(s.clone()) != *n).unwrap_or(false)
        || n.ip_payload_ref().cloned() != pl
        || via_from
}

fn ip_slice_helpers_bad(s: &IpSlice) -> bool {
    let (v4, frag, pl) = match s {
        IpSlice::Ipv4(x) => (true, x.payload().fragmented, x.payload().clone()),
        IpSlice::Ipv6(x) => (false, x.payload().fragmented, x.payload().clone()),
    };
    s.ipv4().is_some() != v4
        || s.ipv6().is_some() == v4
        || s.ipv4().map(|x| IpSlice::Ipv4(x.clone()) != *s).unwrap_or(false)
        || s.ipv6().map(|x| IpSlice::Ipv6(x.clone()) != *s).unwrap_or(false)
        || s.is_fragmenting_payload() != frag
        || *s.payload() != pl
        || s.payload_ip_number() != pl.ip_number
}

fn lax_net_slice_helpers_bad(n: &LaxNetSlice) -> bool {
    let pl = match n {
        LaxNetSlice::Ipv4(s) => Some(s.payload().clone()),
        LaxNetSlice::Ipv6(s) => Some(s.payload().clone()),
        LaxNetSlice::Arp(_) => None,
    };
    let sub = match n {
        LaxNetSlice::Ipv4(s) => {
            LaxNetSlice::from(s.clone()) != *n
                || LaxNetSlice::from(LaxIpSlice::Ipv4(s.clone())) != *n
                || s.payload_ip_number() != s.payload().ip_number
                || s.is_payload_fragmented() != s.payload().fragmented
                || lax_ip_slice_helpers_bad(&LaxIpSlice::from(s.clone()))
        }
        LaxNetSlice::Ipv6(s) => {
            LaxNetSlice::from(s.clone()) != *n
                || LaxNetSlice::from(LaxIpSlice::Ipv6(s.clone())) != *n
                || s.is_payload_fragmented() != s.payload().fragmented
                || lax_ip_slice_helpers_bad(&LaxIpSlice::from(s.clone()))
        }
        LaxNetSlice::Arp(_) => false,
    };
    n.ip_payload_ref().cloned() != pl || sub
}

fn lax_ip_slice_helpers_bad(s: &LaxIpSlice) -> bool {
    use core::net::IpAddr;
    let (v4, frag, pl, sa, da) = match s {
        LaxIpSlice::Ipv4(x) => (true, x.payload().fragmented, x.payload().clone(), IpAddr::from(x.header().source()), IpAddr::from(x.header().destination())),
        LaxIpSlice::Ipv6(x) => (false, x.payload().fragmented, x.payload().clone(), IpAddr::from(x.header().source()), IpAddr::from(x.header().destination())),
    };
    s.ipv4().is_some() != v4
        || s.ipv6().is_some() == v4
        || s.ipv4().map(|x| LaxIpSlice::Ipv4(x.clone()) != *s).unwrap_or(false)
        || s.ipv6().map(|x| LaxIpSlice::Ipv6(x.clone()) != *s).unwrap_or(false)
        || s.is_fragmenting_payload() != frag
        || *s.payload() != pl
        || s.payload_ip_number() != pl.ip_number
        || s.source_addr() != sa
        || s.destination_addr() != da
}

fn link_slice_helpers_bad(l: &LinkSlice) -> bool {
    // the payload of the link layer as an ether payload (None when the SLL protocol field is no ether type)
    // and as an SLL payload
    let (ep, sp): (Option<EtherPayloadSlice>, LinuxSllPayloadSlice) = match l {
        LinkSlice::Ethernet2(e) => {
            let p = e.payload();
            (Some(p.clone()), LinuxSllPayloadSlice { protocol_type: LinuxSllProtocolType::EtherType(p.ether_type), payload: p.payload })
        }
        LinkSlice::LinuxSll(s) => {
            let p = s.payload();
            (
                match p.protocol_type {
                    LinuxSllProtocolType::EtherType(et) => Some(EtherPayloadSlice { ether_type: et, len_source: LenSource::Slice, payload: p.payload }),
                    // the crate hands the Linux non-standard protocol numbers on as ether type numbers
                    LinuxSllProtocolType::LinuxNonstandardEtherType(n) => Some(EtherPayloadSlice { ether_type: EtherType(u16::from(n)), len_source: LenSource::Slice, payload: p.payload }),
                    _ => None,
                },
                p.clone(),
            )
        }
        LinkSlice::EtherPayload(p) => (Some(p.clone()), LinuxSllPayloadSlice { protocol_type: LinuxSllProtocolType::EtherType(p.ether_type), payload: p.payload }),
        LinkSlice::LinuxSllPayload(p) => (
            match p.protocol_type {
                LinuxSllProtocolType::EtherType(et) => Some(EtherPayloadSlice { ether_type: et, len_source: LenSource::Slice, payload: p.payload }),
                LinuxSllProtocolType::LinuxNonstandardEtherType(n) => Some(EtherPayloadSlice { ether_type: EtherType(u16::from(n)), len_source: LenSource::Slice, payload: p.payload }),
                _ => None,
            },
            p.clone(),
        ),
    };
    let got_e = l.ether_payload();
    let got_s = l.sll_payload();
    let e_bad = match (&got_e, &ep) {
        (None, None) => false,
        (Some(a), Some(b)) => !eth_pl_eq(a, b),
        _ => true,
    };
    e_bad || got_s.protocol_type != sp.protocol_type || got_s.payload.as_ptr() != sp.payload.as_ptr() || got_s.payload.len() != sp.payload.len()
}

fn link_ext_helpers_bad(e: &LinkExtSlice) -> bool {
    match e {
        LinkExtSlice::Vlan(v) => {
            e.header_len() != 4
                || !e.ether_payload().map(|p| eth_pl_eq(&p, &v.payload())).unwrap_or(false)
                || VlanSlice::SingleVlan(v.clone()).to_header() != VlanHeader::Single(v.to_header())
                || !eth_pl_eq(&VlanSlice::SingleVlan(v.clone()).payload(), &v.payload())
                || v.header_len() != 4
        }
        LinkExtSlice::Macsec(m) => {
            let want = match &m.payload {
                MacsecPayloadSlice::Unmodified(p) => Some(p.clone()),
                MacsecPayloadSlice::Modified(_) => None,
            };
            e.header_len() != m.header.slice().len()
                || match (e.ether_payload(), want) {
                    (None, None) => false,
                    (Some(a), Some(b)) => !eth_pl_eq(&a, &b),
                    _ => true,
                }
                || m.next_ether_type() != m.header.next_ether_type()
        }
    }
}

fn lax_link_ext_helpers_bad(e: &LaxLinkExtSlice) -> bool {
    match e {
        LaxLinkExtSlice::Vlan(v) => {
            let p = v.payload();
            e.header_len() != 4
                || e.payload().map(|g| g.incomplete || g.ether_type != p.ether_type || g.len_source != p.len_source || g.payload.as_ptr() != p.payload.as_ptr() || g.payload.len() != p.payload.len()).unwrap_or(true)
        }
        LaxLinkExtSlice::Macsec(m) => {
            let want = match &m.payload {
                LaxMacsecPayloadSlice::Unmodified(p) => Some(p.clone()),
                LaxMacsecPayloadSlice::Modified { .. } => None,
            };
            e.header_len() != m.header.slice().len() || e.payload() != want || m.ether_payload() != want || m.next_ether_type() != m.header.next_ether_type()
        }
    }
}

fn mark(bad: bool) -> &'static str {
    if bad {
        "!accessor-mismatch"
    } else {
        ""
    }
}

/// `vlan()` of the packet types against the VLAN link extensions it summarises (the first one, or the
/// first two as a double tag), and the conversions of the value it returns
fn vlan_helper_bad(vl: &Option<VlanSlice>, vlans: &[&SingleVlanSlice]) -> bool {
    match vl {
        None => !vlans.is_empty(),
        Some(VlanSlice::SingleVlan(s)) => {
            vlans.len() != 1
                || s != vlans[0]
                || vl.as_ref().unwrap().to_header() != VlanHeader::Single(vlans[0].to_header())
                || vl.as_ref().unwrap().to_header().next_header() != vlans[0].ether_type()
                || !eth_pl_eq(&vl.as_ref().unwrap().payload(), &vlans[0].payload())
        }
        Some(VlanSlice::DoubleVlan(d)) => {
            vlans.len() < 2
                || &d.outer != vlans[0]
                || &d.inner != vlans[1]
                || d.to_header() != (DoubleVlanHeader { outer: vlans[0].to_header(), inner: vlans[1].to_header() })
                || vl.as_ref().unwrap().to_header() != VlanHeader::Double(DoubleVlanHeader { outer: vlans[0].to_header(), inner: vlans[1].to_header() })
                || vl.as_ref().unwrap().to_header().next_header() != vlans[1].ether_type()
                || !eth_pl_eq(&d.payload(), &vlans[1].payload())
                || !eth_pl_eq(&vl.as_ref().unwrap().payload(), &vlans[1].payload())
                || d.payload_slice().as_ptr() != vlans[1].payload_slice().as_ptr()
                || d.payload_slice().len() != vlans[1].payload_slice().len()
                || format!("{:?}", d).is_empty()
        }
    }
}

fn helper_mismatch_sliced_inner(p: &SlicedPacket) -> bool {
    let ids: Vec<u16> = p
        .link_exts
        .iter()
        .filter_map(|e| match e {
            LinkExtSlice::Vlan(v) => Some(v.vlan_identifier().value()),
            _ => None,
        })
        .collect();
    let got: Vec<u16> = p.vlan_ids().iter().map(|v| v.value()).collect();
    let vl = match p.vlan() {
        None => 0,
        Some(VlanSlice::SingleVlan(_)) => 1,
        Some(VlanSlice::DoubleVlan(_)) => 2,
    };
    let frag = match &p.net {
        Some(NetSlice::Ipv4(v)) => v.payload().fragmented,
        Some(NetSlice::Ipv6(v)) => v.payload().fragmented,
        _ => false,
    };
    let pet = p.payload_ether_type();
    let pet_ok = if p.net.is_some() || p.transport.is_some() {
        pet.is_none()
    } else {
        pet == p.ether_payload().map(|e| e.ether_type) || p.ether_payload().is_none()
    };
    ids != got || vl != ids.len().min(2) || frag != p.is_ip_payload_fragmented() || !pet_ok
}

/// `ether_payload()` / `ip_payload()` of `SlicedPacket`: the payload of the last link extension (or of the link
/// layer), named as limited by the MACsec short length when one of the MACsec headers in front carries one
fn strict_payload_helpers_bad(p: &SlicedPacket) -> bool {
    let any_sl = p.link_exts.iter().any(|e| matches!(e, LinkExtSlice::Macsec(m) if m.header.short_len() != MacsecShortLen::ZERO));
    let want: Option<EtherPayloadSlice> = match p.link_exts.last() {
        Some(LinkExtSlice::Vlan(v)) => Some(v.payload()),
        Some(LinkExtSlice::Macsec(m)) => match &m.payload {
            MacsecPayloadSlice::Unmodified(e) => Some(e.clone()),
            MacsecPayloadSlice::Modified(_) => None,
        },
        // (`SlicedPacket::ether_payload` hands on an SLL payload only when the protocol field is an ether type;
        // `LinkSlice::ether_payload` and `LaxSlicedPacket::ether_payload` also for the Linux non-standard numbers)
        None => match p.link.as_ref() {
            Some(LinkSlice::LinuxSll(x)) if !matches!(x.protocol_type(), LinuxSllProtocolType::EtherType(_)) => None,
            Some(LinkSlice::LinuxSllPayload(x)) if !matches!(x.protocol_type, LinuxSllProtocolType::EtherType(_)) => None,
            Some(l) => l.ether_payload(),
            None => None,
        },
    };
    let got = p.ether_payload();
    let ep_bad = match (&got, &want) {
        (None, None) => false,
        (Some(g), Some(w)) => {
            g.ether_type != w.ether_type
                || g.payload.as_ptr() != w.payload.as_ptr()
                || g.payload.len() != w.payload.len()
                || (!p.link_exts.is_empty() && g.len_source != (if any_sl { LenSource::MacsecShortLength } else { LenSource::Slice }))
                || (p.link_exts.is_empty() && g.len_source != w.len_source)
        }
        _ => true,
    };
    let ip_want = match &p.net {
        Some(NetSlice::Ipv4(v)) => Some(v.payload().clone()),
        Some(NetSlice::Ipv6(v)) => Some(v.payload().clone()),
        _ => None,
    };
    ep_bad || p.ip_payload().cloned() != ip_want
}

fn lax_payload_helpers_bad(p: &LaxSlicedPacket) -> bool {
    fn same(g: &LaxEtherPayloadSlice, et: EtherType, src: LenSource, inc: bool, pl: &[u8]) -> bool {
        g.ether_type == et && g.len_source == src && g.incomplete == inc && g.payload.as_ptr() == pl.as_ptr() && g.payload.len() == pl.len()
    }
    let got = p.ether_payload();
    let ep_bad = match p.link_exts.last() {
        Some(LaxLinkExtSlice::Vlan(v)) => {
            // limited by whatever limited the last MACsec payload in front (if anything did)
            let mut src = LenSource::Slice;
            for e in p.link_exts.iter() {
                if let LaxLinkExtSlice::Macsec(m) = e {
                    if let LaxMacsecPayloadSlice::Unmodified(x) = &m.payload {
                        if x.len_source != LenSource::Slice {
                            src = x.len_source;
                        }
                    }
                }
            }
            !got.as_ref().map(|g| same(g, v.ether_type(), src, false, v.payload_slice())).unwrap_or(false)
        }
        Some(LaxLinkExtSlice::Macsec(m)) => match &m.payload {
            LaxMacsecPayloadSlice::Unmodified(x) => got.as_ref() != Some(x),
            LaxMacsecPayloadSlice::Modified { .. } => got.is_some(),
        },
        None => match p.link.as_ref().map(|l| l.ether_payload()) {
            None | Some(None) => got.is_some(),
            Some(Some(w)) => !got.as_ref().map(|g| same(g, w.ether_type, LenSource::Slice, false, w.payload)).unwrap_or(false),
        },
    };
    let ip_want = match &p.net {
        Some(LaxNetSlice::Ipv4(v)) => Some(v.payload().clone()),
        Some(LaxNetSlice::Ipv6(v)) => Some(v.payload().clone()),
        _ => None,
    };
    ep_bad || p.ip_payload().cloned() != ip_want
}

fn helper_mismatch_sliced(p: &SlicedPacket) -> bool {
    let vlans: Vec<&SingleVlanSlice> = p.link_exts.iter().filter_map(|e| if let LinkExtSlice::Vlan(v) = e { Some(v) } else { None }).collect();
    helper_mismatch_sliced_inner(p)
        || strict_payload_helpers_bad(p)
        || vlan_helper_bad(&p.vlan(), &vlans)
        || p.link.as_ref().map(link_slice_helpers_bad).unwrap_or(false)
        || p.link_exts.iter().any(link_ext_helpers_bad)
        || p.net.as_ref().map(net_slice_helpers_bad).unwrap_or(false)
}

fn sliced(base: &[u8], p: &SlicedPacket) -> String {
    // formatting must not panic either
    let _ = format!("{:?}", p);
    format!(
        "ok(link={};exts=[{}];net={};tp={};stop=none){}",
        link_slice(base, &p.link),
        p.link_exts.iter().map(|e| ext_slice(base, e)).collect::<Vec<_>>().join(","),
        net_slice(base, &p.net),
        tp_slice(base, &p.transport),
        if helper_mismatch_sliced(p) { "!accessor-mismatch" } else { "" }
    )
}

fn lax_sliced(base: &[u8], p: &LaxSlicedPacket) -> String {
    let _ = format!("{:?}", p);
    let ids: Vec<u16> = p
        .link_exts
        .iter()
        .filter_map(|e| match e {
            LaxLinkExtSlice::Vlan(v) => Some(v.vlan_identifier().value()),
            _ => None,
        })
        .collect();
    let got: Vec<u16> = p.vlan_ids().iter().map(|v| v.value()).collect();
    let vl = match p.vlan() {
        None => 0,
        Some(VlanSlice::SingleVlan(_)) => 1,
        Some(VlanSlice::DoubleVlan(_)) => 2,
    };
    let vlans: Vec<&SingleVlanSlice> = p.link_exts.iter().filter_map(|e| if let LaxLinkExtSlice::Vlan(v) = e { Some(v) } else { None }).collect();
    let mism = ids != got
        || vl != ids.len().min(2)
        || vlan_helper_bad(&p.vlan(), &vlans)
        || lax_payload_helpers_bad(p)
        || p.link.as_ref().map(link_slice_helpers_bad).unwrap_or(false)
        || p.link_exts.iter().any(lax_link_ext_helpers_bad)
        || p.net.as_ref().map(lax_net_slice_helpers_bad).unwrap_or(false);
    format!(
        "ok(link={};exts=[{}];net={};tp={};stop={}){}",
        link_slice(base, &p.link),
        p.link_exts.iter().map(|e| lax_ext_slice(base, e)).collect::<Vec<_>>().join(","),
        lax_net_slice(base, &p.net),
        tp_slice(base, &p.transport),
        stop(&p.stop_err),
        if mism { "!accessor-mismatch" } else { "" }
    )
}

// ---------------------------------------------------------------------------------------------
// struct family

// ---------------------------------------------------------------------------------------------
// the enum wrappers around the header structs

fn wlen<F: FnOnce(&mut Vec<u8>) -> bool>(f: F) -> Option<usize> {
    let mut v = Vec::new();
    if f(&mut v) {
        Some(v.len())
    } else {
        None
    }
}

fn link_header_helpers_bad(l: &LinkHeader) -> bool {
    let mut m = l.clone();
    let mut m2 = l.clone();
    let (is_eth, len) = match l {
        LinkHeader::Ethernet2(_) => (true, 14),
        LinkHeader::LinuxSll(_) => (false, 16),
    };
    l.clone().ethernet2().is_some() != is_eth
        || l.clone().linux_sll().is_some() == is_eth
        || l.clone().ethernet2().map(|h| LinkHeader::Ethernet2(h) != *l).unwrap_or(false)
        || l.clone().linux_sll().map(|h| LinkHeader::LinuxSll(h) != *l).unwrap_or(false)
        || m.mut_ethernet2().map(|h| LinkHeader::Ethernet2(h.clone()) != *l).unwrap_or(is_eth)
        || m2.mut_linux_sll().map(|h| LinkHeader::LinuxSll(h.clone()) != *l).unwrap_or(!is_eth)
        || l.header_len() != len
        || wlen(|v| l.write(v).is_ok()) != Some(len)
}

fn link_ext_header_helpers_bad(e: &LinkExtHeader) -> bool {
    match e {
        LinkExtHeader::Vlan(v) => e.header_len() != 4 || v.header_len() != 4 || VlanHeader::Single(v.clone()).next_header() != v.ether_type,
        LinkExtHeader::Macsec(m) => {
            e.header_len() != m.header_len()
                || m.header_len() != m.to_bytes().len()
                || m.next_ether_type() != (if let MacsecPType::Unmodified(et) = m.ptype { Some(et) } else { None })
                || m.encrypted() != matches!(m.ptype, MacsecPType::Encrypted | MacsecPType::EncryptedUnmodified)
                || m.userdata_changed() != matches!(m.ptype, MacsecPType::Encrypted | MacsecPType::Modified)
        }
    }
}

fn ip_headers_helpers_bad(h: &IpHeaders) -> bool {
    let (v4, len, frag) = match h {
        IpHeaders::Ipv4(i, e) => (true, i.header_len() + e.auth.as_ref().map(|a| a.header_len()).unwrap_or(0), i.more_fragments || i.fragment_offset.value() != 0),
        IpHeaders::Ipv6(_, e) => (
            false,
            40 + e.hop_by_hop_options.as_ref().map(|x| x.header_len()).unwrap_or(0)
                + e.destination_options.as_ref().map(|x| x.header_len()).unwrap_or(0)
                + e.routing.as_ref().map(|r| r.routing.header_len() + r.final_destination_options.as_ref().map(|x| x.header_len()).unwrap_or(0)).unwrap_or(0)
                + e.fragment.as_ref().map(|_| 8).unwrap_or(0)
                + e.auth.as_ref().map(|a| a.header_len()).unwrap_or(0),
            e.fragment.as_ref().map(|f| f.more_fragments || f.fragment_offset.value() != 0).unwrap_or(false),
        ),
    };
    let exts_bad = match h {
        IpHeaders::Ipv4(i, e) => {
            e.is_empty() != e.auth.is_none()
                || e.header_len() != e.auth.as_ref().map(|a| a.header_len()).unwrap_or(0)
                || i.options() != &i.options[..]
                || i.header_len() != 20 + i.options.len()
                || usize::from(i.ihl()) * 4 != i.header_len()
                || i.payload_len().ok() != i.total_len.checked_sub(i.header_len() as u16)
                || i.is_fragmenting_payload() != frag
        }
        IpHeaders::Ipv6(i, e) => {
            e.is_empty() != (e.hop_by_hop_options.is_none() && e.destination_options.is_none() && e.routing.is_none() && e.fragment.is_none() && e.auth.is_none())
                || e.header_len() != len - 40
                || e.is_fragmenting_payload() != frag
                || i.header_len() != 40
                || i.source_addr().octets() != i.source
                || i.destination_addr().octets() != i.destination
        }
    };
    // a decoded chain is written back in the order it was read only when it is in the canonical order;
    // where the write succeeds its length is the announced one
    let w = wlen(|v| h.write(v).is_ok());
    h.ipv4().is_some() != v4
        || h.ipv6().is_some() == v4
        || h.ipv4().map(|(a, b)| IpHeaders::Ipv4(a.clone(), b.clone()) != *h).unwrap_or(false)
        || h.ipv6().map(|(a, b)| IpHeaders::Ipv6(a.clone(), b.clone()) != *h).unwrap_or(false)
        || h.header_len() != len
        || w.map(|n| n != len).unwrap_or(false)
        || h.is_fragmenting_payload() != frag
        || exts_bad
}

fn net_headers_helpers_bad(n: &NetHeaders) -> bool {
    let (v4, v6, arp) = match n {
        NetHeaders::Ipv4(_, _) => (true, false, false),
        NetHeaders::Ipv6(_, _) => (false, true, false),
        NetHeaders::Arp(_) => (false, false, true),
    };
    let sub = match n {
        NetHeaders::Ipv4(h, e) => {
            let ip = IpHeaders::Ipv4(h.clone(), e.clone());
            ip_headers_helpers_bad(&ip) || n.header_len() != ip.header_len() || NetHeaders::from(ip) != *n
        }
        NetHeaders::Ipv6(h, e) => {
            let ip = IpHeaders::Ipv6(h.clone(), e.clone());
            ip_headers_helpers_bad(&ip) || n.header_len() != ip.header_len() || NetHeaders::from(ip) != *n
        }
        NetHeaders::Arp(a) => n.header_len() != a.packet_len() || a.packet_len() != a.to_bytes().len() || NetHeaders::from(a.clone()) != *n,
    };
    n.is_ip() != (v4 || v6)
        || n.is_ipv4() != v4
        || n.is_ipv6() != v6
        || n.is_arp() != arp
        || n.ipv4_ref().is_some() != v4
        || n.ipv6_ref().is_some() != v6
        || n.arp_ref().is_some() != arp
        || n.ipv4_ref().map(|(a, b)| NetHeaders::Ipv4(a.clone(), b.clone()) != *n).unwrap_or(false)
        || n.ipv6_ref().map(|(a, b)| NetHeaders::Ipv6(a.clone(), b.clone()) != *n).unwrap_or(false)
        || n.arp_ref().map(|a| NetHeaders::Arp(a.clone()) != *n).unwrap_or(false)
        || sub
}

fn tp_header_helpers_bad(t: &TransportHeader) -> bool {
    let k = match t {
        TransportHeader::Udp(_) => 0,
        TransportHeader::Tcp(_) => 1,
        TransportHeader::Icmpv4(_) => 2,
        TransportHeader::Icmpv6(_) => 3,
    };
    let (mut a, mut b, mut c, mut d) = (t.clone(), t.clone(), t.clone(), t.clone());
    let len = match t {
        TransportHeader::Udp(u) => u.to_bytes().len(),
        TransportHeader::Tcp(x) => x.to_bytes().len(),
        TransportHeader::Icmpv4(i) => i.to_bytes().len(),
        TransportHeader::Icmpv6(i) => i.to_bytes().len(),
    };
    t.clone().udp().is_some() != (k == 0)
        || t.clone().tcp().is_some() != (k == 1)
        || t.clone().icmpv4().is_some() != (k == 2)
        || t.clone().icmpv6().is_some() != (k == 3)
        || t.clone().udp().map(|h| TransportHeader::Udp(h) != *t).unwrap_or(false)
        || t.clone().tcp().map(|h| TransportHeader::Tcp(h) != *t).unwrap_or(false)
        || t.clone().icmpv4().map(|h| TransportHeader::Icmpv4(h) != *t).unwrap_or(false)
        || t.clone().icmpv6().map(|h| TransportHeader::Icmpv6(h) != *t).unwrap_or(false)
        || a.mut_udp().map(|h| TransportHeader::Udp(h.clone()) != *t).unwrap_or(k == 0)
        || b.mut_tcp().map(|h| TransportHeader::Tcp(h.clone()) != *t).unwrap_or(k == 1)
        || c.mut_icmpv4().map(|h| TransportHeader::Icmpv4(h.clone()) != *t).unwrap_or(k == 2)
        || d.mut_icmpv6().map(|h| TransportHeader::Icmpv6(h.clone()) != *t).unwrap_or(k == 3)
        || t.header_len() != len
        || wlen(|v| t.write(v).is_ok()) != Some(len)
        || match t {
            TransportHeader::Icmpv6(i) => i.header_len() != i.icmp_type.header_len() || i.icmp_type.to_header(core::net::Ipv6Addr::UNSPECIFIED.octets(), core::net::Ipv6Addr::UNSPECIFIED.octets(), &[]).map(|h| h.icmp_type != i.icmp_type).unwrap_or(false),
            _ => false,
        }
}

fn h_link(l: &Option<LinkHeader>) -> String {
    match l {
        None => "none".to_string(),
        Some(LinkHeader::Ethernet2(h)) => format!("eth2({}){}", eth2_fields(h.destination, h.source, h.ether_type), mark(link_header_helpers_bad(l.as_ref().unwrap()))),
        Some(LinkHeader::LinuxSll(h)) => format!("sll({}){}", sll_fields(h), mark(link_header_helpers_bad(l.as_ref().unwrap()))),
    }
}

fn h_ext(e: &LinkExtHeader) -> String {
    match e {
        LinkExtHeader::Vlan(v) => format!("vlan({}){}", vlan_fields(v), mark(link_ext_header_helpers_bad(e))),
        LinkExtHeader::Macsec(m) => format!("macsec({}){}", macsec_fields(m), mark(link_ext_header_helpers_bad(e))),
    }
}

fn h_raw(h: &Option<Ipv6RawExtHeader>) -> String {
    match h {
        None => "none".to_string(),
        Some(h) => format!("raw(nh={},pl={})", h.next_header.0, to_hex(h.payload())),
    }
}

fn h_auth(h: &Option<IpAuthHeader>) -> String {
    match h {
        None => "none".to_string(),
        Some(a) => format!("ah(nh={},spi={},seq={},icv={})", a.next_header.0, a.spi, a.sequence_number, to_hex(a.raw_icv())),
    }
}

fn h_ipv6_exts(e: &Ipv6Extensions) -> String {
    let (routing, fdest) = match &e.routing {
        None => (None, None),
        Some(r) => (Some(r.routing.clone()), r.final_destination_options.clone()),
    };
    format!(
        "hbh={},dest={},routing={},fdest={},frag={},auth={}",
        h_raw(&e.hop_by_hop_options),
        h_raw(&e.destination_options),
        h_raw(&routing),
        h_raw(&fdest),
        match &e.fragment {
            None => "none".to_string(),
            Some(f) => format!("frag({})", frag_fields(f.next_header, f.fragment_offset, f.more_fragments, f.identification)),
        },
        h_auth(&e.auth)
    )
}

fn h_ip(h: &IpHeaders) -> String {
    let m = mark(ip_headers_helpers_bad(h));
    match h {
        IpHeaders::Ipv4(h, e) => format!("ipv4({},opts={},auth={}){}", ipv4_fields(h), to_hex(&h.options[..]), h_auth(&e.auth), m),
        IpHeaders::Ipv6(h, e) => format!("ipv6({},{}){}", ipv6_fields(h), h_ipv6_exts(e), m),
    }
}

fn h_arp(a: &ArpPacket) -> String {
    format!(
        "arp({},sha={},spa={},tha={},tpa={})",
        arp_fields(a.hw_addr_type, a.proto_addr_type, a.hw_addr_size(), a.protocol_addr_size(), a.operation),
        to_hex(a.sender_hw_addr()),
        to_hex(a.sender_protocol_addr()),
        to_hex(a.target_hw_addr()),
        to_hex(a.target_protocol_addr())
    )
}

fn h_net(n: &Option<NetHeaders>) -> String {
    if n.as_ref().map(net_headers_helpers_bad).unwrap_or(false) {
        return "!accessor-mismatch(net_headers)".to_string();
    }
    match n {
        None => "none".to_string(),
        Some(NetHeaders::Ipv4(h, e)) => h_ip(&IpHeaders::Ipv4(h.clone(), e.clone())),
        Some(NetHeaders::Ipv6(h, e)) => h_ip(&IpHeaders::Ipv6(h.clone(), e.clone())),
        Some(NetHeaders::Arp(a)) => h_arp(a),
    }
}

fn h_tp(t: &Option<TransportHeader>) -> String {
    if t.as_ref().map(tp_header_helpers_bad).unwrap_or(false) {
        return "!accessor-mismatch(transport_header)".to_string();
    }
    match t {
        None => "none".to_string(),
        Some(TransportHeader::Udp(u)) => format!("udp({})", udp_fields(u.source_port, u.destination_port, u.length, u.checksum)),
        Some(TransportHeader::Tcp(t)) => format!("tcp({},opts={})", tcp_hdr_fields(t), to_hex(t.options.as_slice())),
        Some(TransportHeader::Icmpv4(i)) => {
            let b = i.to_bytes();
            format!("icmp4(type={},code={},ck={},hl={})", b[0], b[1], i.checksum, i.header_len())
        }
        Some(TransportHeader::Icmpv6(i)) => format!("icmp6(type={},code={},ck={})", i.icmp_type.type_u8(), i.icmp_type.code_u8(), i.checksum),
    }
}

fn pay(base: &[u8], p: &PayloadSlice) -> String {
    match p {
        PayloadSlice::Empty => "Empty".to_string(),
        PayloadSlice::Ether(e) => format!("Ether(et={},src={},w={},inc=0)", e.ether_type.0, src(e.len_source), win(base, e.payload)),
        PayloadSlice::MacsecMod(m) => format!("MacsecMod(w={},inc=0)", win(base, m)),
        PayloadSlice::Ip(i) => format!("Ip{}", ip_pl(i.ip_number, i.fragmented, i.len_source, base, i.payload, false)),
        PayloadSlice::Udp(u) => format!("Udp(w={},inc=0)", win(base, u)),
        PayloadSlice::Tcp(u) => format!("Tcp(w={},inc=0)", win(base, u)),
        PayloadSlice::Icmpv4(u) => format!("Icmpv4(w={},inc=0)", win(base, u)),
        PayloadSlice::Icmpv6(u) => format!("Icmpv6(w={},inc=0)", win(base, u)),
    }
}

fn lax_pay(base: &[u8], p: &LaxPayloadSlice) -> String {
    match p {
        LaxPayloadSlice::Empty => "Empty".to_string(),
        LaxPayloadSlice::Ether(e) => format!("Ether(et={},src={},w={},inc={})", e.ether_type.0, src(e.len_source), win(base, e.payload), b01(e.incomplete)),
        LaxPayloadSlice::MacsecModified { payload, incomplete } => format!("MacsecMod(w={},inc={})", win(base, payload), b01(*incomplete)),
        LaxPayloadSlice::Ip(i) => format!("Ip{}", ip_pl(i.ip_number, i.fragmented, i.len_source, base, i.payload, i.incomplete)),
        LaxPayloadSlice::Udp { payload, incomplete } => format!("Udp(w={},inc={})", win(base, payload), b01(*incomplete)),
        LaxPayloadSlice::Tcp { payload, incomplete } => format!("Tcp(w={},inc={})", win(base, payload), b01(*incomplete)),
        LaxPayloadSlice::Icmpv4 { payload, incomplete } => format!("Icmpv4(w={},inc={})", win(base, payload), b01(*incomplete)),
        LaxPayloadSlice::Icmpv6 { payload, incomplete } => format!("Icmpv6(w={},inc={})", win(base, payload), b01(*incomplete)),
        LaxPayloadSlice::LinuxSll(s) => format!("LinuxSll(proto={},w={})", sll_proto(s.protocol_type), win(base, s.payload)),
    }
}

fn vlan_helpers_mismatch(exts: &[LinkExtHeader], got: Vec<u16>, vl: Option<VlanHeader>) -> bool {
    let ids: Vec<u16> = exts
        .iter()
        .filter_map(|e| match e {
            LinkExtHeader::Vlan(v) => Some(v.vlan_id.value()),
            _ => None,
        })
        .collect();
    let n = match vl {
        None => 0,
        Some(VlanHeader::Single(_)) => 1,
        Some(VlanHeader::Double(_)) => 2,
    };
    ids != got || n != ids.len().min(2)
}

fn headers(base: &[u8], p: &PacketHeaders) -> String {
    let _ = format!("{:?}", p);
    let mism = vlan_helpers_mismatch(&p.link_exts, p.vlan_ids().iter().map(|v| v.value()).collect(), p.vlan());
    format!(
        "ok(link={};exts=[{}];net={};tp={};pay={};stop=none){}",
        h_link(&p.link),
        p.link_exts.iter().map(h_ext).collect::<Vec<_>>().join(","),
        h_net(&p.net),
        h_tp(&p.transport),
        pay(base, &p.payload),
        if mism { "!accessor-mismatch" } else { "" }
    )
}

fn lax_headers(base: &[u8], p: &LaxPacketHeaders) -> String {
    let _ = format!("{:?}", p);
    let mism = vlan_helpers_mismatch(&p.link_exts, p.vlan_ids().iter().map(|v| v.value()).collect(), p.vlan());
    format!(
        "ok(link={};exts=[{}];net={};tp={};pay={};stop={}){}",
        h_link(&p.link),
        p.link_exts.iter().map(h_ext).collect::<Vec<_>>().join(","),
        h_net(&p.net),
        h_tp(&p.transport),
        lax_pay(base, &p.payload),
        stop(&p.stop_err),
        if mism { "!accessor-mismatch" } else { "" }
    )
}

// ---------------------------------------------------------------------------------------------
// conversions slice -> header structs (the C04 oracle: computed on the implementation only)

fn sliced_to_headers(base: &[u8], p: &SlicedPacket) -> String {
    let link = match &p.link {
        Some(l) => l.to_header(),
        None => None,
    };
    let exts: Vec<String> = p.link_exts.iter().map(|e| h_ext(&e.to_header())).collect();
    let net = match &p.net {
        None => "none".to_string(),
        Some(NetSlice::Arp(a)) => h_arp(&a.to_packet()),
        Some(NetSlice::Ipv4(s)) => h_ip(&IpSlice::Ipv4(s.clone()).to_header()),
        Some(NetSlice::Ipv6(s)) => h_ip(&IpSlice::Ipv6(s.clone()).to_header()),
    };
    let tp = match &p.transport {
        None => None,
        Some(TransportSlice::Udp(u)) => Some(TransportHeader::Udp(u.to_header())),
        Some(TransportSlice::Tcp(t)) => Some(TransportHeader::Tcp(t.to_header())),
        Some(TransportSlice::Icmpv4(i)) => Some(TransportHeader::Icmpv4(i.header())),
        Some(TransportSlice::Icmpv6(i)) => Some(TransportHeader::Icmpv6(i.header())),
    };
    // remaining payload
    let payload = match &p.transport {
        Some(TransportSlice::Udp(u)) => format!("Udp(w={},inc=0)", win(base, u.payload())),
        Some(TransportSlice::Tcp(t)) => format!("Tcp(w={},inc=0)", win(base, t.payload())),
        Some(TransportSlice::Icmpv4(i)) => format!("Icmpv4(w={},inc=0)", win(base, i.payload())),
        Some(TransportSlice::Icmpv6(i)) => format!("Icmpv6(w={},inc=0)", win(base, i.payload())),
        None => match &p.net {
            Some(NetSlice::Arp(_)) => "Empty".to_string(),
            Some(_) => {
                let i = p.ip_payload().unwrap();
                format!("Ip{}", ip_pl(i.ip_number, i.fragmented, i.len_source, base, i.payload, false))
            }
            None => match p.ether_payload() {
                Some(e) => format!("Ether(et={},src={},w={},inc=0)", e.ether_type.0, src(e.len_source), win(base, e.payload)),
                None => match p.link_exts.last() {
                    Some(LinkExtSlice::Macsec(m)) => match &m.payload {
                        MacsecPayloadSlice::Modified(x) => format!("MacsecMod(w={},inc=0)", win(base, x)),
                        _ => "?".to_string(),
                    },
                    _ => "NoEtherPayload".to_string(),
                },
            },
        },
    };
    format!(
        "ok(link={};exts=[{}];net={};tp={};pay={};stop=none)",
        h_link(&link),
        exts.join(","),
        net,
        h_tp(&tp),
        payload
    )
}

fn lax_sliced_to_headers(base: &[u8], p: &LaxSlicedPacket) -> String {
    let link = match &p.link {
        Some(l) => l.to_header(),
        None => None,
    };
    let exts: Vec<String> = p.link_exts.iter().map(|e| h_ext(&e.to_header())).collect();
    let net = match &p.net {
        None => "none".to_string(),
        Some(LaxNetSlice::Arp(a)) => h_arp(&a.to_packet()),
        Some(LaxNetSlice::Ipv4(s)) => h_ip(&IpHeaders::Ipv4(s.header().to_header(), s.extensions().to_header())),
        Some(LaxNetSlice::Ipv6(s)) => {
            let (e, _, _, _) = Ipv6Extensions::from_slice_lax(s.header().next_header(), s.extensions().slice());
            h_ip(&IpHeaders::Ipv6(s.header().to_header(), e))
        }
    };
    let tp = match &p.transport {
        None => None,
        Some(TransportSlice::Udp(u)) => Some(TransportHeader::Udp(u.to_header())),
        Some(TransportSlice::Tcp(t)) => Some(TransportHeader::Tcp(t.to_header())),
        Some(TransportSlice::Icmpv4(i)) => Some(TransportHeader::Icmpv4(i.header())),
        Some(TransportSlice::Icmpv6(i)) => Some(TransportHeader::Icmpv6(i.header())),
    };
    let ipinc = match &p.net {
        Some(LaxNetSlice::Ipv4(s)) => s.payload().incomplete,
        Some(LaxNetSlice::Ipv6(s)) => s.payload().incomplete,
        _ => false,
    };
    let payload = match &p.transport {
        Some(TransportSlice::Udp(u)) => format!("Udp(w={},inc={})", win(base, u.payload()), b01(ipinc)),
        Some(TransportSlice::Tcp(t)) => format!("Tcp(w={},inc={})", win(base, t.payload()), b01(ipinc)),
        Some(TransportSlice::Icmpv4(i)) => format!("Icmpv4(w={},inc={})", win(base, i.payload()), b01(ipinc)),
        Some(TransportSlice::Icmpv6(i)) => format!("Icmpv6(w={},inc={})", win(base, i.payload()), b01(ipinc)),
        None => match &p.net {
            Some(LaxNetSlice::Arp(_)) => "ArpNoPayload".to_string(),
            Some(_) => {
                let i = p.ip_payload().unwrap();
                format!("Ip{}", ip_pl(i.ip_number, i.fragmented, i.len_source, base, i.payload, i.incomplete))
            }
            None => match p.ether_payload() {
                Some(e) => format!("Ether(et={},src={},w={},inc={})", e.ether_type.0, src(e.len_source), win(base, e.payload), b01(e.incomplete)),
                None => match p.link_exts.last() {
                    Some(LaxLinkExtSlice::Macsec(m)) => match &m.payload {
                        LaxMacsecPayloadSlice::Modified { incomplete, payload } => format!("MacsecMod(w={},inc={})", win(base, payload), b01(*incomplete)),
                        _ => "?".to_string(),
                    },
                    _ => "NoEtherPayload".to_string(),
                },
            },
        },
    };
    format!(
        "ok(link={};exts=[{}];net={};tp={};pay={};stop={})",
        h_link(&link),
        exts.join(","),
        net,
        h_tp(&tp),
        payload,
        stop(&p.stop_err)
    )
}

// ---------------------------------------------------------------------------------------------
// IP boundary implementations

/// every accessor of an `IpHeadersSlice` that may describe an incomplete chain: each returns (C02)
fn ip_headers_slice_touch(h: &IpHeadersSlice) {
    let _ = (h.payload_ip_number(), h.next_header(), h.version(), h.header_len(), h.is_ipv4(), h.is_ipv6());
    let _ = (h.source_addr(), h.destination_addr(), h.slice().len());
    let _ = h.try_to_header().map(|x| x.header_len());
    let _ = format!("{:?}", h);
}

fn ip_slice_str(base: &[u8], s: &IpSlice) -> String {
    // `IpSlice::header()` (IpHeadersSlice) summarises the same layer: its conversions and numbers have to
    // be the ones of the slice it came from
    let hs = s.header();
    let mut which: Vec<&str> = Vec::new();
    if format!("{:?}", hs.try_to_header().ok()) != format!("{:?}", Some(s.to_header())) {
        which.push("try_to_header");
    }
    // IpHeadersSlice::payload_ip_number walks the IPv6 chain in struct mode (Ipv6Extensions::from_slice_lax),
    // i.e. it stops at an extension header that no longer fits the struct - the limitation documented for
    // `try_to_header`; it is compared where the chain fits
    let fits = match s {
        IpSlice::Ipv4(_) => true,
        IpSlice::Ipv6(v) => Ipv6Extensions::from_slice(v.header().next_header(), v.extensions().slice())
            .map(|(e, _, rest)| rest.is_empty() && e.header_len() == v.extensions().slice().len())
            .unwrap_or(false),
    };
    // (asked in every case: it has to return for every chain; compared only where the chain fits)
    let hs_num = hs.payload_ip_number();
    if fits && hs_num != s.payload_ip_number() {
        which.push("payload_ip_number");
    }
    // the summary type built from parts (public `From` conversions): header alone - the chain is then missing
    // altogether - every accessor still has to answer
    match s {
        IpSlice::Ipv4(x) => ip_headers_slice_touch(&IpHeadersSlice::from(x.header())),
        IpSlice::Ipv6(x) => ip_headers_slice_touch(&IpHeadersSlice::from(x.header())),
    }
    if hs.is_ipv4() != matches!(s, IpSlice::Ipv4(_)) || hs.is_ipv6() != matches!(s, IpSlice::Ipv6(_)) {
        which.push("is_ipvx");
    }
    if hs.version() != (if matches!(s, IpSlice::Ipv4(_)) { 4 } else { 6 }) {
        which.push("version");
    }
    if hs.source_addr() != s.source_addr() || hs.destination_addr() != s.destination_addr() {
        which.push("addr");
    }
    if hs.ipv4().is_some() != hs.is_ipv4()
        || hs.ipv6().is_some() != hs.is_ipv6()
        || hs.ipv4_exts().is_some() != hs.is_ipv4()
        || hs.ipv6_exts().is_some() != hs.is_ipv6()
    {
        which.push("variant_accessors");
    }
    if hs.header_len() != (s.payload().payload.as_ptr() as usize) - (hs.slice().as_ptr() as usize) {
        which.push("header_len");
    }
    if ip_slice_helpers_bad(s) {
        which.push("ip_slice_helpers");
    }
    if hs.next_header() != (match s { IpSlice::Ipv4(x) => x.header().protocol(), IpSlice::Ipv6(x) => x.header().next_header() }) {
        which.push("next_header");
    }
    let from_bad = match s {
        IpSlice::Ipv4(x) => IpHeadersSlice::from((x.header(), x.extensions())) != hs || IpHeadersSlice::from(x.header()) != IpHeadersSlice::Ipv4(x.header(), Default::default()) || IpSlice::from(x.clone()) != *s,
        IpSlice::Ipv6(x) => IpHeadersSlice::from((x.header(), x.extensions().clone())) != hs || IpHeadersSlice::from(x.header()) != IpHeadersSlice::Ipv6(x.header(), Default::default()) || IpSlice::from(x.clone()) != *s,
    };
    if from_bad {
        which.push("from");
    }
    let mism = !which.is_empty();
    let main = match s {
        IpSlice::Ipv4(s) => net_slice(base, &Some(NetSlice::Ipv4(s.clone()))),
        IpSlice::Ipv6(s) => net_slice(base, &Some(NetSlice::Ipv6(s.clone()))),
    };
    if mism {
        format!("{}!accessor-mismatch(ip_headers_slice:{})", main, which.join(","))
    } else {
        main
    }
}

fn ip_slice_err(e: &err::ip::SliceError) -> String {
    crate::util::touch(e);
    use err::ip::{HeadersError as H, SliceError as S};
    match e {
        S::Len(l) => len_err(l),
        S::IpHeaders(H::Ip(e)) => ip_err(e),
        S::IpHeaders(H::Ipv4Ext(e)) => auth_err_v4(e),
        S::IpHeaders(H::Ipv6Ext(e)) => ipv6_exts_err(e),
    }
}

fn ipv4_slice_err(e: &err::ipv4::SliceError) -> String {
    crate::util::touch(e);
    use err::ipv4::SliceError as S;
    match e {
        S::Len(l) => len_err(l),
        S::Header(e) => ipv4_err(e),
        S::Exts(e) => auth_err_v4(e),
    }
}

fn ipv6_slice_err(e: &err::ipv6::SliceError) -> String {
    crate::util::touch(e);
    use err::ipv6::SliceError as S;
    match e {
        S::Len(l) => len_err(l),
        S::Header(e) => ipv6_err(e),
        S::Exts(e) => ipv6_exts_err(e),
    }
}

fn lax_hdr_err(e: &err::ip::LaxHeaderSliceError) -> String {
    crate::util::touch(e);
    use err::ip::LaxHeaderSliceError as S;
    match e {
        S::Len(l) => len_err(l),
        S::Content(e) => ip_err(e),
    }
}

fn ipv6_exts_stop(s: &Option<(err::ipv6_exts::HeaderSliceError, Layer)>, v4: bool) -> String {
    use err::ipv6_exts::HeaderSliceError as S;
    match s {
        None => "none".to_string(),
        Some((S::Len(l), ly)) => format!("({},{})", len_err(l), layer(*ly)),
        Some((S::Content(c), ly)) => format!(
            "({},{})",
            match c {
                err::ipv6_exts::HeaderError::IpAuth(a) if v4 => auth_err_v4(a),
                c => ipv6_exts_err(c),
            },
            layer(*ly)
        ),
    }
}

fn auth_stop(s: &Option<err::ip_auth::HeaderSliceError>) -> String {
    use err::ip_auth::HeaderSliceError as S;
    match s {
        None => "none".to_string(),
        Some(S::Len(l)) => format!("({},IpAuthHeader)", len_err(l)),
        Some(S::Content(c)) => format!("({},IpAuthHeader)", auth_err_v4(c)),
    }
}

fn ip_exts_stop(s: &Option<(err::ip_exts::HeadersSliceError, Layer)>) -> String {
    use err::ip_exts::{HeaderError as H, HeadersSliceError as S};
    match s {
        None => "none".to_string(),
        Some((S::Len(l), ly)) => format!("({},{})", len_err(l), layer(*ly)),
        Some((S::Content(H::Ipv4Ext(a)), ly)) => format!("({},{})", auth_err_v4(a), layer(*ly)),
        Some((S::Content(H::Ipv6Ext(c)), ly)) => format!("({},{})", ipv6_exts_err(c), layer(*ly)),
    }
}

fn exts_slice_out(
    base: &[u8],
    e: &Ipv6ExtensionsSlice,
    next: IpNumber,
    rest: &[u8],
    stop_s: String,
) -> String {
    format!(
        "ok(s={},first={},iter={};next={};frag={};rest={};stop={})",
        win(base, e.slice()),
        match e.first_header() {
            None => "none".to_string(),
            Some(n) => n.0.to_string(),
        },
        ext_iter(base, e),
        next.0,
        b01(e.is_fragmenting_payload()),
        win(base, rest),
        stop_s
    )
}

fn exts_struct_out(base: &[u8], e: &Ipv6Extensions, next: IpNumber, rest: &[u8], stop_s: String) -> String {
    format!(
        "ok({};next={};frag={};rest={};stop={})",
        h_ipv6_exts(e),
        next.0,
        b01(e.is_fragmenting_payload()),
        win(base, rest),
        stop_s
    )
}

pub fn run(op: &str, a: &[&str]) -> Option<String> {
    let (data, et) = match a {
        [h] => (hex(h)?, None),
        [n, h] => (hex(h)?, Some(num::<u16>(n)?)),
        _ => return None,
    };
    // every decoding door runs on two guard-page placements of the input (C01)
    if op.starts_with("impl.dec.read") {
        return crate::guard::both_placements(&data, |b| crate::rd::run_on(op, et, b));
    }
    crate::guard::both_placements(&data, |b| run_on(op, et, b))
}

fn run_on(op: &str, et: Option<u16>, b: &[u8]) -> Option<String> {
    Some(match (op, et) {
        ("dec.sp_eth", None) => match SlicedPacket::from_ethernet(b) {
            Ok(p) => sliced(b, &p),
            Err(e) => format!("err({})", perr(&e)),
        },
        ("dec.sp_sll", None) => match SlicedPacket::from_linux_sll(b) {
            Ok(p) => sliced(b, &p),
            Err(e) => format!("err({})", perr(&e)),
        },
        ("dec.sp_et", Some(et)) => match SlicedPacket::from_ether_type(EtherType(et), b) {
            Ok(p) => sliced(b, &p),
            Err(e) => format!("err({})", perr(&e)),
        },
        ("dec.sp_ip", None) => match SlicedPacket::from_ip(b) {
            Ok(p) => sliced(b, &p),
            Err(e) => format!("err({})", perr(&e)),
        },
        ("dec.lsp_eth", None) => match LaxSlicedPacket::from_ethernet(b) {
            Ok(p) => lax_sliced(b, &p),
            Err(e) => format!("err({})", len_err(&e)),
        },
        ("dec.lsp_et", Some(et)) => lax_sliced(b, &LaxSlicedPacket::from_ether_type(EtherType(et), b)),
        ("dec.lsp_ip", None) => match LaxSlicedPacket::from_ip(b) {
            Ok(p) => lax_sliced(b, &p),
            Err(e) => format!("err({})", lax_hdr_err(&e)),
        },
        ("dec.ph_eth", None) => match PacketHeaders::from_ethernet_slice(b) {
            Ok(p) => headers(b, &p),
            Err(e) => format!("err({})", perr(&e)),
        },
        ("dec.ph_et", Some(et)) => match PacketHeaders::from_ether_type(EtherType(et), b) {
            Ok(p) => headers(b, &p),
            Err(e) => format!("err({})", perr(&e)),
        },
        ("dec.ph_ip", None) => match PacketHeaders::from_ip_slice(b) {
            Ok(p) => headers(b, &p),
            Err(e) => format!("err({})", perr(&e)),
        },
        ("dec.lph_eth", None) => match LaxPacketHeaders::from_ethernet(b) {
            Ok(p) => lax_headers(b, &p),
            Err(e) => format!("err({})", len_err(&e)),
        },
        ("dec.lph_sll", None) => match LaxPacketHeaders::from_linux_sll(b) {
            Ok(p) => lax_headers(b, &p),
            Err(e) => format!(
                "err({})",
                match &e {
                    err::linux_sll::HeaderSliceError::Len(l) => len_err(l),
                    err::linux_sll::HeaderSliceError::Content(c) => sll_err(c),
                }
            ),
        },
        ("dec.lph_et", Some(et)) => lax_headers(b, &LaxPacketHeaders::from_ether_type(EtherType(et), b)),
        ("dec.lph_ip", None) => match LaxPacketHeaders::from_ip(b) {
            Ok(p) => lax_headers(b, &p),
            Err(e) => format!("err({})", lax_hdr_err(&e)),
        },
        // implementation-only conversions for the C04 oracle
        ("impl.dec.sp2ph_eth", None) => match SlicedPacket::from_ethernet(b) {
            Ok(p) => sliced_to_headers(b, &p),
            Err(e) => format!("err({})", perr(&e)),
        },
        ("impl.dec.sp2ph_et", Some(et)) => match SlicedPacket::from_ether_type(EtherType(et), b) {
            Ok(p) => sliced_to_headers(b, &p),
            Err(e) => format!("err({})", perr(&e)),
        },
        ("impl.dec.sp2ph_ip", None) => match SlicedPacket::from_ip(b) {
            Ok(p) => sliced_to_headers(b, &p),
            Err(e) => format!("err({})", perr(&e)),
        },
        ("impl.dec.lsp2lph_eth", None) => match LaxSlicedPacket::from_ethernet(b) {
            Ok(p) => lax_sliced_to_headers(b, &p),
            Err(e) => format!("err({})", len_err(&e)),
        },
        ("impl.dec.lsp2lph_et", Some(et)) => lax_sliced_to_headers(b, &LaxSlicedPacket::from_ether_type(EtherType(et), b)),
        ("impl.dec.lsp2lph_ip", None) => match LaxSlicedPacket::from_ip(b) {
            Ok(p) => lax_sliced_to_headers(b, &p),
            Err(e) => format!("err({})", lax_hdr_err(&e)),
        },
        // IP boundary implementations
        ("dec.ip_slice", None) => match IpSlice::from_slice(b) {
            Ok(s) => {
                let _ = s.to_header();
                let _ = format!("{:?}", s);
                format!("ok(ip={};stop=none)", ip_slice_str(b, &s))
            }
            Err(e) => format!("err({})", ip_slice_err(&e)),
        },
        ("dec.ipv4_slice", None) => match Ipv4Slice::from_slice(b) {
            Ok(s) => format!("ok(ip={};stop=none)", net_slice(b, &Some(NetSlice::Ipv4(s)))),
            Err(e) => format!("err({})", ipv4_slice_err(&e)),
        },
        ("dec.ipv6_slice", None) => match Ipv6Slice::from_slice(b) {
            Ok(s) => format!("ok(ip={};stop=none)", net_slice(b, &Some(NetSlice::Ipv6(s)))),
            Err(e) => format!("err({})", ipv6_slice_err(&e)),
        },
        ("dec.ipv6_slice_lax", None) => match Ipv6Slice::from_slice_lax(b) {
            Ok(s) => format!("ok(ip={};stop=none)", net_slice(b, &Some(NetSlice::Ipv6(s)))),
            Err(e) => format!("err({})", ipv6_slice_err(&e)),
        },
        ("dec.lax_ip_slice", None) => match LaxIpSlice::from_slice(b) {
            Ok((s, st)) => {
                let _ = format!("{:?}", s);
                match &s {
                    LaxIpSlice::Ipv4(x) => ip_headers_slice_touch(&IpHeadersSlice::from((x.header(), x.extensions()))),
                    LaxIpSlice::Ipv6(x) => ip_headers_slice_touch(&IpHeadersSlice::from((x.header(), x.extensions().clone()))),
                }
                let bad = lax_ip_slice_helpers_bad(&s);
                let (n, v4) = match s {
                    LaxIpSlice::Ipv4(s) => (LaxNetSlice::Ipv4(s), true),
                    LaxIpSlice::Ipv6(s) => (LaxNetSlice::Ipv6(s), false),
                };
                let bad = bad || lax_net_slice_helpers_bad(&n);
                format!("ok(ip={};stop={}){}", lax_net_slice(b, &Some(n)), ipv6_exts_stop(&st, v4), mark(bad))
            }
            Err(e) => format!("err({})", lax_hdr_err(&e)),
        },
        ("dec.lax_ipv4_slice", None) => match LaxIpv4Slice::from_slice(b) {
            Ok((s, st)) => format!("ok(ip={};stop={})", lax_net_slice(b, &Some(LaxNetSlice::Ipv4(s))), auth_stop(&st)),
            Err(e) => format!(
                "err({})",
                match &e {
                    err::ipv4::HeaderSliceError::Len(l) => len_err(l),
                    err::ipv4::HeaderSliceError::Content(c) => ipv4_err(c),
                }
            ),
        },
        ("dec.lax_ipv6_slice", None) => match LaxIpv6Slice::from_slice(b) {
            Ok((s, st)) => format!("ok(ip={};stop={})", lax_net_slice(b, &Some(LaxNetSlice::Ipv6(s))), ipv6_exts_stop(&st, false)),
            Err(e) => format!(
                "err({})",
                match &e {
                    err::ipv6::HeaderSliceError::Len(l) => len_err(l),
                    err::ipv6::HeaderSliceError::Content(c) => ipv6_err(c),
                }
            ),
        },
        ("dec.iph", None) => match IpHeaders::from_slice(b) {
            Ok((h, p)) => format!("ok(ip={};pl={};stop=none)", h_ip(&h), ip_pl(p.ip_number, p.fragmented, p.len_source, b, p.payload, false)),
            Err(e) => format!(
                "err({})",
                match &e {
                    err::ip::HeadersSliceError::Len(l) => len_err(l),
                    err::ip::HeadersSliceError::Content(err::ip::HeadersError::Ip(e)) => ip_err(e),
                    err::ip::HeadersSliceError::Content(err::ip::HeadersError::Ipv4Ext(e)) => auth_err_v4(e),
                    err::ip::HeadersSliceError::Content(err::ip::HeadersError::Ipv6Ext(e)) => ipv6_exts_err(e),
                }
            ),
        },
        ("dec.iph_lax", None) => match IpHeaders::from_slice_lax(b) {
            Ok((h, p, st)) => format!("ok(ip={};pl={};stop={})", h_ip(&h), ip_pl(p.ip_number, p.fragmented, p.len_source, b, p.payload, p.incomplete), ip_exts_stop(&st)),
            Err(e) => format!("err({})", lax_hdr_err(&e)),
        },
        ("dec.iph_v4", None) => match IpHeaders::from_ipv4_slice(b) {
            Ok((h, p)) => format!("ok(ip={};pl={};stop=none)", h_ip(&h), ip_pl(p.ip_number, p.fragmented, p.len_source, b, p.payload, false)),
            Err(e) => format!("err({})", ipv4_slice_err(&e)),
        },
        ("dec.iph_v4_lax", None) => match IpHeaders::from_ipv4_slice_lax(b) {
            Ok((h, p, st)) => format!("ok(ip={};pl={};stop={})", h_ip(&h), ip_pl(p.ip_number, p.fragmented, p.len_source, b, p.payload, p.incomplete), auth_stop(&st)),
            Err(e) => format!("err({})", lax_hdr_err(&e)),
        },
        ("dec.iph_v6", None) => match IpHeaders::from_ipv6_slice(b) {
            Ok((h, p)) => format!("ok(ip={};pl={};stop=none)", h_ip(&h), ip_pl(p.ip_number, p.fragmented, p.len_source, b, p.payload, false)),
            Err(e) => format!("err({})", ipv6_slice_err(&e)),
        },
        ("dec.iph_v6_lax", None) => match IpHeaders::from_ipv6_slice_lax(b) {
            Ok((h, p, st)) => format!("ok(ip={};pl={};stop={})", h_ip(&h), ip_pl(p.ip_number, p.fragmented, p.len_source, b, p.payload, p.incomplete), ipv6_exts_stop(&st, false)),
            Err(e) => format!(
                "err({})",
                match &e {
                    err::ipv6::HeaderSliceError::Len(l) => len_err(l),
                    err::ipv6::HeaderSliceError::Content(c) => ipv6_err(c),
                }
            ),
        },
        // extension chains
        ("dec.exts", Some(nh)) => match Ipv6ExtensionsSlice::from_slice(IpNumber(nh as u8), b) {
            Ok((e, next, rest)) => exts_slice_out(b, &e, next, rest, "none".to_string()),
            Err(e) => format!(
                "err({})",
                match &e {
                    err::ipv6_exts::HeaderSliceError::Len(l) => len_err(l),
                    err::ipv6_exts::HeaderSliceError::Content(c) => ipv6_exts_err(c),
                }
            ),
        },
        ("dec.exts_lax", Some(nh)) => {
            let (e, next, rest, st) = Ipv6ExtensionsSlice::from_slice_lax(IpNumber(nh as u8), b);
            exts_slice_out(b, &e, next, rest, ipv6_exts_stop(&st, false))
        }
        ("dec.exts_struct", Some(nh)) => match Ipv6Extensions::from_slice(IpNumber(nh as u8), b) {
            Ok((e, next, rest)) => exts_struct_out(b, &e, next, rest, "none".to_string()),
            Err(e) => format!(
                "err({})",
                match &e {
                    err::ipv6_exts::HeaderSliceError::Len(l) => len_err(l),
                    err::ipv6_exts::HeaderSliceError::Content(c) => ipv6_exts_err(c),
                }
            ),
        },
        ("dec.exts_struct_lax", Some(nh)) => {
            let (e, next, rest, st) = Ipv6Extensions::from_slice_lax(IpNumber(nh as u8), b);
            exts_struct_out(b, &e, next, rest, ipv6_exts_stop(&st, false))
        }
        // single layers
        ("dec.eth2", None) => match Ethernet2Slice::from_slice_without_fcs(b) {
            Ok(s) => format!("ok({};fcs={})", link_slice(b, &Some(LinkSlice::Ethernet2(s.clone()))), match s.fcs() { None => "none".to_string(), Some(f) => to_hex(&f) }),
            Err(e) => format!("err({})", len_err(&e)),
        },
        ("dec.eth2_fcs", None) => match Ethernet2Slice::from_slice_with_crc32_fcs(b) {
            Ok(s) => format!("ok({};fcs={})", link_slice(b, &Some(LinkSlice::Ethernet2(s.clone()))), match s.fcs() { None => "none".to_string(), Some(f) => to_hex(&f) }),
            Err(e) => format!("err({})", len_err(&e)),
        },
        ("dec.sll", None) => match LinuxSllSlice::from_slice(b) {
            Ok(s) => format!("ok({})", link_slice(b, &Some(LinkSlice::LinuxSll(s)))),
            Err(e) => format!(
                "err({})",
                match &e {
                    err::linux_sll::HeaderSliceError::Len(l) => len_err(l),
                    err::linux_sll::HeaderSliceError::Content(c) => sll_err(c),
                }
            ),
        },
        ("dec.vlan", None) => match SingleVlanSlice::from_slice(b) {
            Ok(s) => format!("ok({})", vlan_slice(b, &s)),
            Err(e) => format!("err({})", len_err(&e)),
        },
        ("dec.macsec", None) => match MacsecSlice::from_slice(b) {
            Ok(s) => format!("ok({})", ext_slice(b, &LinkExtSlice::Macsec(s))),
            Err(e) => format!(
                "err({})",
                match &e {
                    err::macsec::HeaderSliceError::Len(l) => len_err(l),
                    err::macsec::HeaderSliceError::Content(c) => macsec_err(c),
                }
            ),
        },
        ("dec.lax_macsec", None) => match LaxMacsecSlice::from_slice(b) {
            Ok(s) => format!("ok({})", lax_ext_slice(b, &LaxLinkExtSlice::Macsec(s))),
            Err(e) => format!(
                "err({})",
                match &e {
                    err::macsec::HeaderSliceError::Len(l) => len_err(l),
                    err::macsec::HeaderSliceError::Content(c) => macsec_err(c),
                }
            ),
        },
        ("dec.arp", None) => match ArpPacketSlice::from_slice(b) {
            Ok(s) => format!("ok({})", arp_slice_str(b, &s)),
            Err(e) => format!("err({})", len_err(&e)),
        },
        ("dec.udp", None) => match UdpSlice::from_slice(b) {
            Ok(s) => format!("ok({})", udp_slice_str(b, &s)),
            Err(e) => format!("err({})", len_err(&e)),
        },
        ("dec.udp_lax", None) => match UdpSlice::from_slice_lax(b) {
            Ok(s) => format!("ok({})", udp_slice_str(b, &s)),
            Err(e) => format!("err({})", len_err(&e)),
        },
        ("dec.tcp", None) => match TcpSlice::from_slice(b) {
            Ok(s) => format!("ok({})", tcp_slice_str(b, &s)),
            Err(e) => format!(
                "err({})",
                match &e {
                    err::tcp::HeaderSliceError::Len(l) => len_err(l),
                    err::tcp::HeaderSliceError::Content(c) => tcp_err(c),
                }
            ),
        },
        ("dec.icmp4", None) => match Icmpv4Slice::from_slice(b) {
            Ok(s) => format!("ok({})", icmp4_slice_str(b, &s)),
            Err(e) => format!("err({})", len_err(&e)),
        },
        ("dec.icmp6", None) => match Icmpv6Slice::from_slice(b) {
            Ok(s) => format!("ok({})", icmp6_slice_str(b, &s)),
            Err(e) => format!("err({})", len_err(&e)),
        },
        _ => return None,
    })
}
