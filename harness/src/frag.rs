//! `frag.*` operations: etherparse::defrag (IpDefragBuf, IpDefragPool) driven by whole histories.
//! See lean/EpModel/Driver/Frag.lean for the line format.
#![allow(unused_imports, dead_code)]
use crate::util::*;
use etherparse::defrag::{IpDefragBuf, IpDefragError, IpDefragPayloadVec, IpDefragPool};
use etherparse::{IpFragOffset, IpNumber, SlicedPacket};
use std::collections::VecDeque;

fn show_err(e: &IpDefragError) -> String {
    crate::util::touch(e);
    use IpDefragError::*;
    match e {
        UnalignedFragmentPayloadLen {
            offset,
            payload_len,
        } => format!(
            "err(UnalignedFragmentPayloadLen(offset={},payload_len={}))",
            offset.value(),
            payload_len
        ),
        SegmentTooBig {
            offset,
            payload_len,
            max,
        } => format!(
            "err(SegmentTooBig(offset={},payload_len={},max={}))",
            offset.value(),
            payload_len,
            max
        ),
        ConflictingEnd {
            previous_end,
            conflicting_end,
        } => format!(
            "err(ConflictingEnd(previous_end={},conflicting_end={}))",
            previous_end, conflicting_end
        ),
        AllocationFailure { len } => format!("err(AllocationFailure(len={}))", len),
    }
}

fn arg_bool(s: &str) -> Option<bool> {
    match s {
        "1" => Some(true),
        "0" => Some(false),
        _ => None,
    }
}

// ---------------------------------------------------------------------------------------------
// frag.buf

fn run_buf(proto: &str, stale: &str, adds: &str) -> Option<String> {
    let proto: u8 = num(proto)?;
    // a recycled vector: `new` clears it, the capacity keeps the old bytes
    let stale = hex(stale)?;
    let mut parsed = Vec::new();
    if adds != "-" {
        for a in adds.split(';') {
            let f: Vec<&str> = a.split(':').collect();
            if f.len() != 3 {
                return None;
            }
            let fo: u16 = num(f[0])?;
            let fo = IpFragOffset::try_new(fo).ok()?;
            parsed.push((fo, arg_bool(f[1])?, hex(f[2])?));
        }
    }
    let mut buf = IpDefragBuf::new(IpNumber(proto), stale, Vec::new());
    let mut outs = Vec::new();
    for (fo, mf, p) in parsed.iter() {
        match buf.add(*fo, *mf, p) {
            Ok(()) => outs.push("ok".to_string()),
            Err(e) => outs.push(show_err(&e)),
        }
    }
    // only bytes inside sections are read (everything else may be uninitialised memory)
    let secs: Vec<String> = buf
        .sections()
        .iter()
        .map(|s| {
            format!(
                "({},{}):{}",
                s.start,
                s.end,
                to_hex(&buf.data()[usize::from(s.start)..usize::from(s.end)])
            )
        })
        .collect();
    Some(format!(
        "{}|proto={},len={},sections=[{}],end={},complete={}",
        outs.join(";"),
        buf.ip_number().0,
        buf.data().len(),
        secs.join(","),
        match buf.end() {
            None => "none".to_string(),
            Some(e) => format!("some({})", e),
        },
        buf.is_complete()
    ))
}

// ---------------------------------------------------------------------------------------------
// frag.pool

const EXT_HEADER_NUMBERS: [u8; 8] = [0, 43, 44, 51, 60, 135, 139, 140];
const TRANSPORT_NUMBERS: [u8; 5] = [1, 2, 6, 17, 58];

#[derive(Clone)]
struct Key {
    ver: u8,
    src: Vec<u8>,
    dst: Vec<u8>,
    ident: u32,
    proto: u8,
    vlans: Vec<u16>,
    chan: u32,
}

fn parse_key(s: &str) -> Option<Key> {
    let f: Vec<&str> = s.split(',').collect();
    if f.len() != 7 {
        return None;
    }
    let ver: u8 = num(f[0])?;
    if ver != 4 && ver != 6 {
        return None;
    }
    let src = hex(f[1])?;
    let dst = hex(f[2])?;
    let alen = if ver == 4 { 4 } else { 16 };
    if src.len() != alen || dst.len() != alen {
        return None;
    }
    let ident: u32 = num(f[3])?;
    if ver == 4 && ident > 0xffff {
        return None;
    }
    let proto: u8 = num(f[4])?;
    if EXT_HEADER_NUMBERS.contains(&proto) {
        return None;
    }
    let mut vlans = Vec::new();
    if f[5] != "-" {
        for v in f[5].split('+') {
            let v: u16 = num(v)?;
            if v >= 4096 {
                return None;
            }
            vlans.push(v);
        }
        if vlans.len() > 3 {
            return None;
        }
    }
    let chan: u32 = num(f[6])?;
    Some(Key {
        ver,
        src,
        dst,
        ident,
        proto,
        vlans,
        chan,
    })
}

enum Item {
    /// packet bytes, starts at ethernet?, timestamp, channel
    Packet(Vec<u8>, bool, u64, u32),
    Ret,
    Retain(u64),
}

/// ip packet: `frag` = Some((fragment offset, more fragments)) → IPv4 flags / IPv6 fragment header
fn ip_packet(k: &Key, frag: Option<(u16, bool)>, payload: &[u8]) -> Vec<u8> {
    ip_packet_rsv(k, frag, payload, 0)
}

/// `rsv`: reserved bits to set - bit 0: IPv4 reserved flag / IPv6 fragment header bit 1, bit 1: IPv6
/// fragment header bit 2, bit 2: the reserved octet of the IPv6 fragment header
fn ip_packet_rsv(k: &Key, frag: Option<(u16, bool)>, payload: &[u8], rsv: u8) -> Vec<u8> {
    let mut p = Vec::new();
    if k.ver == 4 {
        let total = 20 + payload.len();
        let (fo, mf) = frag.unwrap_or((0, false));
        let ff: u16 = (if mf { 0x2000 } else { 0 }) | fo | (if rsv & 1 != 0 { 0x8000 } else { 0 });
        p.extend_from_slice(&[0x45, 0]);
        p.extend_from_slice(&(total as u16).to_be_bytes());
        p.extend_from_slice(&(k.ident as u16).to_be_bytes());
        p.extend_from_slice(&ff.to_be_bytes());
        p.extend_from_slice(&[64, k.proto, 0, 0]);
        p.extend_from_slice(&k.src);
        p.extend_from_slice(&k.dst);
    } else {
        let plen = payload.len() + if frag.is_some() { 8 } else { 0 };
        p.extend_from_slice(&[0x60, 0, 0, 0]);
        p.extend_from_slice(&(plen as u16).to_be_bytes());
        p.extend_from_slice(&[if frag.is_some() { 44 } else { k.proto }, 64]);
        p.extend_from_slice(&k.src);
        p.extend_from_slice(&k.dst);
        if let Some((fo, mf)) = frag {
            let ff: u16 = (fo << 3) | (if mf { 1 } else { 0 }) | (u16::from(rsv & 3) << 1);
            p.extend_from_slice(&[k.proto, if rsv & 4 != 0 { 0xff } else { 0 }]);
            p.extend_from_slice(&ff.to_be_bytes());
            p.extend_from_slice(&k.ident.to_be_bytes());
        }
    }
    p.extend_from_slice(payload);
    p
}

/// wraps the ip packet into Ethernet II + VLAN tags; packets without VLAN tags on odd channels are
/// handed over without link layer (SlicedPacket::from_ip)
fn frame(k: &Key, ip: Vec<u8>) -> (Vec<u8>, bool) {
    if k.vlans.is_empty() && k.chan % 2 == 1 {
        return (ip, false);
    }
    let ip_et: u16 = if k.ver == 4 { 0x0800 } else { 0x86dd };
    let mut p = vec![2, 0, 0, 0, 0, 1, 2, 0, 0, 0, 0, 2];
    for v in k.vlans.iter() {
        p.extend_from_slice(&0x8100u16.to_be_bytes());
        p.extend_from_slice(&v.to_be_bytes());
    }
    p.extend_from_slice(&ip_et.to_be_bytes());
    p.extend_from_slice(&ip);
    (p, true)
}

fn parse_item(s: &str) -> Option<Item> {
    let f: Vec<&str> = s.split(':').collect();
    match f.as_slice() {
        ["d", key, ts, fo, mf, h] => {
            let k = parse_key(key)?;
            let ts: u64 = num(ts)?;
            let fo: u16 = num(fo)?;
            let mf = arg_bool(mf)?;
            let b = hex(h)?;
            let max_payload = if k.ver == 4 { 65515 } else { 65527 };
            let fragmenting = mf || fo != 0;
            if fo > 8191
                || b.len() > max_payload
                || (!fragmenting && TRANSPORT_NUMBERS.contains(&k.proto))
            {
                return None;
            }
            let (mut p, eth) = frame(&k, ip_packet(&k, Some((fo, mf)), &b));
            // bytes behind the IP packet (Ethernet padding, a frame check sequence, an oversized read buffer)
            // belong to nobody: every fifth packet carries some
            if ts % 5 == 0 {
                let n = [6usize, 8, 3, 16][(ts / 5 % 4) as usize];
                p.extend(std::iter::repeat(0xeeu8).take(n));
            }
            Some(Item::Packet(p, eth, ts, k.chan))
        }
        ["d", key, ts, fo, mf, h, rsv] => {
            let k = parse_key(key)?;
            let ts: u64 = num(ts)?;
            let fo: u16 = num(fo)?;
            let mf = arg_bool(mf)?;
            let b = hex(h)?;
            let rsv: u8 = num(rsv)?;
            let max_payload = if k.ver == 4 { 65515 } else { 65527 };
            let fragmenting = mf || fo != 0;
            if rsv == 0
                || rsv > 7
                || fo > 8191
                || b.len() > max_payload
                || (!fragmenting && TRANSPORT_NUMBERS.contains(&k.proto))
            {
                return None;
            }
            let (p, eth) = frame(&k, ip_packet_rsv(&k, Some((fo, mf)), &b, rsv));
            Some(Item::Packet(p, eth, ts, k.chan))
        }
        ["u", key, ts, h] => {
            let k = parse_key(key)?;
            let ts: u64 = num(ts)?;
            let b = hex(h)?;
            let max_payload = if k.ver == 4 { 65515 } else { 65535 };
            if b.len() > max_payload || TRANSPORT_NUMBERS.contains(&k.proto) {
                return None;
            }
            let (p, eth) = frame(&k, ip_packet(&k, None, &b));
            Some(Item::Packet(p, eth, ts, k.chan))
        }
        ["n"] => {
            // ARP request in an Ethernet II frame
            let mut p = vec![0xff, 0xff, 0xff, 0xff, 0xff, 0xff, 2, 0, 0, 0, 0, 2, 0x08, 0x06];
            p.extend_from_slice(&[0, 1, 8, 0, 6, 4, 0, 1]);
            p.extend_from_slice(&[2, 0, 0, 0, 0, 2, 10, 0, 0, 1]);
            p.extend_from_slice(&[0, 0, 0, 0, 0, 0, 10, 0, 0, 2]);
            Some(Item::Packet(p, true, 0, 0))
        }
        ["r"] => Some(Item::Ret),
        ["t", m] => Some(Item::Retain(num(m)?)),
        _ => None,
    }
}

/// element strings of the list that starts at the beginning of `s` (`[a, b, …]`), split at depth 1
fn top_elements(s: &str) -> Option<Vec<String>> {
    let mut depth = 0usize;
    let mut cur = String::new();
    let mut out = Vec::new();
    for c in s.chars() {
        match c {
            '[' | '{' | '(' => {
                depth += 1;
                if depth > 1 {
                    cur.push(c);
                }
            }
            ']' | '}' | ')' => {
                if depth == 0 {
                    return None;
                }
                depth -= 1;
                if depth == 0 {
                    if !cur.trim().is_empty() {
                        out.push(cur.trim().to_string());
                    }
                    return Some(out);
                }
                cur.push(c);
            }
            ',' if depth == 1 => {
                out.push(cur.trim().to_string());
                cur = String::new();
            }
            _ => {
                if depth == 0 {
                    return None;
                }
                cur.push(c);
            }
        }
    }
    None
}

/// the pool has no accessors for its private fields: the counts are read off the derived Debug text
fn pool_counts(pool: &IpDefragPool<u64, u32>) -> Option<String> {
    let d = format!("{:?}", pool);
    let a = d.find("active: ")?;
    let fd = d.find(", finished_data_bufs: ")?;
    let fs = d.find(", finished_section_bufs: ")?;
    let active = top_elements(&d[a + "active: ".len()..fd])?.len();
    let dl = top_elements(&d[fd + ", finished_data_bufs: ".len()..fs])?.len();
    let sl = top_elements(&d[fs + ", finished_section_bufs: ".len()..])?.len();
    Some(format!("active={},fdata={},fsec={}", active, dl, sl))
}

fn active_count(pool: &IpDefragPool<u64, u32>) -> Option<usize> {
    let d = format!("{:?}", pool);
    let a = d.find("active: ")?;
    let fd = d.find(", finished_data_bufs: ")?;
    Some(top_elements(&d[a + "active: ".len()..fd])?.len())
}

fn run_pool(history: &str) -> Option<String> {
    let mut items = Vec::new();
    for s in history.split(';') {
        items.push(parse_item(s)?);
    }
    let mut pool = IpDefragPool::<u64, u32>::new();
    let mut outstanding: VecDeque<IpDefragPayloadVec> = VecDeque::new();
    let mut outs = Vec::new();
    for it in items.iter() {
        match it {
            Item::Packet(bytes, eth, ts, chan) => {
                let sliced = if *eth {
                    SlicedPacket::from_ethernet(bytes)
                } else {
                    SlicedPacket::from_ip(bytes)
                };
                let sliced = match sliced {
                    Ok(s) => s,
                    Err(e) => {
                        outs.push(format!("slice-error({:?})", e));
                        continue;
                    }
                };
                match pool.process_sliced_packet(&sliced, *ts, *chan) {
                    Ok(None) => outs.push("none".to_string()),
                    Ok(Some(p)) => {
                        outs.push(format!(
                            "ok({},{:?},{})",
                            p.ip_number.0,
                            p.len_source,
                            to_hex(&p.payload)
                        ));
                        outstanding.push_back(p);
                    }
                    Err(e) => outs.push(show_err(&e)),
                }
            }
            Item::Ret => match outstanding.pop_front() {
                Some(p) => {
                    pool.return_buf(p);
                    outs.push("ret(1)".to_string());
                }
                None => outs.push("ret(0)".to_string()),
            },
            Item::Retain(min_ts) => {
                let m = *min_ts;
                pool.retain(|t| *t >= m);
                outs.push(format!("retained({})", active_count(&pool)?));
            }
        }
    }
    Some(format!("{}|{}", outs.join(";"), pool_counts(&pool)?))
}

pub fn run(op: &str, a: &[&str]) -> Option<String> {
    match (op, a) {
        ("frag.buf", [proto, stale, adds]) => run_buf(proto, stale, adds),
        ("frag.pool", [history]) => run_pool(history),
        _ => None,
    }
}
