//! `opt.*` operations: TCP options (TcpOptions::try_from_elements / try_from_slice,
//! TcpOptionsIterator, TcpHeader::set_options / set_options_raw / options_iterator,
//! TcpHeaderSlice::options_iterator, TcpSlice::options_iterator).
//!
//! Element list grammar (argument of `opt.encode`, also used for printing yielded elements):
//!   `-` (empty list) or a comma separated list of
//!   `nop` | `mss:<u16>` | `ws:<u8>` | `sackp` | `sack:<a>-<b>;<s>;<s>;<s>` (s = `_` or `<a>-<b>`, u32)
//!   | `ts:<u32>:<u32>`
use crate::util::*;
use etherparse::{
    TcpHeader, TcpHeaderSlice, TcpOptionElement, TcpOptionReadError, TcpOptionWriteError,
    TcpOptions, TcpOptionsIterator, TcpSlice,
};

fn parse_pair(s: &str) -> Option<(u32, u32)> {
    let (a, b) = s.split_once('-')?;
    Some((num(a)?, num(b)?))
}

fn parse_slot(s: &str) -> Option<Option<(u32, u32)>> {
    if s == "_" {
        Some(None)
    } else {
        Some(Some(parse_pair(s)?))
    }
}

fn parse_elem(s: &str) -> Option<TcpOptionElement> {
    use TcpOptionElement::*;
    if s == "nop" {
        return Some(Noop);
    }
    if s == "sackp" {
        return Some(SelectiveAcknowledgementPermitted);
    }
    let (k, v) = s.split_once(':')?;
    match k {
        "mss" => Some(MaximumSegmentSize(num(v)?)),
        "ws" => Some(WindowScale(num(v)?)),
        "ts" => {
            let (a, b) = v.split_once(':')?;
            Some(Timestamp(num(a)?, num(b)?))
        }
        "sack" => {
            let f: Vec<&str> = v.split(';').collect();
            if f.len() != 4 {
                return None;
            }
            Some(SelectiveAcknowledgement(
                parse_pair(f[0])?,
                [parse_slot(f[1])?, parse_slot(f[2])?, parse_slot(f[3])?],
            ))
        }
        _ => None,
    }
}

fn parse_elems(s: &str) -> Option<Vec<TcpOptionElement>> {
    if s == "-" {
        return Some(Vec::new());
    }
    s.split(',').map(parse_elem).collect()
}

fn show_slot(s: &Option<(u32, u32)>) -> String {
    match s {
        None => "_".to_string(),
        Some((a, b)) => format!("{}-{}", a, b),
    }
}

fn show_elem(e: &TcpOptionElement) -> String {
    use TcpOptionElement::*;
    match e {
        Noop => "nop".to_string(),
        MaximumSegmentSize(v) => format!("mss:{}", v),
        WindowScale(v) => format!("ws:{}", v),
        SelectiveAcknowledgementPermitted => "sackp".to_string(),
        SelectiveAcknowledgement(f, r) => format!(
            "sack:{}-{};{};{};{}",
            f.0,
            f.1,
            show_slot(&r[0]),
            show_slot(&r[1]),
            show_slot(&r[2])
        ),
        Timestamp(a, b) => format!("ts:{}:{}", a, b),
    }
}

fn show_err(e: &TcpOptionReadError) -> String {
    crate::util::touch(e);
    use TcpOptionReadError::*;
    match e {
        UnexpectedEndOfSlice {
            option_id,
            expected_len,
            actual_len,
        } => format!(
            "err(eos(id={},exp={},act={}))",
            option_id, expected_len, actual_len
        ),
        UnexpectedSize { option_id, size } => format!("err(size(id={},size={}))", option_id, size),
        UnknownId(id) => format!("err(unknown(id={}))", id),
    }
}

fn show_item(i: &Result<TcpOptionElement, TcpOptionReadError>) -> String {
    match i {
        Ok(e) => show_elem(e),
        Err(e) => show_err(e),
    }
}

/// Drives the iterator until `None` (at most len+3 steps), then two more times.
/// `items=[<item>@(off,len),…],stop=(off,len),after=[none,none]`; the windows are `rest()` after
/// the call, relative to `base`.
fn drive(base: &[u8], mut it: TcpOptionsIterator) -> (String, Vec<TcpOptionElement>) {
    let mut items = Vec::new();
    let mut oks = Vec::new();
    let mut steps = 0usize;
    let mut runaway = false;
    loop {
        if steps > base.len() + 3 {
            runaway = true;
            break;
        }
        steps += 1;
        match it.next() {
            None => break,
            Some(i) => {
                items.push(format!("{}@{}", show_item(&i), win(base, it.rest())));
                if let Ok(e) = i {
                    oks.push(e);
                }
            }
        }
    }
    let mut s = format!("items=[{}]", items.join(","));
    if runaway {
        s.push_str(",runaway");
        return (s, oks);
    }
    s.push_str(&format!(",stop={}", win(base, it.rest())));
    let mut after = Vec::new();
    for _ in 0..2 {
        match it.next() {
            None => after.push("none".to_string()),
            Some(i) => after.push(format!("!revived({})@{}", show_item(&i), win(base, it.rest()))),
        }
    }
    s.push_str(&format!(",after=[{}]", after.join(",")));
    (s, oks)
}

/// a reader that hands out at most 3 bytes per call (sockets and chained readers do that)
struct Dribble<'a>(&'a [u8]);
impl<'a> std::io::Read for Dribble<'a> {
    fn read(&mut self, buf: &mut [u8]) -> std::io::Result<usize> {
        let n = buf.len().min(3).min(self.0.len());
        buf[..n].copy_from_slice(&self.0[..n]);
        self.0 = &self.0[n..];
        Ok(n)
    }
}

fn elems_of(it: TcpOptionsIterator) -> String {
    let mut out = Vec::new();
    for (i, x) in it.enumerate() {
        if i > 64 {
            out.push("runaway".to_string());
            break;
        }
        out.push(show_item(&x));
    }
    out.join(",")
}

fn header_doors(area: &[u8]) -> Vec<String> {
    let want = elems_of(TcpOptionsIterator::from_slice(area));
    let mut diffs = Vec::new();
    // reserved bits of byte 12 set, some payload behind the header
    for (rsv, payload) in [(0u8, &b""[..]), (0x0e, &[0xaa, 0xbb, 0xcc, 0xdd, 0xee][..]), (0x08, &[1, 1, 1][..])] {
        let mut h = vec![0u8; 20];
        h[0..4].copy_from_slice(&[0x12, 0x34, 0x56, 0x78]);
        h[12] = ((((20 + area.len()) / 4) as u8) << 4) | rsv;
        h[13] = 0x10;
        h.extend_from_slice(area);
        let hl = h.len();
        let mut all = h.clone();
        all.extend_from_slice(payload);
        let mut chk = |name: &str, got: Option<String>| {
            if got.as_deref() != Some(want.as_str()) {
                diffs.push(format!("{}(rsv={})={}", name, rsv, got.unwrap_or_else(|| "err".to_string())));
            }
        };
        chk("tcp_slice", TcpSlice::from_slice(&all).ok().map(|s| elems_of(s.options_iterator())));
        chk(
            "tcp_slice_payload_len",
            TcpSlice::from_slice(&all).ok().map(|s| {
                if s.payload().len() == payload.len() && s.options().len() == area.len() {
                    want.clone()
                } else {
                    format!("options={},payload={}", s.options().len(), s.payload().len())
                }
            }),
        );
        chk("tcp_header_slice", TcpHeaderSlice::from_slice(&all).ok().map(|s| elems_of(s.options_iterator())));
        chk("tcp_header_from_slice", TcpHeader::from_slice(&all).ok().map(|x| elems_of(x.0.options_iterator())));
        chk("tcp_slice_to_header", TcpSlice::from_slice(&all).ok().map(|s| elems_of(s.to_header().options_iterator())));
        chk(
            "tcp_header_read",
            TcpHeader::read(&mut std::io::Cursor::new(&all[..])).ok().map(|x| elems_of(x.options_iterator())),
        );
        chk("tcp_header_read_chunked", TcpHeader::read(&mut Dribble(&all[..])).ok().map(|x| elems_of(x.options_iterator())));
        let _ = hl;
    }
    diffs
}

fn show_opts(o: &TcpOptions) -> String {
    // every other way of asking the same TcpOptions value for its length / bytes / elements
    let mut copy = o.clone();
    let bad = usize::from(o.len_u8()) != o.len()
        || o.is_empty() != (o.len() == 0)
        || o.as_slice().len() != o.len()
        || copy.as_mut_slice() != o.as_slice()
        || elems_of(o.elements_iter()) != elems_of(TcpOptionsIterator::from_slice(o.as_slice()))
        || AsRef::<[u8]>::as_ref(o) != o.as_slice()
        || &o[..] != o.as_slice();
    format!(
        "ok({},len={},doff={}){}",
        to_hex(o.as_slice()),
        o.len(),
        o.data_offset(),
        if bad { "!accessor-mismatch" } else { "" }
    )
}

fn show_werr(e: &TcpOptionWriteError) -> String {
    crate::util::touch(e);
    match e {
        TcpOptionWriteError::NotEnoughSpace(n) => format!("err(space={})", n),
    }
}

/// everything observable about the options of a header after a successful setter
fn show_header(h: &TcpHeader) -> String {
    let opts = h.options.as_slice().to_vec();
    let (it, _) = drive(h.options.as_slice(), h.options_iterator());
    let bytes = h.to_bytes();
    let sl = match TcpHeaderSlice::from_slice(&bytes) {
        Ok(s) => format!(
            "(opts={},{})",
            to_hex(s.options()),
            drive(s.options(), s.options_iterator()).0
        ),
        Err(e) => format!("(!err {:?})", e),
    };
    let ts = match TcpSlice::from_slice(&bytes) {
        Ok(s) => format!(
            "(opts={},{})",
            to_hex(s.options()),
            drive(s.options(), s.options_iterator()).0
        ),
        Err(e) => format!("(!err {:?})", e),
    };
    let bad = usize::from(h.header_len_u16()) != h.header_len()
        || h.options_len() != h.options.len()
        || h.options() != h.options.as_slice()
        || h.header_len() != 20 + h.options_len()
        || elems_of(h.options.elements_iter()) != elems_of(h.options_iterator());
    format!(
        "ok(opts={},doff={},hlen={},wire={},it=({}),sl={},ts={}){}",
        to_hex(&opts),
        h.data_offset(),
        h.header_len(),
        if bytes.len() >= 20 {
            to_hex(&bytes[20..])
        } else {
            "!short".to_string()
        },
        it,
        sl,
        ts,
        if bad { "!accessor-mismatch" } else { "" }
    )
}

pub fn run(op: &str, a: &[&str]) -> Option<String> {
    Some(match (op, a) {
        ("opt.encode", [e]) => {
            let es = parse_elems(e)?;
            match TcpOptions::try_from_elements(&es) {
                Ok(o) => show_opts(&o),
                Err(e) => show_werr(&e),
            }
        }
        ("opt.raw", [h]) => {
            let b = hex(h)?;
            match TcpOptions::try_from_slice(&b) {
                Ok(o) => {
                    // the other constructors of the same value: TryFrom<&[u8]>, and for the sizes that have one
                    // the array conversions (TcpOptions and, same code, Ipv4Options)
                    let mut bad = TcpOptions::try_from(&b[..]).ok().as_ref() != Some(&o);
                    macro_rules! arrays {
                        ($($n:literal),*) => {
                            $(
                                if b.len() == $n {
                                    let a: [u8; $n] = b[..].try_into().unwrap();
                                    let t = TcpOptions::from(a);
                                    let i = etherparse::Ipv4Options::from(a);
                                    bad = bad || t != o || t.as_slice() != &b[..] || i.as_slice() != &b[..] || i.len() != $n;
                                }
                            )*
                        };
                    }
                    arrays!(4, 8, 12, 16, 20, 24, 28, 32, 36, 40);
                    if b.is_empty() {
                        let i = etherparse::Ipv4Options::from([0u8; 0]);
                        bad = bad || i.len() != 0 || !i.as_slice().is_empty();
                    }
                    if b.is_empty() {
                        bad = bad || TcpOptions::new() != o || TcpOptions::default() != o;
                    }
                    format!("{}{}", show_opts(&o), if bad { "!decoders-differ" } else { "" })
                }
                Err(e) => show_werr(&e),
            }
        }
        ("opt.iter", [h]) => {
            let b = hex(h)?;
            let main = drive(&b, TcpOptionsIterator::from_slice(&b)).0;
            // the same option area inside a TCP header, through every door that hands out an options
            // iterator: the elements have to be the ones of the raw area (and nothing of the payload)
            if b.len() % 4 == 0 && b.len() <= 40 {
                let diffs = header_doors(&b);
                if !diffs.is_empty() {
                    return Some(format!("{}!doors-differ({})", main, diffs.join(";")));
                }
            }
            main
        }
        ("opt.reenc", [h]) => {
            let b = hex(h)?;
            let (_, oks) = drive(&b, TcpOptionsIterator::from_slice(&b));
            let r = match TcpOptions::try_from_elements(&oks) {
                Ok(o) => show_opts(&o),
                Err(e) => show_werr(&e),
            };
            format!("n={},{}", oks.len(), r)
        }
        ("opt.hdr_elems", [e]) => {
            let es = parse_elems(e)?;
            let mut h = TcpHeader::default();
            let main = match h.set_options(&es) {
                Ok(()) => show_header(&h),
                Err(e) => show_werr(&e),
            };
            // the same call on a header that has a history (a long area, a short one, a failed call): the result has
            // to be the one on a fresh header - nothing of what was set before may show
            let mut used = TcpHeader::default();
            let _ = used.set_options_raw(&[0xaa; 40]);
            let _ = used.set_options_raw(&[0xbb; 12]);
            let _ = used.set_options_raw(&[0xcc; 44]);
            let again = match used.set_options(&es) {
                Ok(()) => show_header(&used),
                Err(e) => show_werr(&e),
            };
            if again != main || (main.starts_with("ok(") && used != h) {
                format!("{}!routes-differ(on_used_header={})", main, again)
            } else {
                main
            }
        }
        ("opt.hdr_raw", [x]) => {
            let b = hex(x)?;
            let mut h = TcpHeader::default();
            let main = match h.set_options_raw(&b) {
                Ok(()) => show_header(&h),
                Err(e) => show_werr(&e),
            };
            let mut used = TcpHeader::default();
            let _ = used.set_options_raw(&[0xaa; 40]);
            let _ = used.set_options_raw(&[0xbb; 12]);
            let _ = used.set_options_raw(&[0xcc; 44]);
            let again = match used.set_options_raw(&b) {
                Ok(()) => show_header(&used),
                Err(e) => show_werr(&e),
            };
            // and through the element setter in between
            let mut used2 = TcpHeader::default();
            let _ = used2.set_options(&[TcpOptionElement::Timestamp(0xdddddddd, 0xeeeeeeee), TcpOptionElement::Timestamp(0xdddddddd, 0xeeeeeeee), TcpOptionElement::Timestamp(0xdddddddd, 0xeeeeeeee)]);
            let _ = used2.set_options(&[TcpOptionElement::Noop]);
            let again2 = match used2.set_options_raw(&b) {
                Ok(()) => show_header(&used2),
                Err(e) => show_werr(&e),
            };
            if again != main || again2 != main || (main.starts_with("ok(") && (used != h || used2 != h)) {
                format!("{}!routes-differ(on_used_header={};{})", main, again, again2)
            } else {
                main
            }
        }
        _ => return None,
    })
}
