//! `set.*` and `impl.set.*` operations (C14): every constructor / setter / checksum entry point of
//! the crate that takes a caller supplied length and stores it into a narrower wire field.
//!
//! Header states are passed as the serialised header (hex, decoded with the crate's own
//! `from_slice`; nothing may be left over); payloads / option areas / addresses are described by
//! `len a b` = the byte string `i -> (a + i*b) mod 256`, `i < len`.  Result lines:
//!   constructors    ok(<to_bytes hex>) | err(..)
//!   `&mut` setters  <ok | err(..)>;hdr=<to_bytes of the header after the call>
//!   checksums       ok(<u16>) | err(..)
//! `impl.set.*big` operations use a zero filled (calloc) buffer of the given length so that the
//! 32 bit limits can be observed on the implementation (never through the Lean driver).
#![allow(unused_imports, dead_code, deprecated)]
use crate::util::*;
use etherparse::err::ValueTooBigError;
use etherparse::*;

fn pat(l: &str, a: &str, b: &str) -> Option<Vec<u8>> {
    let l: usize = num(l)?;
    let a: u8 = num(a)?;
    let b: u8 = num(b)?;
    if l > 1048576 {
        return None;
    }
    Some((0..l).map(|i| (a as usize).wrapping_add(i.wrapping_mul(b as usize)) as u8).collect())
}

fn too_big<T: core::fmt::Display + core::fmt::Debug + Clone + Eq + core::hash::Hash>(
    e: &ValueTooBigError<T>,
) -> String {
    format!(
        "err(actual={},max={},vt={:?})",
        e.actual, e.max_allowed, e.value_type
    )
}

fn res<T: core::fmt::Display + core::fmt::Debug + Clone + Eq + core::hash::Hash>(
    r: &Result<(), ValueTooBigError<T>>,
) -> String {
    match r {
        Ok(()) => "ok".to_string(),
        Err(e) => too_big(e),
    }
}

fn ck(r: &Result<u16, ValueTooBigError<usize>>) -> String {
    match r {
        Ok(v) => format!("ok({})", v),
        Err(e) => too_big(e),
    }
}

/// TcpSlice (the modelled route) against the TcpHeaderSlice copies of the same computation: the same
/// checksum when accepted; when rejected, the header-slice copies report the payload length against
/// `limit - header_len` (TcpSlice reports the whole slice against the limit)
fn tcp_routes(
    slice: &Result<u16, ValueTooBigError<usize>>,
    hslice: &[Result<u16, ValueTooBigError<usize>>],
    payload_len: usize,
    true_max: usize,
) -> String {
    for h in hslice {
        let same = match (slice, h) {
            (Ok(a), Ok(b)) => a == b,
            (Err(_), Err(e)) => e.actual == payload_len && e.max_allowed == true_max,
            _ => false,
        };
        if !same {
            return format!("routes-differ(slice={},hslice={})", ck(slice), ck(h));
        }
    }
    ck(slice)
}

fn arr<const N: usize>(s: &str) -> Option<[u8; N]> {
    hex(s)?.try_into().ok()
}

fn ipv4_of(s: &str) -> Option<Ipv4Header> {
    let b = hex(s)?;
    match Ipv4Header::from_slice(&b) {
        Ok((h, rest)) if rest.is_empty() => Some(h),
        _ => None,
    }
}

fn ipv6_of(s: &str) -> Option<Ipv6Header> {
    let b = hex(s)?;
    match Ipv6Header::from_slice(&b) {
        Ok((h, rest)) if rest.is_empty() => Some(h),
        _ => None,
    }
}

fn auth_of(s: &str) -> Option<IpAuthHeader> {
    let b = hex(s)?;
    match IpAuthHeader::from_slice(&b) {
        Ok((h, rest)) if rest.is_empty() => Some(h),
        _ => None,
    }
}

fn rawext_of(s: &str) -> Option<Ipv6RawExtHeader> {
    let b = hex(s)?;
    match Ipv6RawExtHeader::from_slice(&b) {
        Ok((h, rest)) if rest.is_empty() => Some(h),
        _ => None,
    }
}

fn frag_of(s: &str) -> Option<Ipv6FragmentHeader> {
    let b = hex(s)?;
    match Ipv6FragmentHeader::from_slice(&b) {
        Ok((h, rest)) if rest.is_empty() => Some(h),
        _ => None,
    }
}

fn udp_of(s: &str) -> Option<UdpHeader> {
    let b = hex(s)?;
    match UdpHeader::from_slice(&b) {
        Ok((h, rest)) if rest.is_empty() => Some(h),
        _ => None,
    }
}

fn tcp_of(s: &str) -> Option<TcpHeader> {
    let b = hex(s)?;
    match TcpHeader::from_slice(&b) {
        Ok((h, rest)) if rest.is_empty() => Some(h),
        _ => None,
    }
}

fn icmp6_of(s: &str) -> Option<Icmpv6Header> {
    let b = hex(s)?;
    match Icmpv6Header::from_slice(&b) {
        Ok((h, rest)) if rest.is_empty() => Some(h),
        _ => None,
    }
}

fn macsec_of(s: &str) -> Option<MacsecHeader> {
    let b = hex(s)?;
    match MacsecHeader::from_slice(&b) {
        Ok(h) if h.header_len() == b.len() => Some(h),
        _ => None,
    }
}

fn arp_of(s: &str) -> Option<ArpPacket> {
    let b = hex(s)?;
    match ArpPacket::from_slice(&b) {
        Ok(h) if h.packet_len() == b.len() => Some(h),
        _ => None,
    }
}

fn opt_of<T>(f: fn(&str) -> Option<T>, s: &str) -> Option<Option<T>> {
    if s == "-" {
        Some(None)
    } else {
        f(s).map(Some)
    }
}

fn icv_err(e: &err::ip_auth::IcvLenError) -> String {
    crate::util::touch(e);
    use err::ip_auth::IcvLenError::*;
    match e {
        TooBig(n) => format!("err(TooBig({}))", n),
        Unaligned(n) => format!("err(Unaligned({}))", n),
    }
}

fn ext_err(e: &err::ipv6_exts::ExtPayloadLenError) -> String {
    crate::util::touch(e);
    use err::ipv6_exts::ExtPayloadLenError::*;
    match e {
        TooSmall(n) => format!("err(TooSmall({}))", n),
        TooBig(n) => format!("err(TooBig({}))", n),
        Unaligned(n) => format!("err(Unaligned({}))", n),
    }
}

fn arp_hw_err(e: &err::arp::ArpHwAddrError) -> String {
    crate::util::touch(e);
    use err::arp::ArpHwAddrError::*;
    match e {
        LenTooBig(n) => format!("err(HwAddr(LenTooBig({})))", n),
        LenNonMatching(a, b) => format!("err(HwAddr(LenNonMatching({},{})))", a, b),
    }
}

fn arp_proto_err(e: &err::arp::ArpProtoAddrError) -> String {
    crate::util::touch(e);
    use err::arp::ArpProtoAddrError::*;
    match e {
        LenTooBig(n) => format!("err(ProtoAddr(LenTooBig({})))", n),
        LenNonMatching(a, b) => format!("err(ProtoAddr(LenNonMatching({},{})))", a, b),
    }
}

fn tcp_opt_err(e: &TcpOptionWriteError) -> String {
    crate::util::touch(e);
    match e {
        TcpOptionWriteError::NotEnoughSpace(n) => format!("err(NotEnoughSpace({}))", n),
    }
}

fn opt_usize(v: Option<usize>) -> String {
    match v {
        None => "none".to_string(),
        Some(x) => format!("some({})", x),
    }
}

/// a zero filled buffer of `len` bytes that is never written (calloc: untouched pages)
fn zero_buf(len: usize) -> Option<Vec<u8>> {
    if len > (1usize << 33) {
        return None;
    }
    Some(vec![0u8; len])
}

pub fn run(op: &str, a: &[&str]) -> Option<String> {
    Some(match (op, a) {
        // ---------------------------------------------------------------- IPv4
        ("set.ipv4.new", [n, ttl, proto, src, dst]) => {
            let n: u16 = num(n)?;
            let ttl: u8 = num(ttl)?;
            let proto: u8 = num(proto)?;
            match Ipv4Header::new(n, ttl, IpNumber(proto), arr::<4>(src)?, arr::<4>(dst)?) {
                Ok(h) => format!("ok({})", to_hex(&h.to_bytes())),
                Err(e) => too_big(&e),
            }
        }
        ("set.ipv4.set_payload_len", [hdr, n]) => {
            let mut h = ipv4_of(hdr)?;
            let n: usize = num(n)?;
            let max = h.max_payload_len();
            let r = h.set_payload_len(n);
            format!("{};max={};hdr={}", res(&r), max, to_hex(&h.to_bytes()))
        }
        ("set.ipv4.set_options", [hdr, l, x, y]) => {
            let mut h = ipv4_of(hdr)?;
            let d = pat(l, x, y)?;
            let r = h.set_options(&d);
            format!(
                "{};hdr={}",
                match r {
                    Ok(()) => "ok".to_string(),
                    Err(e) => format!("err(BadOptionsLen({}))", e.bad_len),
                },
                to_hex(&h.to_bytes())
            )
        }
        ("set.ipv4opts.try_from", [l, x, y]) => {
            let d = pat(l, x, y)?;
            match Ipv4Options::try_from(&d[..]) {
                Ok(o) => format!("ok(len={},{})", o.len(), to_hex(o.as_slice())),
                Err(e) => format!("err(BadOptionsLen({}))", e.bad_len),
            }
        }
        // ---------------------------------------------------------------- IPv6
        ("set.ipv6.set_payload_length", [hdr, n]) => {
            let mut h = ipv6_of(hdr)?;
            let n: usize = num(n)?;
            let r = h.set_payload_length(n);
            format!("{};hdr={}", res(&r), to_hex(&h.to_bytes()))
        }
        // ---------------------------------------------------------------- IpHeaders
        ("set.ip4.set_payload_len", [hdr, auth, n]) => {
            let h = ipv4_of(hdr)?;
            let auth = opt_of(auth_of, auth)?;
            let n: usize = num(n)?;
            let mut ip = IpHeaders::Ipv4(h, Ipv4Extensions { auth });
            let r = ip.set_payload_len(n);
            match ip {
                IpHeaders::Ipv4(h, e) => format!(
                    "{};hdr={};extlen={}",
                    res(&r),
                    to_hex(&h.to_bytes()),
                    e.header_len()
                ),
                _ => return None,
            }
        }
        ("set.ip6.set_payload_len", [hdr, hbh, dst, rt, fdst, frag, auth, n]) => {
            let h = ipv6_of(hdr)?;
            let hbh = opt_of(rawext_of, hbh)?;
            let dst = opt_of(rawext_of, dst)?;
            let rt = opt_of(rawext_of, rt)?;
            let fdst = opt_of(rawext_of, fdst)?;
            let frag = opt_of(frag_of, frag)?;
            let auth = opt_of(auth_of, auth)?;
            let n: usize = num(n)?;
            let routing = match (rt, fdst) {
                (Some(r), f) => Some(Ipv6RoutingExtensions {
                    routing: r,
                    final_destination_options: f,
                }),
                (None, None) => None,
                (None, Some(_)) => return None,
            };
            let mut ip = IpHeaders::Ipv6(
                h,
                Ipv6Extensions {
                    hop_by_hop_options: hbh,
                    destination_options: dst,
                    routing,
                    fragment: frag,
                    auth,
                },
            );
            let r = ip.set_payload_len(n);
            match ip {
                IpHeaders::Ipv6(h, e) => format!(
                    "{};hdr={};extlen={}",
                    res(&r),
                    to_hex(&h.to_bytes()),
                    e.header_len()
                ),
                _ => return None,
            }
        }
        // ---------------------------------------------------------------- UDP
        ("set.udp.without_ipv4_checksum", [sp, dp, n]) => {
            match UdpHeader::without_ipv4_checksum(num(sp)?, num(dp)?, num::<usize>(n)?) {
                Ok(h) => format!("ok({})", to_hex(&h.to_bytes())),
                Err(e) => too_big(&e),
            }
        }
        ("set.udp.with_ipv4_checksum", [sp, dp, src, dst, l, x, y]) => {
            let ip = Ipv4Header {
                source: arr::<4>(src)?,
                destination: arr::<4>(dst)?,
                ..Default::default()
            };
            let p = pat(l, x, y)?;
            match UdpHeader::with_ipv4_checksum(num(sp)?, num(dp)?, &ip, &p) {
                Ok(h) => format!("ok({})", to_hex(&h.to_bytes())),
                Err(e) => too_big(&e),
            }
        }
        ("set.udp.with_ipv6_checksum", [sp, dp, src, dst, l, x, y]) => {
            let ip = Ipv6Header {
                source: arr::<16>(src)?,
                destination: arr::<16>(dst)?,
                ..Default::default()
            };
            let p = pat(l, x, y)?;
            match UdpHeader::with_ipv6_checksum(num(sp)?, num(dp)?, &ip, &p) {
                Ok(h) => format!("ok({})", to_hex(&h.to_bytes())),
                Err(e) => too_big(&e),
            }
        }
        ("set.udp.calc_checksum_ipv4", [hdr, src, dst, l, x, y]) => {
            let h = udp_of(hdr)?;
            let (src, dst) = (arr::<4>(src)?, arr::<4>(dst)?);
            let ip = Ipv4Header {
                source: src,
                destination: dst,
                ..Default::default()
            };
            let p = pat(l, x, y)?;
            format!(
                "raw={},hdr={}",
                ck(&h.calc_checksum_ipv4_raw(src, dst, &p)),
                ck(&h.calc_checksum_ipv4(&ip, &p))
            )
        }
        ("set.udp.calc_checksum_ipv6", [hdr, src, dst, l, x, y]) => {
            let h = udp_of(hdr)?;
            let (src, dst) = (arr::<16>(src)?, arr::<16>(dst)?);
            let ip = Ipv6Header {
                source: src,
                destination: dst,
                ..Default::default()
            };
            let p = pat(l, x, y)?;
            format!(
                "raw={},hdr={}",
                ck(&h.calc_checksum_ipv6_raw(src, dst, &p)),
                ck(&h.calc_checksum_ipv6(&ip, &p))
            )
        }
        ("impl.set.udp.calc_checksum_ipv6.big", [hdr, src, dst, l]) => {
            let h = udp_of(hdr)?;
            let p = zero_buf(num(l)?)?;
            ck(&h.calc_checksum_ipv6_raw(arr::<16>(src)?, arr::<16>(dst)?, &p))
        }
        // ---------------------------------------------------------------- TCP
        ("set.tcp.calc_checksum_ipv4", [hdr, src, dst, l, x, y]) => {
            let h = tcp_of(hdr)?;
            let (src, dst) = (arr::<4>(src)?, arr::<4>(dst)?);
            let ip = Ipv4Header {
                source: src,
                destination: dst,
                ..Default::default()
            };
            let p = pat(l, x, y)?;
            format!(
                "raw={},hdr={}",
                ck(&h.calc_checksum_ipv4_raw(src, dst, &p)),
                ck(&h.calc_checksum_ipv4(&ip, &p))
            )
        }
        ("set.tcp.calc_checksum_ipv6", [hdr, src, dst, l, x, y]) => {
            let h = tcp_of(hdr)?;
            let (src, dst) = (arr::<16>(src)?, arr::<16>(dst)?);
            let ip = Ipv6Header {
                source: src,
                destination: dst,
                ..Default::default()
            };
            let p = pat(l, x, y)?;
            format!(
                "raw={},hdr={}",
                ck(&h.calc_checksum_ipv6_raw(src, dst, &p)),
                ck(&h.calc_checksum_ipv6(&ip, &p))
            )
        }
        ("impl.set.tcp.calc_checksum_ipv6.big", [hdr, src, dst, l]) => {
            let h = tcp_of(hdr)?;
            let p = zero_buf(num(l)?)?;
            ck(&h.calc_checksum_ipv6_raw(arr::<16>(src)?, arr::<16>(dst)?, &p))
        }
        ("set.tcpslice.calc_checksum_ipv4", [hdr, src, dst, l, x, y]) => {
            let _ = tcp_of(hdr)?;
            let mut b = hex(hdr)?;
            b.extend_from_slice(&pat(l, x, y)?);
            let s = TcpSlice::from_slice(&b).ok()?;
            // the header-slice type has its own copies of the limit check: all routes must agree
            let hb = hex(hdr)?;
            let hs = TcpHeaderSlice::from_slice(&hb).ok()?;
            let p = &b[hb.len()..];
            let (src, dst) = (arr::<4>(src)?, arr::<4>(dst)?);
            let ipb = Ipv4Header {
                source: src,
                destination: dst,
                ..Default::default()
            }
            .to_bytes();
            let ips = Ipv4HeaderSlice::from_slice(&ipb).ok()?;
            tcp_routes(
                &s.calc_checksum_ipv4(src, dst),
                &[hs.calc_checksum_ipv4_raw(src, dst, p), hs.calc_checksum_ipv4(&ips, p)],
                p.len(),
                0xffff - hb.len(),
            )
        }
        ("set.tcpslice.calc_checksum_ipv6", [hdr, src, dst, l, x, y]) => {
            let _ = tcp_of(hdr)?;
            let mut b = hex(hdr)?;
            b.extend_from_slice(&pat(l, x, y)?);
            let s = TcpSlice::from_slice(&b).ok()?;
            let hb = hex(hdr)?;
            let hs = TcpHeaderSlice::from_slice(&hb).ok()?;
            let p = &b[hb.len()..];
            let (src, dst) = (arr::<16>(src)?, arr::<16>(dst)?);
            tcp_routes(
                &s.calc_checksum_ipv6(src, dst),
                &[hs.calc_checksum_ipv6_raw(src, dst, p)],
                p.len(),
                0xffff_ffff - hb.len(),
            )
        }
        ("impl.set.tcpslice.calc_checksum_ipv6.big", [hdr, src, dst, l]) => {
            // slice = header followed by zeros, `l` bytes in total
            let hb = hex(hdr)?;
            let _ = tcp_of(hdr)?;
            let l: usize = num(l)?;
            if l < hb.len() {
                return None;
            }
            let mut b = zero_buf(l)?;
            b[..hb.len()].copy_from_slice(&hb);
            let s = TcpSlice::from_slice(&b).ok()?;
            ck(&s.calc_checksum_ipv6(arr::<16>(src)?, arr::<16>(dst)?))
        }
        ("set.tcp.set_options_raw", [hdr, l, x, y]) => {
            let mut h = tcp_of(hdr)?;
            let d = pat(l, x, y)?;
            let r = h.set_options_raw(&d);
            format!(
                "{};hdr={}",
                match r {
                    Ok(()) => "ok".to_string(),
                    Err(e) => tcp_opt_err(&e),
                },
                to_hex(&h.to_bytes())
            )
        }
        ("set.tcpopts.try_from_slice", [l, x, y]) => {
            let d = pat(l, x, y)?;
            match TcpOptions::try_from_slice(&d) {
                Ok(o) => format!("ok(len={},{})", o.len(), to_hex(o.as_slice())),
                Err(e) => tcp_opt_err(&e),
            }
        }
        // ---------------------------------------------------------------- ICMPv6
        ("set.icmp6.calc_checksum", [hdr, src, dst, l, x, y]) => {
            let h = icmp6_of(hdr)?;
            let p = pat(l, x, y)?;
            ck(&h.icmp_type.calc_checksum(arr::<16>(src)?, arr::<16>(dst)?, &p))
        }
        ("impl.set.icmp6.calc_checksum.big", [hdr, src, dst, l]) => {
            let h = icmp6_of(hdr)?;
            let p = zero_buf(num(l)?)?;
            ck(&h.icmp_type.calc_checksum(arr::<16>(src)?, arr::<16>(dst)?, &p))
        }
        ("set.icmp6.with_checksum", [hdr, src, dst, l, x, y]) => {
            let h = icmp6_of(hdr)?;
            let p = pat(l, x, y)?;
            match Icmpv6Header::with_checksum(h.icmp_type, arr::<16>(src)?, arr::<16>(dst)?, &p) {
                Ok(h2) => format!("ok({})", to_hex(&h2.to_bytes())),
                Err(e) => too_big(&e),
            }
        }
        ("set.icmp6.update_checksum", [hdr, src, dst, l, x, y]) => {
            let mut h = icmp6_of(hdr)?;
            let p = pat(l, x, y)?;
            let r = h.update_checksum(arr::<16>(src)?, arr::<16>(dst)?, &p);
            format!("{};hdr={}", res(&r), to_hex(&h.to_bytes()))
        }
        // ---------------------------------------------------------------- MACsec
        ("set.macsec.set_payload_len", [hdr, n]) => {
            let mut h = macsec_of(hdr)?;
            h.set_payload_len(num::<usize>(n)?);
            format!(
                "ok;hdr={};sl={};exp={}",
                to_hex(&h.to_bytes()),
                h.short_len.value(),
                opt_usize(h.expected_payload_len())
            )
        }
        ("set.macsec.from_len", [n]) => MacsecShortLen::from_len(num::<usize>(n)?)
            .value()
            .to_string(),
        ("set.macsec.try_from", [n]) => {
            let n: u8 = num(n)?;
            let r1 = MacsecShortLen::try_from(n);
            let r2 = MacsecShortLen::try_from_u8(n);
            if r1 != r2 {
                return Some(format!("differ({:?},{:?})", r1, r2));
            }
            match r1 {
                Ok(v) => format!("ok({})", v.value()),
                Err(e) => too_big(&e),
            }
        }
        // ---------------------------------------------------------------- AH / raw ext header
        ("set.auth.new", [nh, spi, seq, l, x, y]) => {
            let d = pat(l, x, y)?;
            match IpAuthHeader::new(IpNumber(num(nh)?), num(spi)?, num(seq)?, &d) {
                Ok(h) => format!("ok({})", to_hex(&h.to_bytes())),
                Err(e) => icv_err(&e),
            }
        }
        ("set.auth.set_raw_icv", [hdr, l, x, y]) => {
            let mut h = auth_of(hdr)?;
            let d = pat(l, x, y)?;
            let r = h.set_raw_icv(&d);
            format!(
                "{};hdr={}",
                match r {
                    Ok(()) => "ok".to_string(),
                    Err(e) => icv_err(&e),
                },
                to_hex(&h.to_bytes())
            )
        }
        ("set.rawext.new_raw", [nh, l, x, y]) => {
            let d = pat(l, x, y)?;
            match Ipv6RawExtHeader::new_raw(IpNumber(num(nh)?), &d) {
                Ok(h) => format!("ok({})", to_hex(&h.to_bytes())),
                Err(e) => ext_err(&e),
            }
        }
        ("set.rawext.set_payload", [hdr, l, x, y]) => {
            let mut h = rawext_of(hdr)?;
            let d = pat(l, x, y)?;
            let r = h.set_payload(&d);
            format!(
                "{};hdr={}",
                match r {
                    Ok(()) => "ok".to_string(),
                    Err(e) => ext_err(&e),
                },
                to_hex(&h.to_bytes())
            )
        }
        // ---------------------------------------------------------------- ARP
        ("set.arp.new", [hw, proto, oper, l1, l2, l3, l4, x, y]) => {
            let x0: u8 = num(x)?;
            let shw = pat(l1, x, y)?;
            let sp = pat(l2, &x0.wrapping_add(1).to_string(), y)?;
            let thw = pat(l3, &x0.wrapping_add(2).to_string(), y)?;
            let tp = pat(l4, &x0.wrapping_add(3).to_string(), y)?;
            match ArpPacket::new(
                ArpHardwareId(num(hw)?),
                EtherType(num(proto)?),
                ArpOperation(num(oper)?),
                &shw,
                &sp,
                &thw,
                &tp,
            ) {
                Ok(h) => format!("ok({})", to_hex(&h.to_bytes())),
                Err(err::arp::ArpNewError::HwAddr(e)) => arp_hw_err(&e),
                Err(err::arp::ArpNewError::ProtoAddr(e)) => arp_proto_err(&e),
            }
        }
        ("set.arp.set_hw_addrs", [hdr, l1, l2, x, y]) => {
            let mut h = arp_of(hdr)?;
            let x0: u8 = num(x)?;
            let s = pat(l1, x, y)?;
            let t = pat(l2, &x0.wrapping_add(2).to_string(), y)?;
            let r = h.set_hw_addrs(&s, &t);
            format!(
                "{};hdr={}",
                match r {
                    Ok(()) => "ok".to_string(),
                    Err(e) => arp_hw_err(&e),
                },
                to_hex(&h.to_bytes())
            )
        }
        ("set.arp.set_protocol_addrs", [hdr, l1, l2, x, y]) => {
            let mut h = arp_of(hdr)?;
            let x0: u8 = num(x)?;
            let s = pat(l1, x, y)?;
            let t = pat(l2, &x0.wrapping_add(2).to_string(), y)?;
            let r = h.set_protocol_addrs(&s, &t);
            format!(
                "{};hdr={}",
                match r {
                    Ok(()) => "ok".to_string(),
                    Err(e) => arp_proto_err(&e),
                },
                to_hex(&h.to_bytes())
            )
        }
        _ => return None,
    })
}
