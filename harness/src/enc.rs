//! `enc.*` / `impl.enc.*` operations: header codecs (C08). Split over two modules.
pub fn run(op: &str, a: &[&str]) -> Option<String> {
    crate::enc_link::run(op, a).or_else(|| crate::enc_net::run(op, a))
}
