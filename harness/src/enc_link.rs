//! `enc.<type>.*` operations of the link / ARP / transport half of C08
//! (same line formats as lean/EpModel/Driver/EncLink.lean).
#![allow(unused_imports, dead_code)]
use crate::util::*;
use etherparse::err::LenError;
use etherparse::*;

// ---------------------------------------------------------------------------------------------
// argument parsing

fn hex_n<const N: usize>(s: &str) -> Option<[u8; N]> {
    hex(s)?.try_into().ok()
}
fn boolean(s: &str) -> Option<bool> {
    match s {
        "1" => Some(true),
        "0" => Some(false),
        _ => None,
    }
}
fn list(s: &str) -> Vec<&str> {
    if s == "-" {
        Vec::new()
    } else {
        s.split(',').collect()
    }
}
fn sb(b: bool) -> &'static str {
    if b {
        "1"
    } else {
        "0"
    }
}

// ---------------------------------------------------------------------------------------------
// error rendering

fn len_err(e: &LenError) -> String {
    crate::util::touch(e);
    format!(
        "err(len(req={},len={},src={:?},layer={:?},off={}))",
        e.required_len, e.len, e.len_source, e.layer, e.layer_start_offset
    )
}
fn too_big<T: core::fmt::Display + Sized + Clone + core::fmt::Debug + Eq + core::hash::Hash>(
    e: &err::ValueTooBigError<T>,
) -> String {
    format!(
        "err(toobig(actual={},max={},vt={:?}))",
        e.actual, e.max_allowed, e.value_type
    )
}
fn space_err(e: &err::SliceWriteSpaceError) -> String {
    crate::util::touch(e);
    // the conversion into the builder's error type keeps the REQUIRED length (what a caller has to provide)
    let conv = err::packet::BuildSliceWriteError::from(e.clone());
    if !matches!(conv, err::packet::BuildSliceWriteError::Space(n) if n == e.required_len) {
        return format!("err(space(req={},len={}))!routes-differ(into_build_slice_write_error={:?})", e.required_len, e.len, conv);
    }
    format!(
        "err(space(req={},len={},layer={:?},off={}))",
        e.required_len, e.len, e.layer, e.layer_start_offset
    )
}
fn sll_content(e: &err::linux_sll::HeaderError) -> String {
    use err::linux_sll::HeaderError::*;
    match e {
        UnsupportedPacketTypeField { packet_type } => format!(
            "err(content(UnsupportedPacketTypeField(packet_type={})))",
            packet_type
        ),
        UnsupportedArpHardwareId { arp_hardware_type } => format!(
            "err(content(UnsupportedArpHardwareId(arp_hardware_type={})))",
            arp_hardware_type.0
        ),
    }
}

// ---------------------------------------------------------------------------------------------
// generic result lines

/// decoded value: canonical field text + the unused rest of the input
type Dec<'a> = Result<(String, &'a [u8]), String>;

fn dec_str(base: &[u8], d: Dec) -> String {
    match d {
        Err(e) => e,
        Ok((f, rest)) => format!("ok({},rest={})", f, win(base, rest)),
    }
}

/// the `to_bytes` line
fn enc_line(
    b: &[u8],
    w: Option<Vec<u8>>,
    s: Option<String>,
    header_len: usize,
    tail: &[u8],
    from_slice: &dyn for<'a> Fn(&'a [u8]) -> Dec<'a>,
) -> String {
    let ws = match w {
        None => "na".to_string(),
        Some(v) => {
            if v == b {
                "same".to_string()
            } else {
                to_hex(&v)
            }
        }
    };
    let ss = s.unwrap_or_else(|| "na".to_string());
    let mut all = b.to_vec();
    all.extend_from_slice(tail);
    format!(
        "ok(b={},w={},s={},len={},dec={})",
        to_hex(b),
        ws,
        ss,
        header_len,
        dec_str(&all, from_slice(&all))
    )
}

/// result of write_to_slice into a buffer of exactly header_len bytes, relative to `b`
fn exact_slice(
    b: &[u8],
    header_len: usize,
    f: &dyn Fn(&mut [u8]) -> Result<usize, String>,
) -> String {
    let mut buf = vec![0xA5u8; header_len];
    match f(&mut buf) {
        Err(e) => e,
        Ok(rest_len) => {
            let written = &buf[..header_len - rest_len];
            if written == b && rest_len == 0 {
                "same".to_string()
            } else {
                format!("{}+{}", to_hex(written), rest_len)
            }
        }
    }
}

fn wslice_line(cap: usize, f: &dyn Fn(&mut [u8]) -> Result<usize, String>) -> String {
    let mut buf = vec![0xA5u8; cap];
    match f(&mut buf) {
        Err(e) => e,
        Ok(rest_len) => format!(
            "ok(written={},rest={})",
            to_hex(&buf[..cap - rest_len]),
            rest_len
        ),
    }
}

/// the `from_slice` line: decode, re-encode, decode again
fn from_line(
    b: &[u8],
    from_slice: &dyn for<'a> Fn(&'a [u8]) -> Result<(String, Vec<u8>, &'a [u8]), String>,
) -> String {
    match from_slice(b) {
        Err(e) => e,
        Ok((fields, re, rest)) => {
            let first = format!("{},rest={}", fields, win(b, rest));
            let mut b2 = re.clone();
            b2.extend_from_slice(rest);
            let again = match from_slice(&b2) {
                Err(e) => e,
                Ok((f2, _, rest2)) => {
                    let s2 = format!("{},rest={}", f2, win(&b2, rest2));
                    if s2 == first {
                        "same".to_string()
                    } else {
                        format!("ok({})", s2)
                    }
                }
            };
            format!("ok({},re={},again={})", first, to_hex(&re), again)
        }
    }
}

fn split_last<'a, 'b>(a: &'a [&'b str]) -> Option<(&'a [&'b str], &'b str)> {
    let (l, r) = a.split_last()?;
    Some((r, *l))
}

// ---------------------------------------------------------------------------------------------
// Ethernet II

fn show_eth2(h: &Ethernet2Header) -> String {
    format!(
        "dst={},src={},et={}",
        to_hex(&h.destination),
        to_hex(&h.source),
        h.ether_type.0
    )
}
fn mk_eth2(a: &[&str]) -> Option<Ethernet2Header> {
    match a {
        [d, s, e] => Some(Ethernet2Header {
            destination: hex_n::<6>(d)?,
            source: hex_n::<6>(s)?,
            ether_type: EtherType(num(e)?),
        }),
        _ => None,
    }
}
fn dec_eth2(b: &[u8]) -> Dec<'_> {
    Ethernet2Header::from_slice(b)
        .map(|(h, r)| {
            // the other decoders of the same 14 bytes
            let mut a = [0u8; 14];
            a.copy_from_slice(&b[..14]);
            let hs = Ethernet2HeaderSlice::from_slice(b);
            let bad = Ethernet2Header::from_bytes(a) != h
                || hs.as_ref().map(|x| x.to_header() != h || x.slice().as_ptr() != b.as_ptr() || x.slice().len() != 14).unwrap_or(true);
            let w = LinkHeader::Ethernet2(h.clone());
            let bad2 = wrap_bad(&h.to_bytes(), &[w.header_len(), h.header_len()], &[wvec(|v| w.write(v)), wvec(|v| h.write(v))]);
            (format!("{}{}{}", show_eth2(&h), if bad { "!decoders-differ" } else { "" }, if bad2 { "!routes-differ(link_header)" } else { "" }), r)
        })
        .map_err(|e| len_err(&e))
}

// ---------------------------------------------------------------------------------------------
// VLAN

fn show_vlan(h: &SingleVlanHeader) -> String {
    format!(
        "pcp={},dei={},vid={},et={}",
        h.pcp.value(),
        sb(h.drop_eligible_indicator),
        h.vlan_id.value(),
        h.ether_type.0
    )
}
fn mk_vlan(a: &[&str]) -> Option<Result<SingleVlanHeader, String>> {
    match a {
        [p, d, v, e] => {
            let p: u8 = num(p)?;
            let d = boolean(d)?;
            let v: u16 = num(v)?;
            let e: u16 = num(e)?;
            Some((|| {
                Ok(SingleVlanHeader {
                    pcp: VlanPcp::try_new(p).map_err(|e| too_big(&e))?,
                    drop_eligible_indicator: d,
                    vlan_id: VlanId::try_new(v).map_err(|e| too_big(&e))?,
                    ether_type: EtherType(e),
                })
            })())
        }
        _ => None,
    }
}
fn dec_vlan(b: &[u8]) -> Dec<'_> {
    SingleVlanHeader::from_slice(b)
        .map(|(h, r)| {
            let hs = SingleVlanHeaderSlice::from_slice(b);
            let bad = hs.as_ref().map(|x| x.to_header() != h || x.slice().as_ptr() != b.as_ptr() || x.slice().len() != 4).unwrap_or(true);
            let bad2 = LinkExtHeader::Vlan(h.clone()).header_len() != 4 || h.header_len() != 4 || VlanHeader::Single(h.clone()).next_header() != h.ether_type;
            (format!("{}{}{}", show_vlan(&h), if bad { "!decoders-differ" } else { "" }, if bad2 { "!routes-differ(vlan_wrappers)" } else { "" }), r)
        })
        .map_err(|e| len_err(&e))
}

// ---------------------------------------------------------------------------------------------
// Linux SLL

fn show_sll(h: &LinuxSllHeader) -> String {
    let p = match h.protocol_type {
        LinuxSllProtocolType::Ignored(v) => format!("ign({})", v),
        LinuxSllProtocolType::NetlinkProtocolType(v) => format!("netlink({})", v),
        LinuxSllProtocolType::GenericRoutingEncapsulationProtocolType(v) => format!("gre({})", v),
        LinuxSllProtocolType::EtherType(v) => format!("et({})", v.0),
        LinuxSllProtocolType::LinuxNonstandardEtherType(v) => format!("nonstd({})", u16::from(v)),
    };
    format!(
        "pt={},hrd={},alen={},addr={},proto={}",
        u16::from(h.packet_type),
        h.arp_hrd_type.0,
        h.sender_address_valid_length,
        to_hex(&h.sender_address),
        p
    )
}
fn mk_sll(a: &[&str]) -> Option<Result<LinuxSllHeader, String>> {
    match a {
        [pt, hrd, alen, addr, tag, v] => {
            let pt: u16 = num(pt)?;
            let hrd: u16 = num(hrd)?;
            let alen: u16 = num(alen)?;
            let addr = hex_n::<8>(addr)?;
            let v: u16 = num(v)?;
            let proto: Result<LinuxSllProtocolType, String> = match *tag {
                "ign" => Ok(LinuxSllProtocolType::Ignored(v)),
                "netlink" => Ok(LinuxSllProtocolType::NetlinkProtocolType(v)),
                "gre" => Ok(LinuxSllProtocolType::GenericRoutingEncapsulationProtocolType(v)),
                "et" => Ok(LinuxSllProtocolType::EtherType(EtherType(v))),
                "nonstd" => LinuxNonstandardEtherType::try_from(v)
                    .map(LinuxSllProtocolType::LinuxNonstandardEtherType)
                    .map_err(|_| "err(nonstd)".to_string()),
                _ => return None,
            };
            Some((|| {
                let packet_type = LinuxSllPacketType::try_from(pt).map_err(|e| sll_content(&e))?;
                let protocol_type = proto?;
                Ok(LinuxSllHeader {
                    packet_type,
                    arp_hrd_type: ArpHardwareId(hrd),
                    sender_address_valid_length: alen,
                    sender_address: addr,
                    protocol_type,
                })
            })())
        }
        _ => None,
    }
}
fn sll_slice_err(e: err::linux_sll::HeaderSliceError) -> String {
    crate::util::touch(&e);
    match e {
        err::linux_sll::HeaderSliceError::Len(l) => len_err(&l),
        err::linux_sll::HeaderSliceError::Content(c) => sll_content(&c),
    }
}
fn dec_sll(b: &[u8]) -> Dec<'_> {
    LinuxSllHeader::from_slice(b)
        .map(|(h, r)| {
            let w = LinkHeader::LinuxSll(h.clone());
            let bad = wrap_bad(&h.to_bytes(), &[w.header_len(), h.header_len()], &[wvec(|v| w.write(v)), wvec(|v| h.write(v))]);
            (format!("{}{}", show_sll(&h), if bad { "!routes-differ(link_header)" } else { "" }), r)
        })
        .map_err(sll_slice_err)
}

// ---------------------------------------------------------------------------------------------
// MACsec

fn show_macsec(h: &MacsecHeader) -> String {
    let p = match h.ptype {
        MacsecPType::Unmodified(e) => format!("unmod({})", e.0),
        MacsecPType::Modified => "mod".to_string(),
        MacsecPType::Encrypted => "enc".to_string(),
        MacsecPType::EncryptedUnmodified => "encunmod".to_string(),
    };
    let sci = match h.sci {
        None => "none".to_string(),
        Some(s) => format!("some({})", s),
    };
    format!(
        "ptype={},es={},scb={},an={},sl={},pn={},sci={}",
        p,
        sb(h.endstation_id),
        sb(h.scb),
        h.an.value(),
        h.short_len.value(),
        h.packet_nr,
        sci
    )
}
fn mk_macsec(a: &[&str]) -> Option<Result<MacsecHeader, String>> {
    match a {
        [p, et, es, scb, an, sl, pn, sci] => {
            let et: u16 = num(et)?;
            let ptype = match *p {
                "unmod" => MacsecPType::Unmodified(EtherType(et)),
                "mod" => MacsecPType::Modified,
                "enc" => MacsecPType::Encrypted,
                "encunmod" => MacsecPType::EncryptedUnmodified,
                _ => return None,
            };
            let sci: Option<u64> = if *sci == "none" {
                None
            } else {
                Some(num(sci)?)
            };
            let es = boolean(es)?;
            let scb = boolean(scb)?;
            let an: u8 = num(an)?;
            let sl: u8 = num(sl)?;
            let pn: u32 = num(pn)?;
            Some((|| {
                Ok(MacsecHeader {
                    ptype,
                    endstation_id: es,
                    scb,
                    an: MacsecAn::try_new(an).map_err(|e| too_big(&e))?,
                    short_len: MacsecShortLen::try_from_u8(sl).map_err(|e| too_big(&e))?,
                    packet_nr: pn,
                    sci,
                })
            })())
        }
        _ => None,
    }
}
fn macsec_from(b: &[u8]) -> Result<(MacsecHeader, &[u8]), String> {
    // the reader based decoder is a separate copy of the same checks: it has to give the same verdict
    // and the same header (a cut header is an I/O error there)
    {
        let by_slice = MacsecHeader::from_slice(b);
        let by_read = MacsecHeader::read(&mut std::io::Cursor::new(b));
        let same = match (&by_slice, &by_read) {
            (Ok(a), Ok(r)) => a == r,
            (Err(err::macsec::HeaderSliceError::Len(_)), Err(err::macsec::HeaderReadError::Io(_))) => true,
            (
                Err(err::macsec::HeaderSliceError::Content(a)),
                Err(err::macsec::HeaderReadError::Content(r)),
            ) => a == r,
            _ => false,
        };
        if !same {
            return Err(format!(
                "!decoders-differ(from_slice={:?},read={:?})",
                by_slice.map(|h| show_macsec(&h)).map_err(|e| format!("{:?}", e)),
                by_read.map(|h| show_macsec(&h)).map_err(|e| format!("{:?}", e))
            ));
        }
    }
    match MacsecHeader::from_slice(b) {
        Ok(h) => {
            // the crate returns only the header; the rest is slice[header_len..]
            let l = h.header_len();
            Ok((h, &b[l..]))
        }
        Err(err::macsec::HeaderSliceError::Len(l)) => Err(len_err(&l)),
        Err(err::macsec::HeaderSliceError::Content(c)) => Err(format!("err(content({:?}))", c)),
    }
}
fn dec_macsec(b: &[u8]) -> Dec<'_> {
    macsec_from(b).map(|(h, r)| {
        let bad = wrap_bad(&h.to_bytes(), &[LinkExtHeader::Macsec(h.clone()).header_len(), h.header_len()], &[wvec(|v| h.write(v))]);
        (format!("{}{}", show_macsec(&h), if bad { "!routes-differ(link_ext_header)" } else { "" }), r)
    })
}

// ---------------------------------------------------------------------------------------------
// ARP

fn show_arp(h: &ArpPacket) -> String {
    format!(
        "hw={},proto={},op={},hs={},ps={},shw={},sp={},thw={},tp={}",
        h.hw_addr_type.0,
        h.proto_addr_type.0,
        h.operation.0,
        h.hw_addr_size(),
        h.protocol_addr_size(),
        to_hex(h.sender_hw_addr()),
        to_hex(h.sender_protocol_addr()),
        to_hex(h.target_hw_addr()),
        to_hex(h.target_protocol_addr())
    )
}
fn mk_arp(a: &[&str]) -> Option<Result<ArpPacket, String>> {
    match a {
        [hw, pr, op, s1, s2, t1, t2] => {
            let hw: u16 = num(hw)?;
            let pr: u16 = num(pr)?;
            let op: u16 = num(op)?;
            let (s1, s2, t1, t2) = (hex(s1)?, hex(s2)?, hex(t1)?, hex(t2)?);
            Some(
                ArpPacket::new(
                    ArpHardwareId(hw),
                    EtherType(pr),
                    ArpOperation(op),
                    &s1,
                    &s2,
                    &t1,
                    &t2,
                )
                .map_err(|e| {
                    use err::arp::*;
                    match e {
                        ArpNewError::HwAddr(ArpHwAddrError::LenNonMatching(a, b)) => {
                            format!("err(arpnew(HwAddr(LenNonMatching({},{}))))", a, b)
                        }
                        ArpNewError::HwAddr(ArpHwAddrError::LenTooBig(a)) => {
                            format!("err(arpnew(HwAddr(LenTooBig({}))))", a)
                        }
                        ArpNewError::ProtoAddr(ArpProtoAddrError::LenNonMatching(a, b)) => {
                            format!("err(arpnew(ProtoAddr(LenNonMatching({},{}))))", a, b)
                        }
                        ArpNewError::ProtoAddr(ArpProtoAddrError::LenTooBig(a)) => {
                            format!("err(arpnew(ProtoAddr(LenTooBig({}))))", a)
                        }
                    }
                }),
            )
        }
        _ => None,
    }
}
fn arp_from(b: &[u8]) -> Result<(ArpPacket, &[u8]), String> {
    match ArpPacket::from_slice(b) {
        Ok(h) => {
            let l = h.packet_len();
            Ok((h, &b[l..]))
        }
        Err(e) => Err(len_err(&e)),
    }
}
fn dec_arp(b: &[u8]) -> Dec<'_> {
    arp_from(b).map(|(h, r)| {
        // the hand-written PartialEq / Hash: a copy is equal, a packet with another last address byte is not
        let d = if h.target_protocol_addr().is_empty() {
            let mut d = h.clone();
            d.operation = ArpOperation(h.operation.0 ^ 1);
            Some(d)
        } else {
            let mut t = h.target_protocol_addr().to_vec();
            let n = t.len();
            t[n - 1] ^= 1;
            ArpPacket::new(h.hw_addr_type, h.proto_addr_type, h.operation, h.sender_hw_addr(), h.sender_protocol_addr(), h.target_hw_addr(), &t).ok()
        };
        // a packet that held the longest addresses before, and a failed setter call on the way: the same packet
        let mut st = h.clone();
        let long = [0xeeu8; 255];
        let (shw, thw) = (h.sender_hw_addr().to_vec(), h.target_hw_addr().to_vec());
        let (spr, tpr) = (h.sender_protocol_addr().to_vec(), h.target_protocol_addr().to_vec());
        let stale_bad = st.set_hw_addrs(&long, &long).is_err()
            || st.set_protocol_addrs(&long, &long).is_err()
            || st.set_hw_addrs(&long, &long[..3]).is_ok()
            || st.set_hw_addrs(&shw, &thw).is_err()
            || st.set_protocol_addrs(&spr, &tpr).is_err()
            || st != h
            || st.to_bytes()[..] != h.to_bytes()[..];
        let bad2 = stale_bad || NetHeaders::Arp(h.clone()).header_len() != h.to_bytes().len() || h.packet_len() != h.to_bytes().len();
        (format!("{}{}{}", show_arp(&h), if eq_laws_bad(&h, d) { "!accessor-mismatch" } else { "" }, if bad2 { "!routes-differ(net_headers)" } else { "" }), r)
    })
}

fn show_arpeth(h: &ArpEthIpv4Packet) -> String {
    format!(
        "op={},smac={},sip={},tmac={},tip={}",
        h.operation.0,
        to_hex(&h.sender_mac),
        to_hex(&h.sender_ipv4),
        to_hex(&h.target_mac),
        to_hex(&h.target_ipv4)
    )
}
fn mk_arpeth(a: &[&str]) -> Option<ArpEthIpv4Packet> {
    match a {
        [op, a1, a2, a3, a4] => Some(ArpEthIpv4Packet {
            operation: ArpOperation(num(op)?),
            sender_mac: hex_n::<6>(a1)?,
            sender_ipv4: hex_n::<4>(a2)?,
            target_mac: hex_n::<6>(a3)?,
            target_ipv4: hex_n::<4>(a4)?,
        }),
        _ => None,
    }
}
fn arpeth_from(b: &[u8]) -> Result<(ArpEthIpv4Packet, &[u8]), String> {
    let (a, rest) = arp_from(b)?;
    use err::arp::ArpEthIpv4FromError::*;
    match a.try_eth_ipv4() {
        Ok(h) => Ok((h, rest)),
        Err(NonMatchingHwType(t)) => Err(format!("err(eth4(NonMatchingHwType({})))", t.0)),
        Err(NonMatchingProtocolType(t)) => {
            Err(format!("err(eth4(NonMatchingProtocolType({})))", t.0))
        }
        Err(NonMatchingHwAddrSize(t)) => Err(format!("err(eth4(NonMatchingHwAddrSize({})))", t)),
        Err(NonMatchingProtoAddrSize(t)) => {
            Err(format!("err(eth4(NonMatchingProtoAddrSize({})))", t))
        }
    }
}
fn dec_arpeth(b: &[u8]) -> Dec<'_> {
    arpeth_from(b).map(|(h, r)| (show_arpeth(&h), r))
}

// ---------------------------------------------------------------------------------------------
// UDP / TCP

fn show_udp(h: &UdpHeader) -> String {
    format!(
        "sp={},dp={},len={},ck={}",
        h.source_port, h.destination_port, h.length, h.checksum
    )
}
fn mk_udp(a: &[&str]) -> Option<UdpHeader> {
    match a {
        [s, d, l, c] => Some(UdpHeader {
            source_port: num(s)?,
            destination_port: num(d)?,
            length: num(l)?,
            checksum: num(c)?,
        }),
        _ => None,
    }
}
fn tp_wrap(t: TransportHeader, bytes: &[u8]) -> &'static str {
    if wrap_bad(bytes, &[t.header_len()], &[wvec(|v| t.write(v))]) {
        "!routes-differ(transport_header)"
    } else {
        ""
    }
}
fn dec_udp(b: &[u8]) -> Dec<'_> {
    UdpHeader::from_slice(b)
        .map(|(h, r)| (format!("{}{}", show_udp(&h), tp_wrap(TransportHeader::Udp(h.clone()), &h.to_bytes())), r))
        .map_err(|e| len_err(&e))
}

fn show_tcp(h: &TcpHeader) -> String {
    let fl: String = [
        h.ns, h.fin, h.syn, h.rst, h.psh, h.ack, h.urg, h.ece, h.cwr,
    ]
    .iter()
    .map(|b| sb(*b))
    .collect();
    format!(
        "sp={},dp={},seq={},ack={},fl={},win={},ck={},urg={},doff={},opts={}",
        h.source_port,
        h.destination_port,
        h.sequence_number,
        h.acknowledgment_number,
        fl,
        h.window_size,
        h.checksum,
        h.urgent_pointer,
        h.data_offset(),
        to_hex(h.options.as_slice())
    )
}
fn mk_tcp(a: &[&str]) -> Option<Result<TcpHeader, String>> {
    match a {
        [sp, dp, seq, ack, fl, win, ck, urg, opts] => {
            let mut h = TcpHeader::new(num(sp)?, num(dp)?, num(seq)?, num(win)?);
            h.acknowledgment_number = num(ack)?;
            h.checksum = num(ck)?;
            h.urgent_pointer = num(urg)?;
            let opts = hex(opts)?;
            if fl.len() != 9 {
                return None;
            }
            let mut bits = [false; 9];
            for (i, c) in fl.chars().enumerate() {
                bits[i] = match c {
                    '1' => true,
                    '0' => false,
                    _ => return None,
                };
            }
            h.ns = bits[0];
            h.fin = bits[1];
            h.syn = bits[2];
            h.rst = bits[3];
            h.psh = bits[4];
            h.ack = bits[5];
            h.urg = bits[6];
            h.ece = bits[7];
            h.cwr = bits[8];
            Some(match h.set_options_raw(&opts) {
                Ok(()) => Ok(h),
                Err(TcpOptionWriteError::NotEnoughSpace(n)) => {
                    Err(format!("err(NotEnoughSpace({}))", n))
                }
            })
        }
        _ => None,
    }
}
fn tcp_err(e: err::tcp::HeaderSliceError) -> String {
    crate::util::touch(&e);
    match e {
        err::tcp::HeaderSliceError::Len(l) => len_err(&l),
        err::tcp::HeaderSliceError::Content(err::tcp::HeaderError::DataOffsetTooSmall {
            data_offset,
        }) => format!(
            "err(content(DataOffsetTooSmall(data_offset={})))",
            data_offset
        ),
    }
}
fn dec_tcp(b: &[u8]) -> Dec<'_> {
    TcpHeader::from_slice(b)
        .map(|(h, r)| {
            let mut d = h.clone();
            if h.options.is_empty() {
                d.window_size ^= 1;
            } else {
                let mut o = h.options.as_slice().to_vec();
                let n = o.len();
                o[n - 1] ^= 1;
                let _ = d.set_options_raw(&o);
            }
            let o = &h.options;
            let mut st = h.clone();
            let stale_bad = st.set_options_raw(&[1u8; 40]).is_err()
                || st.set_options_raw(h.options.as_slice()).is_err()
                || st != h
                || st.to_bytes() != h.to_bytes()
                || TcpHeader::from_slice(&st.to_bytes()).map(|x| x.0 != st).unwrap_or(true);
            let bad = stale_bad
                || eq_laws_bad(&h, Some(d))
                || eq_laws_bad(o, None)
                || o.cmp(&o.clone()) != core::cmp::Ordering::Equal
                || o.partial_cmp(&o.clone()) != Some(core::cmp::Ordering::Equal)
                || TcpOptions::try_from(o.as_slice()).ok().as_ref() != Some(o)
                || TcpOptions::try_from_slice(o.as_slice()).ok().as_ref() != Some(o);
            (format!("{}{}{}", show_tcp(&h), if bad { "!accessor-mismatch" } else { "" }, tp_wrap(TransportHeader::Tcp(h.clone()), &h.to_bytes())), r)
        })
        .map_err(tcp_err)
}

// ---------------------------------------------------------------------------------------------
// ICMPv4

fn show_icmpv4(h: &Icmpv4Header) -> String {
    use icmpv4::*;
    use Icmpv4Type::*;
    let t = match &h.icmp_type {
        Unknown {
            type_u8,
            code_u8,
            bytes5to8,
        } => format!("unknown({},{},{})", type_u8, code_u8, to_hex(bytes5to8)),
        EchoReply(e) => format!("echoreply({},{})", e.id, e.seq),
        DestinationUnreachable(d) => {
            let mtu = match d {
                DestUnreachableHeader::FragmentationNeeded { next_hop_mtu } => *next_hop_mtu,
                _ => 0,
            };
            format!("du({},{})", d.code_u8(), mtu)
        }
        Redirect(r) => format!(
            "redirect({},{})",
            r.code.code_u8(),
            to_hex(&r.gateway_internet_address)
        ),
        EchoRequest(e) => format!("echoreq({},{})", e.id, e.seq),
        TimeExceeded(c) => format!("te({})", c.code_u8()),
        ParameterProblem(p) => match p {
            ParameterProblemHeader::PointerIndicatesError(x) => format!("pp(0,{})", x),
            ParameterProblemHeader::MissingRequiredOption => "pp(1,0)".to_string(),
            ParameterProblemHeader::BadLength => "pp(2,0)".to_string(),
        },
        TimestampRequest(m) => format!(
            "tsreq({},{},{},{},{})",
            m.id, m.seq, m.originate_timestamp, m.receive_timestamp, m.transmit_timestamp
        ),
        TimestampReply(m) => format!(
            "tsreply({},{},{},{},{})",
            m.id, m.seq, m.originate_timestamp, m.receive_timestamp, m.transmit_timestamp
        ),
    };
    format!("ty={},ck={}", t, h.checksum)
}
fn mk_icmpv4(a: &[&str]) -> Option<Result<Icmpv4Header, String>> {
    use icmpv4::*;
    match a {
        [ck, v, args] => {
            let ck: u16 = num(ck)?;
            let l = list(args);
            let bad = || Err("err(code)".to_string());
            let ty: Result<Icmpv4Type, String> = match (*v, &l[..]) {
                ("unknown", [t, c, b]) => Ok(Icmpv4Type::Unknown {
                    type_u8: num(t)?,
                    code_u8: num(c)?,
                    bytes5to8: hex_n::<4>(b)?,
                }),
                ("echoreply", [i, s]) => Ok(Icmpv4Type::EchoReply(IcmpEchoHeader {
                    id: num(i)?,
                    seq: num(s)?,
                })),
                ("echoreq", [i, s]) => Ok(Icmpv4Type::EchoRequest(IcmpEchoHeader {
                    id: num(i)?,
                    seq: num(s)?,
                })),
                ("du", [c, m]) => match DestUnreachableHeader::from_values(num(c)?, num(m)?) {
                    Some(d) => Ok(Icmpv4Type::DestinationUnreachable(d)),
                    None => bad(),
                },
                ("redirect", [c, g]) => {
                    let g = hex_n::<4>(g)?;
                    match RedirectCode::from_u8(num(c)?) {
                        Some(code) => Ok(Icmpv4Type::Redirect(RedirectHeader {
                            code,
                            gateway_internet_address: g,
                        })),
                        None => bad(),
                    }
                }
                ("te", [c]) => match TimeExceededCode::from_u8(num(c)?) {
                    Some(code) => Ok(Icmpv4Type::TimeExceeded(code)),
                    None => bad(),
                },
                ("pp", [c, p]) => match ParameterProblemHeader::from_values(num(c)?, num(p)?) {
                    Some(x) => Ok(Icmpv4Type::ParameterProblem(x)),
                    None => bad(),
                },
                ("tsreq", [i, s, o, r, t]) => Ok(Icmpv4Type::TimestampRequest(TimestampMessage {
                    id: num(i)?,
                    seq: num(s)?,
                    originate_timestamp: num(o)?,
                    receive_timestamp: num(r)?,
                    transmit_timestamp: num(t)?,
                })),
                ("tsreply", [i, s, o, r, t]) => Ok(Icmpv4Type::TimestampReply(TimestampMessage {
                    id: num(i)?,
                    seq: num(s)?,
                    originate_timestamp: num(o)?,
                    receive_timestamp: num(r)?,
                    transmit_timestamp: num(t)?,
                })),
                _ => return None,
            };
            Some(ty.map(|icmp_type| Icmpv4Header {
                icmp_type,
                checksum: ck,
            }))
        }
        _ => None,
    }
}
fn dec_icmpv4(b: &[u8]) -> Dec<'_> {
    Icmpv4Header::from_slice(b)
        .map(|(h, r)| {
            let bad = h.icmp_type.header_len() != h.header_len() || h.header_len() != h.to_bytes().len();
            (format!("{}{}{}", show_icmpv4(&h), tp_wrap(TransportHeader::Icmpv4(h.clone()), &h.to_bytes()), if bad { "!routes-differ(icmp_type_header_len)" } else { "" }), r)
        })
        .map_err(|e| len_err(&e))
}

// ---------------------------------------------------------------------------------------------
// ICMPv6

fn show_icmpv6(h: &Icmpv6Header) -> String {
    use Icmpv6Type::*;
    let t = match &h.icmp_type {
        Unknown {
            type_u8,
            code_u8,
            bytes5to8,
        } => format!("unknown({},{},{})", type_u8, code_u8, to_hex(bytes5to8)),
        DestinationUnreachable(c) => format!("du({})", c.code_u8()),
        PacketTooBig { mtu } => format!("ptb({})", mtu),
        TimeExceeded(c) => format!("te({})", c.code_u8()),
        ParameterProblem(p) => format!("pp({},{})", p.code.code_u8(), p.pointer),
        EchoRequest(e) => format!("echoreq({},{})", e.id, e.seq),
        EchoReply(e) => format!("echoreply({},{})", e.id, e.seq),
        RouterSolicitation => "rs".to_string(),
        RouterAdvertisement(r) => format!(
            "ra({},{},{},{})",
            r.cur_hop_limit,
            sb(r.managed_address_config),
            sb(r.other_config),
            r.router_lifetime
        ),
        NeighborSolicitation => "ns".to_string(),
        NeighborAdvertisement(n) => {
            format!("na({},{},{})", sb(n.router), sb(n.solicited), sb(n.r#override))
        }
        Redirect => "redirect".to_string(),
    };
    format!("ty={},ck={}", t, h.checksum)
}
fn mk_icmpv6(a: &[&str]) -> Option<Result<Icmpv6Header, String>> {
    use icmpv6::*;
    match a {
        [ck, v, args] => {
            let ck: u16 = num(ck)?;
            let l = list(args);
            let bad = || Err("err(code)".to_string());
            let ty: Result<Icmpv6Type, String> = match (*v, &l[..]) {
                ("unknown", [t, c, b]) => Ok(Icmpv6Type::Unknown {
                    type_u8: num(t)?,
                    code_u8: num(c)?,
                    bytes5to8: hex_n::<4>(b)?,
                }),
                ("du", [c]) => match DestUnreachableCode::from_u8(num(c)?) {
                    Some(code) => Ok(Icmpv6Type::DestinationUnreachable(code)),
                    None => bad(),
                },
                ("ptb", [m]) => Ok(Icmpv6Type::PacketTooBig { mtu: num(m)? }),
                ("te", [c]) => match TimeExceededCode::from_u8(num(c)?) {
                    Some(code) => Ok(Icmpv6Type::TimeExceeded(code)),
                    None => bad(),
                },
                ("pp", [c, p]) => {
                    let pointer: u32 = num(p)?;
                    match ParameterProblemCode::from_u8(num(c)?) {
                        Some(code) => Ok(Icmpv6Type::ParameterProblem(ParameterProblemHeader {
                            code,
                            pointer,
                        })),
                        None => bad(),
                    }
                }
                ("echoreq", [i, s]) => Ok(Icmpv6Type::EchoRequest(IcmpEchoHeader {
                    id: num(i)?,
                    seq: num(s)?,
                })),
                ("echoreply", [i, s]) => Ok(Icmpv6Type::EchoReply(IcmpEchoHeader {
                    id: num(i)?,
                    seq: num(s)?,
                })),
                ("rs", []) => Ok(Icmpv6Type::RouterSolicitation),
                ("ra", [c, m, o, lt]) => {
                    Ok(Icmpv6Type::RouterAdvertisement(RouterAdvertisementHeader {
                        cur_hop_limit: num(c)?,
                        managed_address_config: boolean(m)?,
                        other_config: boolean(o)?,
                        router_lifetime: num(lt)?,
                    }))
                }
                ("ns", []) => Ok(Icmpv6Type::NeighborSolicitation),
                ("na", [r, s, o]) => {
                    Ok(Icmpv6Type::NeighborAdvertisement(NeighborAdvertisementHeader {
                        router: boolean(r)?,
                        solicited: boolean(s)?,
                        r#override: boolean(o)?,
                    }))
                }
                ("redirect", []) => Ok(Icmpv6Type::Redirect),
                _ => return None,
            };
            Some(ty.map(|icmp_type| Icmpv6Header {
                icmp_type,
                checksum: ck,
            }))
        }
        _ => None,
    }
}
fn dec_icmpv6(b: &[u8]) -> Dec<'_> {
    Icmpv6Header::from_slice(b)
        .map(|(h, r)| {
            let bad = h.icmp_type.header_len() != h.header_len() || h.header_len() != h.to_bytes().len();
            (format!("{}{}{}", show_icmpv6(&h), tp_wrap(TransportHeader::Icmpv6(h.clone()), &h.to_bytes()), if bad { "!routes-differ(icmp_type_header_len)" } else { "" }), r)
        })
        .map_err(|e| len_err(&e))
}

// ---------------------------------------------------------------------------------------------
// IGMP

fn show_igmp(h: &IgmpHeader) -> String {
    use IgmpType::*;
    let t = match &h.igmp_type {
        MembershipQuery(t) => format!(
            "query({},{})",
            t.max_response_time,
            to_hex(&t.group_address.octets)
        ),
        MembershipQueryWithSources(t) => format!(
            "querysrc({},{},{},{},{})",
            t.max_response_code.0,
            to_hex(&t.group_address.octets),
            t.raw_byte_8,
            t.qqic,
            t.num_of_sources
        ),
        MembershipReportV1(t) => format!("reportv1({})", to_hex(&t.group_address.octets)),
        MembershipReportV2(t) => format!("reportv2({})", to_hex(&t.group_address.octets)),
        MembershipReportV3(t) => format!("reportv3({},{})", to_hex(&t.flags), t.num_of_records),
        LeaveGroup(t) => format!("leave({})", to_hex(&t.group_address.octets)),
        Unknown(t) => format!(
            "unknown({},{},{})",
            t.igmp_type,
            t.raw_byte_1,
            to_hex(&t.raw_bytes_4_7)
        ),
    };
    format!("ty={},ck={}", t, h.checksum)
}
fn mk_igmp(a: &[&str]) -> Option<IgmpHeader> {
    use igmp::*;
    match a {
        [ck, v, args] => {
            let ck: u16 = num(ck)?;
            let l = list(args);
            let ty = match (*v, &l[..]) {
                ("query", [m, g]) => IgmpType::MembershipQuery(MembershipQueryType {
                    max_response_time: num(m)?,
                    group_address: GroupAddress::new(hex_n::<4>(g)?),
                }),
                ("querysrc", [m, g, r, q, n]) => {
                    IgmpType::MembershipQueryWithSources(MembershipQueryWithSourcesHeader {
                        max_response_code: MaxResponseCode(num(m)?),
                        group_address: GroupAddress::new(hex_n::<4>(g)?),
                        raw_byte_8: num(r)?,
                        qqic: num(q)?,
                        num_of_sources: num(n)?,
                    })
                }
                ("reportv1", [g]) => IgmpType::MembershipReportV1(MembershipReportV1Type {
                    group_address: GroupAddress::new(hex_n::<4>(g)?),
                }),
                ("reportv2", [g]) => IgmpType::MembershipReportV2(MembershipReportV2Type {
                    group_address: GroupAddress::new(hex_n::<4>(g)?),
                }),
                ("reportv3", [f, n]) => IgmpType::MembershipReportV3(MembershipReportV3Header {
                    flags: hex_n::<2>(f)?,
                    num_of_records: num(n)?,
                }),
                ("leave", [g]) => IgmpType::LeaveGroup(LeaveGroupType {
                    group_address: GroupAddress::new(hex_n::<4>(g)?),
                }),
                ("unknown", [t, r, raw]) => IgmpType::Unknown(UnknownHeader {
                    igmp_type: num(t)?,
                    raw_byte_1: num(r)?,
                    raw_bytes_4_7: hex_n::<4>(raw)?,
                }),
                _ => return None,
            };
            Some(IgmpHeader {
                igmp_type: ty,
                checksum: ck,
            })
        }
        _ => None,
    }
}
fn dec_igmp(b: &[u8]) -> Dec<'_> {
    IgmpHeader::from_slice(b)
        .map(|(h, r)| (show_igmp(&h), r))
        .map_err(|e| len_err(&e))
}

fn show_igmprec(h: &igmp::ReportGroupRecordV3Header) -> String {
    format!(
        "rt={},aux={},n={},addr={}",
        h.record_type.0,
        h.aux_data_len,
        h.num_of_sources,
        to_hex(&h.multicast_address)
    )
}
fn mk_igmprec(a: &[&str]) -> Option<igmp::ReportGroupRecordV3Header> {
    match a {
        [r, x, n, d] => Some(igmp::ReportGroupRecordV3Header {
            record_type: igmp::ReportGroupRecordType(num(r)?),
            aux_data_len: num(x)?,
            num_of_sources: num(n)?,
            multicast_address: hex_n::<4>(d)?,
        }),
        _ => None,
    }
}
fn dec_igmprec(b: &[u8]) -> Dec<'_> {
    igmp::ReportGroupRecordV3Header::from_slice(b)
        .map(|(h, r)| (show_igmprec(&h), r))
        .map_err(|e| len_err(&e))
}

// ---------------------------------------------------------------------------------------------
// dispatch

fn write_vec(f: &dyn Fn(&mut Vec<u8>) -> Result<(), std::io::Error>) -> Option<Vec<u8>> {
    let mut v = Vec::new();
    match f(&mut v) {
        Ok(()) => Some(v),
        Err(_) => Some(b"io-error".to_vec()),
    }
}

macro_rules! from_op {
    ($a:expr, $from:expr, $show:expr, $tobytes:expr) => {{
        match $a {
            [h] => {
                let b = hex(h)?;
                Some(from_line(&b, &|s| {
                    let (h, rest) = $from(s)?;
                    Ok(($show(&h), $tobytes(&h), rest))
                }))
            }
            _ => None,
        }
    }};
}

pub fn run(op: &str, a: &[&str]) -> Option<String> {
    match op {
        "enc.eth2.to_bytes" => {
            let (f, t) = split_last(a)?;
            let t = hex(t)?;
            let h = mk_eth2(f)?;
            let b = h.to_bytes();
            let s = exact_slice(&b, h.header_len(), &|buf| {
                h.write_to_slice(buf)
                    .map(|r| r.len())
                    .map_err(|e| space_err(&e))
            });
            Some(enc_line(
                &b,
                write_vec(&|v| h.write(v)),
                Some(s),
                h.header_len(),
                &t,
                &dec_eth2,
            ))
        }
        "enc.eth2.from_slice" => from_op!(
            a,
            |s| Ethernet2Header::from_slice(s).map_err(|e| len_err(&e)),
            show_eth2,
            |h: &Ethernet2Header| h.to_bytes().to_vec()
        ),
        "enc.eth2.wslice" => {
            let (f, c) = split_last(a)?;
            let c: usize = num(c)?;
            if c > 1 << 20 {
                return None;
            }
            let h = mk_eth2(f)?;
            Some(wslice_line(c, &|buf| {
                h.write_to_slice(buf)
                    .map(|r| r.len())
                    .map_err(|e| space_err(&e))
            }))
        }
        "enc.vlan.to_bytes" => {
            let (f, t) = split_last(a)?;
            let t = hex(t)?;
            Some(match mk_vlan(f)? {
                Err(e) => e,
                Ok(h) => enc_line(
                    &h.to_bytes(),
                    write_vec(&|v| h.write(v)),
                    None,
                    h.header_len(),
                    &t,
                    &dec_vlan,
                ),
            })
        }
        "enc.vlan.from_slice" => from_op!(
            a,
            |s| SingleVlanHeader::from_slice(s).map_err(|e| len_err(&e)),
            show_vlan,
            |h: &SingleVlanHeader| h.to_bytes().to_vec()
        ),
        "enc.sll.to_bytes" => {
            let (f, t) = split_last(a)?;
            let t = hex(t)?;
            Some(match mk_sll(f)? {
                Err(e) => e,
                Ok(h) => {
                    let b = h.to_bytes();
                    let s = exact_slice(&b, h.header_len(), &|buf| {
                        h.write_to_slice(buf)
                            .map(|r| r.len())
                            .map_err(|e| space_err(&e))
                    });
                    enc_line(
                        &b,
                        write_vec(&|v| h.write(v)),
                        Some(s),
                        h.header_len(),
                        &t,
                        &dec_sll,
                    )
                }
            })
        }
        "enc.sll.from_slice" => from_op!(
            a,
            |s| LinuxSllHeader::from_slice(s).map_err(sll_slice_err),
            show_sll,
            |h: &LinuxSllHeader| h.to_bytes().to_vec()
        ),
        "enc.sll.wslice" => {
            let (f, c) = split_last(a)?;
            let c: usize = num(c)?;
            if c > 1 << 20 {
                return None;
            }
            Some(match mk_sll(f)? {
                Err(e) => e,
                Ok(h) => wslice_line(c, &|buf| {
                    h.write_to_slice(buf)
                        .map(|r| r.len())
                        .map_err(|e| space_err(&e))
                }),
            })
        }
        "enc.macsec.to_bytes" => {
            let (f, t) = split_last(a)?;
            let t = hex(t)?;
            Some(match mk_macsec(f)? {
                Err(e) => e,
                Ok(h) => enc_line(
                    &h.to_bytes(),
                    write_vec(&|v| h.write(v)),
                    None,
                    h.header_len(),
                    &t,
                    &dec_macsec,
                ),
            })
        }
        "enc.macsec.from_slice" => from_op!(a, macsec_from, show_macsec, |h: &MacsecHeader| h
            .to_bytes()
            .to_vec()),
        "enc.arp.to_bytes" => {
            let (f, t) = split_last(a)?;
            let t = hex(t)?;
            Some(match mk_arp(f)? {
                Err(e) => e,
                Ok(h) => enc_line(
                    &h.to_bytes(),
                    write_vec(&|v| h.write(v)),
                    None,
                    h.packet_len(),
                    &t,
                    &dec_arp,
                ),
            })
        }
        "enc.arp.from_slice" => {
            from_op!(a, arp_from, show_arp, |h: &ArpPacket| h.to_bytes().to_vec())
        }
        "enc.arpeth.to_bytes" => {
            let (f, t) = split_last(a)?;
            let t = hex(t)?;
            let h = mk_arpeth(f)?;
            Some(enc_line(
                &h.to_bytes(),
                Some(h.to_arp_packet().to_bytes().to_vec()),
                None,
                ArpEthIpv4Packet::LEN,
                &t,
                &dec_arpeth,
            ))
        }
        "enc.arpeth.from_slice" => from_op!(a, arpeth_from, show_arpeth, |h: &ArpEthIpv4Packet| h
            .to_bytes()
            .to_vec()),
        "enc.udp.to_bytes" => {
            let (f, t) = split_last(a)?;
            let t = hex(t)?;
            let h = mk_udp(f)?;
            Some(enc_line(
                &h.to_bytes(),
                write_vec(&|v| h.write(v)),
                None,
                h.header_len(),
                &t,
                &dec_udp,
            ))
        }
        "enc.udp.from_slice" => from_op!(
            a,
            |s| UdpHeader::from_slice(s).map_err(|e| len_err(&e)),
            show_udp,
            |h: &UdpHeader| h.to_bytes().to_vec()
        ),
        "enc.tcp.to_bytes" => {
            let (f, t) = split_last(a)?;
            let t = hex(t)?;
            Some(match mk_tcp(f)? {
                Err(e) => e,
                Ok(h) => enc_line(
                    &h.to_bytes(),
                    write_vec(&|v| h.write(v)),
                    None,
                    h.header_len(),
                    &t,
                    &dec_tcp,
                ),
            })
        }
        "enc.tcp.from_slice" => from_op!(
            a,
            |s| TcpHeader::from_slice(s).map_err(tcp_err),
            show_tcp,
            |h: &TcpHeader| h.to_bytes().to_vec()
        ),
        "enc.icmpv4.to_bytes" => {
            let (f, t) = split_last(a)?;
            let t = hex(t)?;
            Some(match mk_icmpv4(f)? {
                Err(e) => e,
                Ok(h) => enc_line(
                    &h.to_bytes(),
                    write_vec(&|v| h.write(v)),
                    None,
                    h.header_len(),
                    &t,
                    &dec_icmpv4,
                ),
            })
        }
        "enc.icmpv4.from_slice" => from_op!(
            a,
            |s| Icmpv4Header::from_slice(s).map_err(|e| len_err(&e)),
            show_icmpv4,
            |h: &Icmpv4Header| h.to_bytes().to_vec()
        ),
        "enc.icmpv6.to_bytes" => {
            let (f, t) = split_last(a)?;
            let t = hex(t)?;
            Some(match mk_icmpv6(f)? {
                Err(e) => e,
                Ok(h) => enc_line(
                    &h.to_bytes(),
                    write_vec(&|v| h.write(v)),
                    None,
                    h.header_len(),
                    &t,
                    &dec_icmpv6,
                ),
            })
        }
        "enc.icmpv6.from_slice" => from_op!(
            a,
            |s| Icmpv6Header::from_slice(s).map_err(|e| len_err(&e)),
            show_icmpv6,
            |h: &Icmpv6Header| h.to_bytes().to_vec()
        ),
        "enc.igmp.to_bytes" => {
            let (f, t) = split_last(a)?;
            let t = hex(t)?;
            let h = mk_igmp(f)?;
            Some(enc_line(
                &h.to_bytes(),
                None,
                None,
                h.header_len(),
                &t,
                &dec_igmp,
            ))
        }
        "enc.igmp.from_slice" => from_op!(
            a,
            |s| IgmpHeader::from_slice(s).map_err(|e| len_err(&e)),
            show_igmp,
            |h: &IgmpHeader| h.to_bytes().to_vec()
        ),
        "enc.igmprec.to_bytes" => {
            let (f, t) = split_last(a)?;
            let t = hex(t)?;
            let h = mk_igmprec(f)?;
            Some(enc_line(
                &h.to_bytes(),
                None,
                None,
                igmp::ReportGroupRecordV3Header::LEN,
                &t,
                &dec_igmprec,
            ))
        }
        "enc.igmprec.from_slice" => from_op!(
            a,
            |s| igmp::ReportGroupRecordV3Header::from_slice(s).map_err(|e| len_err(&e)),
            show_igmprec,
            |h: &igmp::ReportGroupRecordV3Header| h.to_bytes().to_vec()
        ),
        _ => None,
    }
}
