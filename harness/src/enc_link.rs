//! part of the `enc.*` family (stub; filled in by the owner).
#![allow(unused_imports, dead_code)]
use crate::util::*;

pub fn run(_op: &str, _a: &[&str]) -> Option<String> {
    None
}
