//! `ck.*` operations: checksum helpers of etherparse::checksum.
use crate::util::*;
use etherparse::checksum::{u32_16bit_word, u64_16bit_word, Sum16BitWords};

pub fn run(op: &str, a: &[&str]) -> Option<String> {
    Some(match (op, a) {
        ("ck.slice64", [s, h]) => u64_16bit_word::add_slice(num(s)?, &hex(h)?).to_string(),
        ("ck.slice32", [s, h]) => u32_16bit_word::add_slice(num(s)?, &hex(h)?).to_string(),
        ("ck.add8_64", [s, h]) => {
            u64_16bit_word::add_8bytes(num(s)?, hex(h)?.try_into().ok()?).to_string()
        }
        ("ck.add4_64", [s, h]) => {
            u64_16bit_word::add_4bytes(num(s)?, hex(h)?.try_into().ok()?).to_string()
        }
        ("ck.add2_64", [s, h]) => {
            u64_16bit_word::add_2bytes(num(s)?, hex(h)?.try_into().ok()?).to_string()
        }
        ("ck.add4_32", [s, h]) => {
            u32_16bit_word::add_4bytes(num(s)?, hex(h)?.try_into().ok()?).to_string()
        }
        ("ck.add2_32", [s, h]) => {
            u32_16bit_word::add_2bytes(num(s)?, hex(h)?.try_into().ok()?).to_string()
        }
        ("ck.oc64", [s]) => u64_16bit_word::ones_complement(num(s)?).to_string(),
        ("ck.oc32", [s]) => u32_16bit_word::ones_complement(num(s)?).to_string(),
        ("ck.ocnz64", [s]) => u64_16bit_word::ones_complement_with_no_zero(num(s)?).to_string(),
        ("ck.ocnz32", [s]) => u32_16bit_word::ones_complement_with_no_zero(num(s)?).to_string(),
        ("ck.sum16", parts) => {
            let mut s = Sum16BitWords::new();
            for p in parts.iter() {
                s = s.add_slice(&hex(p)?);
            }
            format!(
                "{} {}",
                s.ones_complement().to_be(),
                s.to_ones_complement_with_no_zero().to_be()
            )
        }
        _ => return None,
    })
}
