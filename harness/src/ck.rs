//! `ck.*` operations: checksum helpers of etherparse::checksum.
use crate::util::*;
use etherparse::checksum::{u32_16bit_word, u64_16bit_word, Sum16BitWords};
use etherparse::*;

fn arr<const N: usize>(s: &str) -> Option<[u8; N]> {
    hex(s)?.try_into().ok()
}

/// all routes to one checksum must agree; prints the value or every route
fn same(vals: &[(&str, String)]) -> String {
    if vals.iter().all(|v| v.1 == vals[0].1) {
        vals[0].1.clone()
    } else {
        format!(
            "routes-differ({})",
            vals.iter().map(|(n, v)| format!("{}={}", n, v)).collect::<Vec<_>>().join(",")
        )
    }
}

fn r16<E>(r: Result<u16, E>) -> String {
    match r {
        Ok(v) => format!("ok({})", v),
        Err(_) => "err".to_string(),
    }
}

pub fn run(op: &str, a: &[&str]) -> Option<String> {
    Some(match (op, a) {
        ("ck.slice64", [s, h]) => u64_16bit_word::add_slice(num(s)?, &hex(h)?).to_string(),
        ("ck.slice32", [s, h]) => u32_16bit_word::add_slice(num(s)?, &hex(h)?).to_string(),
        ("ck.add8_64", [s, h]) => {
            u64_16bit_word::add_8bytes(num(s)?, hex(h)?.try_into().ok()?).to_string()
        }
        ("ck.add4_64", [s, h]) => {
            u64_16bit_word::add_4bytes(num(s)?, hex(h)?.try_into().ok()?).to_string()
        }
        ("ck.add2_64", [s, h]) => {
            u64_16bit_word::add_2bytes(num(s)?, hex(h)?.try_into().ok()?).to_string()
        }
        ("ck.add4_32", [s, h]) => {
            u32_16bit_word::add_4bytes(num(s)?, hex(h)?.try_into().ok()?).to_string()
        }
        ("ck.add2_32", [s, h]) => {
            u32_16bit_word::add_2bytes(num(s)?, hex(h)?.try_into().ok()?).to_string()
        }
        ("ck.oc64", [s]) => u64_16bit_word::ones_complement(num(s)?).to_string(),
        ("ck.oc32", [s]) => u32_16bit_word::ones_complement(num(s)?).to_string(),
        ("ck.ocnz64", [s]) => u64_16bit_word::ones_complement_with_no_zero(num(s)?).to_string(),
        ("ck.ocnz32", [s]) => u32_16bit_word::ones_complement_with_no_zero(num(s)?).to_string(),
        ("ck.sum16", parts) => {
            let mut s = Sum16BitWords::new();
            for p in parts.iter() {
                s = s.add_slice(&hex(p)?);
            }
            format!(
                "{} {}",
                s.ones_complement().to_be(),
                s.to_ones_complement_with_no_zero().to_be()
            )
        }
        // Sum16BitWords method chain: each part goes through the method of its size
        // (2 -> add_2bytes, 4 -> add_4bytes, 8 -> add_8bytes, 16 -> add_16bytes, else add_slice)
        ("ck.s16", parts) => {
            let mut s = Sum16BitWords::new();
            for p in parts.iter() {
                let b = hex(p)?;
                s = match b.len() {
                    2 => s.add_2bytes(b.clone().try_into().ok()?),
                    4 => s.add_4bytes(b.clone().try_into().ok()?),
                    8 => s.add_8bytes(b.clone().try_into().ok()?),
                    16 => s.add_16bytes(b.clone().try_into().ok()?),
                    _ => s.add_slice(&b),
                };
            }
            format!(
                "{} {}",
                s.ones_complement().to_be(),
                s.to_ones_complement_with_no_zero().to_be()
            )
        }
        // IPv4 header checksum from the wire bytes of a header
        ("ck.w.ipv4", [h]) => {
            let b = hex(h)?;
            match Ipv4Header::from_slice(&b) {
                Err(_) => "err".to_string(),
                Ok((hdr, _)) => {
                    let via_slice = Ipv4HeaderSlice::from_slice(&b)
                        .map(|s| s.to_header().calc_header_checksum());
                    let mut stored = hdr.clone();
                    stored.header_checksum = stored.calc_header_checksum();
                    let wire = stored.to_bytes();
                    let hl = hdr.header_len();
                    if wire[..10] != b[..10] || wire[12..hl] != b[12..hl] {
                        return Some(format!("reencode-differs({})", to_hex(&wire)));
                    }
                    // `write` fills the checksum in itself, whatever the struct holds (here: the input's bytes)
                    let mut w1: Vec<u8> = Vec::new();
                    let w1r = hdr.write(&mut w1).map(|_| u16::from_be_bytes([w1[10], w1[11]]));
                    let mut w2: Vec<u8> = Vec::new();
                    let w2r = IpHeaders::Ipv4(hdr.clone(), Default::default())
                        .write(&mut w2)
                        .map(|_| u16::from_be_bytes([w2[10], w2[11]]));
                    same(&[
                        ("struct", format!("ok({})", hdr.calc_header_checksum())),
                        ("slice", r16(via_slice)),
                        ("to_bytes", format!("ok({})", u16::from_be_bytes([wire[10], wire[11]]))),
                        ("write", r16(w1r)),
                        ("ip_headers_write", r16(w2r)),
                    ])
                }
            }
        }
        // UDP: header bytes, addresses, payload
        ("ck.w.udp4", [src, dst, h, pl]) => {
            let (src, dst, hb, pl) = (arr::<4>(src)?, arr::<4>(dst)?, hex(h)?, hex(pl)?);
            let hdr = UdpHeader::from_slice(&hb).ok()?.0;
            let ip = Ipv4Header::new(0, 64, IpNumber::UDP, src, dst).ok()?;
            let mut th = TransportHeader::Udp(hdr.clone());
            let upd = th
                .update_checksum_ipv4(&ip, &pl)
                .map(|_| th.clone().udp().unwrap().checksum);
            let with = UdpHeader::with_ipv4_checksum(hdr.source_port, hdr.destination_port, &ip, &pl)
                .map(|h| h.checksum);
            same(&[
                ("raw", r16(hdr.calc_checksum_ipv4_raw(src, dst, &pl))),
                ("hdr", r16(hdr.calc_checksum_ipv4(&ip, &pl))),
                ("update", r16(upd)),
                ("with", r16(with)),
            ])
        }
        ("ck.w.udp6", [src, dst, h, pl]) => {
            let (src, dst, hb, pl) = (arr::<16>(src)?, arr::<16>(dst)?, hex(h)?, hex(pl)?);
            let hdr = UdpHeader::from_slice(&hb).ok()?.0;
            let ip = Ipv6Header {
                source: src,
                destination: dst,
                next_header: IpNumber::UDP,
                ..Default::default()
            };
            let mut th = TransportHeader::Udp(hdr.clone());
            let upd = th
                .update_checksum_ipv6(&ip, &pl)
                .map(|_| th.clone().udp().unwrap().checksum);
            let with = UdpHeader::with_ipv6_checksum(hdr.source_port, hdr.destination_port, &ip, &pl)
                .map(|h| h.checksum);
            same(&[
                ("raw", r16(hdr.calc_checksum_ipv6_raw(src, dst, &pl))),
                ("hdr", r16(hdr.calc_checksum_ipv6(&ip, &pl))),
                ("update", r16(upd)),
                ("with", r16(with)),
            ])
        }
        // TCP: header bytes (with options), addresses, payload; struct, header slice and slice
        ("ck.w.tcp4", [src, dst, h, pl]) => {
            let (src, dst, hb, pl) = (arr::<4>(src)?, arr::<4>(dst)?, hex(h)?, hex(pl)?);
            let hdr = TcpHeader::from_slice(&hb).ok()?.0;
            let hs = TcpHeaderSlice::from_slice(&hb).ok()?;
            let mut all = hb.clone();
            all.extend_from_slice(&pl);
            let ts = TcpSlice::from_slice(&all).ok()?;
            let ip = Ipv4Header::new(0, 64, IpNumber::TCP, src, dst).ok()?;
            if hdr.to_bytes().as_slice() != hb.as_slice() {
                // bits the struct does not hold (reserved bits of octet 12): only the routes that sum the wire bytes
                let mut canon = hb.clone();
                canon[12] &= 0xf1;
                if hdr.to_bytes().as_slice() != canon.as_slice() {
                    return Some(format!("reencode-differs({})", to_hex(&hdr.to_bytes())));
                }
                return Some(same(&[
                    ("hslice", r16(hs.calc_checksum_ipv4_raw(src, dst, &pl))),
                    ("hslice_ip", r16(hs.calc_checksum_ipv4(&Ipv4HeaderSlice::from_slice(&ip.to_bytes()).ok()?, &pl))),
                    ("slice", r16(ts.calc_checksum_ipv4(src, dst))),
                ]));
            }
            let mut th = TransportHeader::Tcp(hdr.clone());
            let upd = th
                .update_checksum_ipv4(&ip, &pl)
                .map(|_| th.clone().tcp().unwrap().checksum);
            same(&[
                ("raw", r16(hdr.calc_checksum_ipv4_raw(src, dst, &pl))),
                ("hdr", r16(hdr.calc_checksum_ipv4(&ip, &pl))),
                ("hslice", r16(hs.calc_checksum_ipv4_raw(src, dst, &pl))),
                ("hslice_ip", r16(hs.calc_checksum_ipv4(
                    &Ipv4HeaderSlice::from_slice(&ip.to_bytes()).ok()?,
                    &pl,
                ))),
                ("slice", r16(ts.calc_checksum_ipv4(src, dst))),
                ("update", r16(upd)),
            ])
        }
        ("ck.w.tcp6", [src, dst, h, pl]) => {
            let (src, dst, hb, pl) = (arr::<16>(src)?, arr::<16>(dst)?, hex(h)?, hex(pl)?);
            let hdr = TcpHeader::from_slice(&hb).ok()?.0;
            let hs = TcpHeaderSlice::from_slice(&hb).ok()?;
            let mut all = hb.clone();
            all.extend_from_slice(&pl);
            let ts = TcpSlice::from_slice(&all).ok()?;
            let ip = Ipv6Header {
                source: src,
                destination: dst,
                next_header: IpNumber::TCP,
                ..Default::default()
            };
            if hdr.to_bytes().as_slice() != hb.as_slice() {
                let mut canon = hb.clone();
                canon[12] &= 0xf1;
                if hdr.to_bytes().as_slice() != canon.as_slice() {
                    return Some(format!("reencode-differs({})", to_hex(&hdr.to_bytes())));
                }
                return Some(same(&[
                    ("hslice", r16(hs.calc_checksum_ipv6_raw(src, dst, &pl))),
                    ("hslice_ip", r16(hs.calc_checksum_ipv6(&Ipv6HeaderSlice::from_slice(&ip.to_bytes()).ok()?, &pl))),
                    ("slice", r16(ts.calc_checksum_ipv6(src, dst))),
                ]));
            }
            let mut th = TransportHeader::Tcp(hdr.clone());
            let upd = th
                .update_checksum_ipv6(&ip, &pl)
                .map(|_| th.clone().tcp().unwrap().checksum);
            same(&[
                ("raw", r16(hdr.calc_checksum_ipv6_raw(src, dst, &pl))),
                ("hdr", r16(hdr.calc_checksum_ipv6(&ip, &pl))),
                ("hslice", r16(hs.calc_checksum_ipv6_raw(src, dst, &pl))),
                ("hslice_ip", r16(hs.calc_checksum_ipv6(&Ipv6HeaderSlice::from_slice(&ip.to_bytes()).ok()?, &pl))),
                ("slice", r16(ts.calc_checksum_ipv6(src, dst))),
                ("update", r16(upd)),
            ])
        }
        // ICMPv4: a whole message whose header re-encodes to the same bytes
        ("ck.w.icmp4", [m]) | ("ck.w.icmp4", [m, _]) => {
            let b = hex(m)?;
            // optional second argument: bytes behind the message that the checksum functions are handed as (part
            // of the) payload although the decoder would not accept them there (a timestamp message is 20 bytes)
            let extra = if a.len() == 2 { hex(a[1])? } else { Vec::new() };
            let s = Icmpv4Slice::from_slice(&b).ok()?;
            let hdr = s.header();
            let hl = hdr.header_len();
            if hdr.to_bytes().as_slice() != &b[..hl] {
                return Some(format!("reencode-differs({})", to_hex(&hdr.to_bytes())));
            }
            let mut plv = s.payload().to_vec();
            plv.extend_from_slice(&extra);
            let pl = &plv[..];
            let mut upd = hdr.clone();
            upd.checksum = 0;
            upd.update_checksum(pl);
            let mut th = TransportHeader::Icmpv4(hdr.clone());
            let ip = Ipv4Header::new(0, 64, IpNumber::ICMP, [1, 2, 3, 4], [5, 6, 7, 8]).ok()?;
            let upd2 = th
                .update_checksum_ipv4(&ip, pl)
                .map(|_| th.clone().icmpv4().unwrap().checksum);
            same(&[
                ("type", format!("ok({})", hdr.icmp_type.calc_checksum(pl))),
                ("with", format!("ok({})", Icmpv4Header::with_checksum(hdr.icmp_type.clone(), pl).checksum)),
                ("update", format!("ok({})", upd.checksum)),
                ("transport", r16(upd2)),
            ])
        }
        // ICMPv6: addresses and a whole message; checksum and the validation of the stored one
        ("ck.w.icmp6", [src, dst, m]) => {
            let (src, dst, b) = (arr::<16>(src)?, arr::<16>(dst)?, hex(m)?);
            let s = Icmpv6Slice::from_slice(&b).ok()?;
            let hdr = s.header();
            let hl = hdr.header_len();
            if hdr.to_bytes().as_slice() != &b[..hl] {
                return Some(format!("reencode-differs({})", to_hex(&hdr.to_bytes())));
            }
            let pl = s.payload();
            let mut upd = hdr.clone();
            upd.checksum = 0;
            let updr = upd.update_checksum(src, dst, pl).map(|_| upd.checksum);
            let ip = Ipv6Header {
                source: src,
                destination: dst,
                next_header: IpNumber::IPV6_ICMP,
                ..Default::default()
            };
            let mut th = TransportHeader::Icmpv6(hdr.clone());
            let upd2 = th
                .update_checksum_ipv6(&ip, pl)
                .map(|_| th.clone().icmpv6().unwrap().checksum);
            format!(
                "{} valid={}",
                same(&[
                    ("type", r16(hdr.icmp_type.calc_checksum(src, dst, pl))),
                    ("with", r16(Icmpv6Header::with_checksum(hdr.icmp_type.clone(), src, dst, pl).map(|h| h.checksum))),
                    ("update", r16(updr)),
                    ("transport", r16(upd2)),
                ]),
                s.is_checksum_valid(src, dst)
            )
        }
        // IGMP: a whole message whose header re-encodes to the same bytes
        ("ck.w.igmp", [m]) => {
            let b = hex(m)?;
            let (hdr, pl) = IgmpHeader::from_slice(&b).ok()?;
            let hb = hdr.to_bytes();
            if hb.as_slice() != &b[..hb.len()] {
                return Some(format!("reencode-differs({})", to_hex(&hb)));
            }
            same(&[
                ("calc", format!("ok({})", hdr.calc_checksum(pl))),
                ("with", format!("ok({})", IgmpHeader::with_checksum(hdr.igmp_type.clone(), pl).checksum)),
            ])
        }
        _ => return None,
    })
}
