//! `ext.*` operations: the extension header chain walkers of `Ipv6Extensions` / `Ipv4Extensions`
//! and the ether type bookkeeping of `IpHeaders` / `NetHeaders` (property C12).
//!
//! Textual value `<exts>`: six comma separated slots
//!   hop-by-hop , destination options , routing , final destination options , fragment , auth
//! each `-` or `nh:payloadhex` (raw), `nh:offset:more:id` (fragment), `nh:spi:seq:icvhex` (auth).
use crate::util::*;
use etherparse::*;

fn parse_raw(s: &str) -> Option<Option<Ipv6RawExtHeader>> {
    if s == "-" {
        return Some(None);
    }
    let p: Vec<&str> = s.split(':').collect();
    if p.len() != 2 {
        return None;
    }
    let nh: u8 = num(p[0])?;
    let pl = hex(p[1])?;
    Some(Some(Ipv6RawExtHeader::new_raw(IpNumber(nh), &pl).ok()?))
}

fn parse_frag(s: &str) -> Option<Option<Ipv6FragmentHeader>> {
    if s == "-" {
        return Some(None);
    }
    let p: Vec<&str> = s.split(':').collect();
    if p.len() != 4 {
        return None;
    }
    let nh: u8 = num(p[0])?;
    let off: u16 = num(p[1])?;
    let more = match p[2] {
        "0" => false,
        "1" => true,
        _ => return None,
    };
    let id: u32 = num(p[3])?;
    Some(Some(Ipv6FragmentHeader::new(
        IpNumber(nh),
        IpFragOffset::try_new(off).ok()?,
        more,
        id,
    )))
}

fn parse_auth(s: &str) -> Option<Option<IpAuthHeader>> {
    if s == "-" {
        return Some(None);
    }
    let p: Vec<&str> = s.split(':').collect();
    if p.len() != 4 {
        return None;
    }
    let nh: u8 = num(p[0])?;
    let spi: u32 = num(p[1])?;
    let seq: u32 = num(p[2])?;
    let icv = hex(p[3])?;
    Some(Some(IpAuthHeader::new(IpNumber(nh), spi, seq, &icv).ok()?))
}

fn parse_exts(s: &str) -> Option<Ipv6Extensions> {
    let p: Vec<&str> = s.split(',').collect();
    if p.len() != 6 {
        return None;
    }
    let hop = parse_raw(p[0])?;
    let dest = parse_raw(p[1])?;
    let route = parse_raw(p[2])?;
    let fin = parse_raw(p[3])?;
    let frag = parse_frag(p[4])?;
    let auth = parse_auth(p[5])?;
    let routing = match (route, fin) {
        (Some(r), f) => Some(Ipv6RoutingExtensions {
            routing: r,
            final_destination_options: f,
        }),
        (None, None) => None,
        (None, Some(_)) => return None,
    };
    Some(Ipv6Extensions {
        hop_by_hop_options: hop,
        destination_options: dest,
        routing,
        fragment: frag,
        auth,
    })
}

fn show_raw(h: Option<&Ipv6RawExtHeader>) -> String {
    match h {
        None => "-".to_string(),
        Some(h) => format!("{}:{}", h.next_header.0, to_hex(h.payload())),
    }
}

fn show_frag(h: Option<&Ipv6FragmentHeader>) -> String {
    match h {
        None => "-".to_string(),
        Some(h) => format!(
            "{}:{}:{}:{}",
            h.next_header.0,
            h.fragment_offset.value(),
            if h.more_fragments { 1 } else { 0 },
            h.identification
        ),
    }
}

fn show_auth(h: Option<&IpAuthHeader>) -> String {
    match h {
        None => "-".to_string(),
        Some(h) => format!(
            "{}:{}:{}:{}",
            h.next_header.0,
            h.spi,
            h.sequence_number,
            to_hex(h.raw_icv())
        ),
    }
}

fn show_exts(e: &Ipv6Extensions) -> String {
    format!(
        "{},{},{},{},{},{}",
        show_raw(e.hop_by_hop_options.as_ref()),
        show_raw(e.destination_options.as_ref()),
        show_raw(e.routing.as_ref().map(|r| &r.routing)),
        show_raw(
            e.routing
                .as_ref()
                .and_then(|r| r.final_destination_options.as_ref())
        ),
        show_frag(e.fragment.as_ref()),
        show_auth(e.auth.as_ref())
    )
}

fn show_walk6(e: &err::ipv6_exts::ExtsWalkError) -> String {
    use err::ipv6_exts::ExtsWalkError::*;
    match e {
        HopByHopNotAtStart => "HopByHopNotAtStart".to_string(),
        ExtNotReferenced { missing_ext } => format!("ExtNotReferenced({})", missing_ext.0),
    }
}

fn show_walk4(e: &err::ipv4_exts::ExtsWalkError) -> String {
    use err::ipv4_exts::ExtsWalkError::*;
    match e {
        ExtNotReferenced { missing_ext } => format!("ExtNotReferenced({})", missing_ext.0),
    }
}

fn show_len(e: &err::LenError) -> String {
    format!(
        "len(req={},len={},src={:?},layer={:?},off={})",
        e.required_len, e.len, e.len_source, e.layer, e.layer_start_offset
    )
}

fn ipv4_hdr() -> Ipv4Header {
    let mut h: Ipv4Header = Default::default();
    h.protocol = IpNumber(255);
    h
}

fn ipv6_hdr() -> Ipv6Header {
    let mut h: Ipv6Header = Default::default();
    h.next_header = IpNumber(255);
    h
}

fn write6(e: &Ipv6Extensions, first: u8) -> String {
    let mut out: Vec<u8> = Vec::new();
    match e.write(&mut out, IpNumber(first)) {
        Ok(()) => format!("ok({})", to_hex(&out)),
        Err(err::ipv6_exts::HeaderWriteError::Content(err)) => {
            format!("err({},written={})", show_walk6(&err), to_hex(&out))
        }
        Err(err::ipv6_exts::HeaderWriteError::Io(err)) => format!("io({:?})", err.kind()),
    }
}

fn write4(e: &Ipv4Extensions, first: u8) -> String {
    let mut out: Vec<u8> = Vec::new();
    match e.write(&mut out, IpNumber(first)) {
        Ok(()) => format!("ok({})", to_hex(&out)),
        Err(err::ipv4_exts::HeaderWriteError::Content(err)) => {
            format!("err({},written={})", show_walk4(&err), to_hex(&out))
        }
        Err(err::ipv4_exts::HeaderWriteError::Io(err)) => format!("io({:?})", err.kind()),
    }
}

fn from_slice6(first: u8, b: &[u8]) -> String {
    let r = Ipv6Extensions::from_slice(IpNumber(first), b);
    let main = match &r {
        Ok((e, next, rest)) => format!(
            "ok({},next={},rest={},header_len={})",
            show_exts(e),
            next.0,
            win(b, rest),
            e.header_len()
        ),
        Err(err) => {
            use err::ipv6_exts::{HeaderError as H, HeaderSliceError as S};
            match err {
                S::Len(l) => format!("err({})", show_len(l)),
                S::Content(H::HopByHopNotAtStart) => "err(content(HopByHopNotAtStart))".to_string(),
                S::Content(H::IpAuth(a)) => format!("err(content(IpAuth({:?})))", a),
            }
        }
    };
    // the sibling decoders of the same chain must give the same answer: the reader based `read` and
    // `read_limited`, and `IpSlice::to_header` on an IPv6 packet that carries the chain
    let canon = |e: &Ipv6Extensions, next: IpNumber, used: usize| {
        format!("ok({},next={},used={})", show_exts(e), next.0, used)
    };
    let want = match &r {
        Ok((e, next, rest)) => canon(e, *next, b.len() - rest.len()),
        Err(err) => {
            use err::ipv6_exts::{HeaderError as H, HeaderSliceError as S};
            match err {
                S::Len(_) => "err(short)".to_string(),
                S::Content(H::HopByHopNotAtStart) => "err(content(HopByHopNotAtStart))".to_string(),
                S::Content(H::IpAuth(a)) => format!("err(content(IpAuth({:?})))", a),
            }
        }
    };
    let mut diffs: Vec<String> = Vec::new();
    {
        use err::ipv6_exts::{HeaderError as H, HeaderReadError as R};
        let mut c = std::io::Cursor::new(b);
        let got = match Ipv6Extensions::read(&mut c, IpNumber(first)) {
            Ok((e, next)) => canon(&e, next, c.position() as usize),
            Err(R::Io(_)) => "err(short)".to_string(),
            Err(R::Content(H::HopByHopNotAtStart)) => "err(content(HopByHopNotAtStart))".to_string(),
            Err(R::Content(H::IpAuth(a))) => format!("err(content(IpAuth({:?})))", a),
        };
        if got != want {
            diffs.push(format!("read={}", got));
        }
    }
    {
        use err::ipv6_exts::{HeaderError as H, HeaderLimitedReadError as R};
        let mut c = etherparse::io::LimitedReader::new(
            std::io::Cursor::new(b),
            b.len(),
            LenSource::Slice,
            0,
            err::Layer::Ipv6Header,
        );
        let got = match Ipv6Extensions::read_limited(&mut c, IpNumber(first)) {
            Ok((e, next)) => {
                let used = c.layer_offset() + c.read_len();
                canon(&e, next, used)
            }
            Err(R::Io(_)) | Err(R::Len(_)) => "err(short)".to_string(),
            Err(R::Content(H::HopByHopNotAtStart)) => "err(content(HopByHopNotAtStart))".to_string(),
            Err(R::Content(H::IpAuth(a))) => format!("err(content(IpAuth({:?})))", a),
        };
        if got != want {
            diffs.push(format!("read_limited={}", got));
        }
    }
    if b.len() <= 0xffff {
        let mut pkt = vec![0x60u8, 0, 0, 0];
        pkt.extend_from_slice(&(b.len() as u16).to_be_bytes());
        pkt.extend_from_slice(&[first, 64]);
        pkt.extend_from_slice(&[0u8; 32]);
        pkt.extend_from_slice(b);
        // payload_length 0 means "rest of the slice"; with b empty that is the same thing
        if let (Ok(ip), Ok((e, next, rest))) = (IpSlice::from_slice(&pkt), &r) {
            if let IpHeaders::Ipv6(_, e3) = ip.to_header() {
                if show_exts(&e3) != show_exts(e) {
                    diffs.push(format!("ip_slice_to_header={}", show_exts(&e3)));
                }
            }
            // where the struct holds the whole chain (nothing of it left in `rest`: the number behind it is none of the
            // decoded kinds), every door names the same number behind the chain
            let whole = !matches!(next.0, 0 | 43 | 44 | 51 | 60) || rest.is_empty();
            if whole {
                let nums = [
                    ("ip_slice", ip.payload_ip_number()),
                    ("ip_slice_payload", ip.payload().ip_number),
                    ("ip_headers_slice", ip.header().payload_ip_number()),
                    ("ip_headers_from_slice", IpHeaders::from_slice(&pkt).map(|x| x.1.ip_number).unwrap_or(IpNumber(255))),
                    ("ip_headers_next_header", ip.to_header().next_header().unwrap_or(IpNumber(255))),
                    ("lax_ip_slice", LaxIpSlice::from_slice(&pkt).map(|x| x.0.payload_ip_number()).unwrap_or(*next)),
                    ("lax_ip_slice_payload", LaxIpSlice::from_slice(&pkt).map(|x| x.0.payload().ip_number).unwrap_or(*next)),
                ];
                for (name, n) in nums {
                    // (next_header() walks the struct and demands a referenced chain; the others read the bytes)
                    if n != *next && !(name == "ip_headers_next_header" && n == IpNumber(255)) && !(name == "ip_headers_from_slice" && n == IpNumber(255)) {
                        diffs.push(format!("{}_number={}", name, n.0));
                    }
                }
            }
        }
    }
    if diffs.is_empty() {
        main
    } else {
        format!("{}!decoders-differ({})", main, diffs.join(";"))
    }
}

fn from_slice4(first: u8, b: &[u8]) -> String {
    match Ipv4Extensions::from_slice(IpNumber(first), b) {
        Ok((e, next, rest)) => {
            // the number behind the chain through every door of an IPv4 packet that carries these bytes
            let mut diffs: Vec<String> = Vec::new();
            if b.len() <= 0xffff - 20 {
                let mut pkt = vec![0x45u8, 0];
                pkt.extend_from_slice(&((20 + b.len()) as u16).to_be_bytes());
                pkt.extend_from_slice(&[0, 0, 0, 0, 64, first, 0, 0, 10, 0, 0, 1, 10, 0, 0, 2]);
                pkt.extend_from_slice(b);
                let mut nums: Vec<(&str, IpNumber)> = Vec::new();
                if let Ok(ip) = IpSlice::from_slice(&pkt) {
                    nums.push(("ip_slice", ip.payload_ip_number()));
                    nums.push(("ip_slice_payload", ip.payload().ip_number));
                    nums.push(("ip_headers_slice", ip.header().payload_ip_number()));
                }
                if let Ok(ip) = Ipv4Slice::from_slice(&pkt) {
                    nums.push(("ipv4_slice", ip.payload_ip_number()));
                }
                if let Ok((ip, _)) = LaxIpSlice::from_slice(&pkt) {
                    nums.push(("lax_ip_slice", ip.payload_ip_number()));
                    nums.push(("lax_ip_slice_payload", ip.payload().ip_number));
                }
                if let Ok((ip, _)) = LaxIpv4Slice::from_slice(&pkt) {
                    nums.push(("lax_ipv4_slice", ip.payload_ip_number()));
                }
                if let Ok((_, pl)) = IpHeaders::from_slice(&pkt) {
                    nums.push(("ip_headers_from_slice", pl.ip_number));
                }
                if let Ok((_, pl, _)) = IpHeaders::from_slice_lax(&pkt) {
                    nums.push(("ip_headers_from_slice_lax", pl.ip_number));
                }
                for (name, n) in nums {
                    if n != next {
                        diffs.push(format!("{}_number={}", name, n.0));
                    }
                }
            }
            format!(
                "ok({},next={},rest={},header_len={}){}",
                show_auth(e.auth.as_ref()),
                next.0,
                win(b, rest),
                e.header_len(),
                if diffs.is_empty() { String::new() } else { format!("!decoders-differ({})", diffs.join(";")) }
            )
        }
        Err(err) => {
            use err::ip_auth::HeaderSliceError as S;
            match err {
                S::Len(l) => format!("err({})", show_len(&l)),
                S::Content(c) => format!("err(content({:?}))", c),
            }
        }
    }
}

pub fn run(op: &str, a: &[&str]) -> Option<String> {
    Some(match (op, a) {
        ("ext.set_next", [e, n]) => {
            let mut e = parse_exts(e)?;
            let n: u8 = num(n)?;
            let first = e.set_next_headers(IpNumber(n));
            format!("first={} {}", first.0, show_exts(&e))
        }
        ("ext.next_header", [e, first]) => {
            let e = parse_exts(e)?;
            let first: u8 = num(first)?;
            match e.next_header(IpNumber(first)) {
                Ok(n) => format!("ok({})", n.0),
                Err(err) => format!("err({})", show_walk6(&err)),
            }
        }
        ("ext.write", [e, first]) => {
            let e = parse_exts(e)?;
            let first: u8 = num(first)?;
            write6(&e, first)
        }
        ("ext.header_len", [e]) => parse_exts(e)?.header_len().to_string(),
        ("ext.is_frag", [e]) => parse_exts(e)?.is_fragmenting_payload().to_string(),
        ("ext.from_slice", [first, h]) => {
            let first: u8 = num(first)?;
            let b = hex(h)?;
            from_slice6(first, &b)
        }
        ("ext.from_slice_lax", [first, h]) => {
            let first: u8 = num(first)?;
            let b = hex(h)?;
            let (e, next, rest, err) = Ipv6Extensions::from_slice_lax(IpNumber(first), &b);
            let es = match err {
                None => "none".to_string(),
                Some((err, layer)) => {
                    use err::ipv6_exts::{HeaderError as H, HeaderSliceError as S};
                    let s = match err {
                        S::Len(l) => show_len(&l),
                        S::Content(H::HopByHopNotAtStart) => {
                            "content(HopByHopNotAtStart)".to_string()
                        }
                        S::Content(H::IpAuth(a)) => format!("content(IpAuth({:?}))", a),
                    };
                    format!("some({},{:?})", s, layer)
                }
            };
            format!(
                "({},next={},rest={},header_len={},err={})",
                show_exts(&e),
                next.0,
                win(&b, rest),
                e.header_len(),
                es
            )
        }
        ("ext.roundtrip", [e, first, tail]) => {
            let e = parse_exts(e)?;
            let first: u8 = num(first)?;
            let tail = hex(tail)?;
            let mut out: Vec<u8> = Vec::new();
            match e.write(&mut out, IpNumber(first)) {
                Ok(()) => {
                    out.extend_from_slice(&tail);
                    from_slice6(first, &out)
                }
                Err(_) => "none".to_string(),
            }
        }
        ("ext.link_walk", [e, n]) => {
            let mut e = parse_exts(e)?;
            let n: u8 = num(n)?;
            let first = e.set_next_headers(IpNumber(n));
            let walk = match e.next_header(first) {
                Ok(n) => format!("ok({})", n.0),
                Err(err) => format!("err({})", show_walk6(&err)),
            };
            format!(
                "first={} {} walk={} write={}",
                first.0,
                show_exts(&e),
                walk,
                write6(&e, first.0)
            )
        }
        ("ext.v4.roundtrip", [x, first, tail]) => {
            let e = Ipv4Extensions {
                auth: parse_auth(x)?,
            };
            let first: u8 = num(first)?;
            let tail = hex(tail)?;
            let mut out: Vec<u8> = Vec::new();
            match e.write(&mut out, IpNumber(first)) {
                Ok(()) => {
                    out.extend_from_slice(&tail);
                    from_slice4(first, &out)
                }
                Err(_) => "none".to_string(),
            }
        }
        ("ext.v4.link_walk", [x, n]) => {
            let mut e = Ipv4Extensions {
                auth: parse_auth(x)?,
            };
            let n: u8 = num(n)?;
            let first = e.set_next_headers(IpNumber(n));
            let walk = match e.next_header(first) {
                Ok(n) => format!("ok({})", n.0),
                Err(err) => format!("err({})", show_walk4(&err)),
            };
            format!(
                "first={} {} walk={} write={}",
                first.0,
                show_auth(e.auth.as_ref()),
                walk,
                write4(&e, first.0)
            )
        }
        ("ext.v4.set_next", [x, n]) => {
            let mut e = Ipv4Extensions {
                auth: parse_auth(x)?,
            };
            let n: u8 = num(n)?;
            let first = e.set_next_headers(IpNumber(n));
            format!("first={} {}", first.0, show_auth(e.auth.as_ref()))
        }
        ("ext.v4.next_header", [x, first]) => {
            let e = Ipv4Extensions {
                auth: parse_auth(x)?,
            };
            let first: u8 = num(first)?;
            match e.next_header(IpNumber(first)) {
                Ok(n) => format!("ok({})", n.0),
                Err(err) => format!("err({})", show_walk4(&err)),
            }
        }
        ("ext.v4.write", [x, first]) => {
            let e = Ipv4Extensions {
                auth: parse_auth(x)?,
            };
            let first: u8 = num(first)?;
            write4(&e, first)
        }
        ("ext.v4.header_len", [x]) => Ipv4Extensions {
            auth: parse_auth(x)?,
        }
        .header_len()
        .to_string(),
        ("ext.v4.from_slice", [first, h]) => {
            let first: u8 = num(first)?;
            let b = hex(h)?;
            from_slice4(first, &b)
        }
        ("ext.ip_set_next", [v, e, n]) => {
            let n: u8 = num(n)?;
            let mut h = match *v {
                "v4" => IpHeaders::Ipv4(
                    ipv4_hdr(),
                    Ipv4Extensions {
                        auth: parse_auth(e)?,
                    },
                ),
                "v6" => IpHeaders::Ipv6(ipv6_hdr(), parse_exts(e)?),
                _ => return None,
            };
            let et = h.set_next_headers(IpNumber(n));
            match &h {
                IpHeaders::Ipv4(h, x) => format!(
                    "ether={} first={} {}",
                    et.0,
                    h.protocol.0,
                    show_auth(x.auth.as_ref())
                ),
                IpHeaders::Ipv6(h, x) => {
                    format!("ether={} first={} {}", et.0, h.next_header.0, show_exts(x))
                }
            }
        }
        ("ext.net_set_next", [v, e, n]) => {
            let n: u8 = num(n)?;
            let mut h = match *v {
                "v4" => NetHeaders::Ipv4(
                    ipv4_hdr(),
                    Ipv4Extensions {
                        auth: parse_auth(e)?,
                    },
                ),
                "v6" => NetHeaders::Ipv6(ipv6_hdr(), parse_exts(e)?),
                "arp" if *e == "-" => NetHeaders::Arp(
                    ArpPacket::new(
                        ArpHardwareId::ETHERNET,
                        EtherType::IPV4,
                        ArpOperation::REPLY,
                        &[0; 6],
                        &[0; 4],
                        &[0; 6],
                        &[0; 4],
                    )
                    .ok()?,
                ),
                _ => return None,
            };
            match h.try_set_next_headers(IpNumber(n)) {
                Err(err) => format!("err({:?})", err),
                Ok(et) => match &h {
                    NetHeaders::Ipv4(h, x) => format!(
                        "ok(ether={}) first={} {}",
                        et.0,
                        h.protocol.0,
                        show_auth(x.auth.as_ref())
                    ),
                    NetHeaders::Ipv6(h, x) => format!(
                        "ok(ether={}) first={} {}",
                        et.0,
                        h.next_header.0,
                        show_exts(x)
                    ),
                    NetHeaders::Arp(_) => format!("ok(ether={}) arp", et.0),
                },
            }
        }
        ("ext.ip_next_header", [v, e, first]) => {
            let first: u8 = num(first)?;
            let h = match *v {
                "v4" => {
                    let mut h = ipv4_hdr();
                    h.protocol = IpNumber(first);
                    IpHeaders::Ipv4(
                        h,
                        Ipv4Extensions {
                            auth: parse_auth(e)?,
                        },
                    )
                }
                "v6" => {
                    let mut h = ipv6_hdr();
                    h.next_header = IpNumber(first);
                    IpHeaders::Ipv6(h, parse_exts(e)?)
                }
                _ => return None,
            };
            match h.next_header() {
                Ok(n) => format!("ok({})", n.0),
                Err(err::ip_exts::ExtsWalkError::Ipv4Exts(e)) => {
                    format!("err(Ipv4Exts({}))", show_walk4(&e))
                }
                Err(err::ip_exts::ExtsWalkError::Ipv6Exts(e)) => {
                    format!("err(Ipv6Exts({}))", show_walk6(&e))
                }
            }
        }
        _ => return None,
    })
}
