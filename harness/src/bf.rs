//! `bf.*` operations: bounded integer types and the six headers that pack bit fields (C15).
#![allow(unused_imports, dead_code)]
use crate::util::*;
use etherparse::err::{LenError, ValueTooBigError};
use etherparse::igmp::{GroupAddress, MaxResponseCode, MembershipQueryWithSourcesHeader, Qrv};
use etherparse::*;

fn too_big<T>(e: &ValueTooBigError<T>) -> String
where
    T: Sized + Clone + core::fmt::Display + core::fmt::Debug + Eq + PartialEq + core::hash::Hash,
{
    format!(
        "err(actual={},max={},vt={:?})",
        e.actual, e.max_allowed, e.value_type
    )
}

fn len_err(e: &LenError) -> String {
    crate::util::touch(e);
    format!(
        "err(len(req={},len={},src={:?},layer={:?},off={}))",
        e.required_len, e.len, e.len_source, e.layer, e.layer_start_offset
    )
}

fn b01(b: bool) -> &'static str {
    if b {
        "1"
    } else {
        "0"
    }
}

fn boolarg(s: &str) -> Option<bool> {
    match s {
        "0" => Some(false),
        "1" => Some(true),
        _ => None,
    }
}

fn arr<const N: usize>(s: &str) -> Option<[u8; N]> {
    hex(s)?.try_into().ok()
}

macro_rules! bounded {
    ($r:expr, $t:ty) => {
        match $r {
            Ok(v) => {
                // the conversion back to the primitive, Display and Debug say the same number as value()
                let bad = <$t>::from(v) != v.value() || format!("{}", v) != format!("{}", v.value()) || format!("{:?}", v).is_empty() || v != v.clone();
                format!("ok({}){}", v.value(), if bad { "!accessor-mismatch" } else { "" })
            }
            Err(e) => too_big(&e),
        }
    };
}

fn ecn_res(r: Result<IpEcn, ValueTooBigError<u8>>) -> String {
    match r {
        Ok(v) => format!("ok({},{:?}){}", v.value(), v, if u8::from(v) != v.value() || format!("{}", v) != format!("{}", v.value()) { "!accessor-mismatch" } else { "" }),
        Err(e) => too_big(&e),
    }
}

fn try_new(t: &str, v: &str) -> Option<String> {
    Some(match t {
        "vlan_id" => bounded!(VlanId::try_new(num(v)?), u16),
        "vlan_pcp" => bounded!(VlanPcp::try_new(num(v)?), u8),
        "dscp" => bounded!(IpDscp::try_new(num(v)?), u8),
        "ecn" => ecn_res(IpEcn::try_new(num(v)?)),
        "frag_off" => bounded!(IpFragOffset::try_new(num(v)?), u16),
        "flow_label" => bounded!(Ipv6FlowLabel::try_new(num(v)?), u32),
        "macsec_an" => bounded!(MacsecAn::try_new(num(v)?), u8),
        "macsec_sl" => bounded!(MacsecShortLen::try_from_u8(num(v)?), u8),
        "qrv" => bounded!(Qrv::try_new(num(v)?), u8),
        _ => return None,
    })
}

fn try_from(t: &str, v: &str) -> Option<String> {
    Some(match t {
        "vlan_id" => bounded!(VlanId::try_from(num::<u16>(v)?), u16),
        "vlan_pcp" => bounded!(VlanPcp::try_from(num::<u8>(v)?), u8),
        "dscp" => bounded!(IpDscp::try_from(num::<u8>(v)?), u8),
        "ecn" => ecn_res(IpEcn::try_from(num::<u8>(v)?)),
        "frag_off" => bounded!(IpFragOffset::try_from(num::<u16>(v)?), u16),
        "flow_label" => bounded!(Ipv6FlowLabel::try_from(num::<u32>(v)?), u32),
        "macsec_an" => bounded!(MacsecAn::try_from(num::<u8>(v)?), u8),
        "macsec_sl" => bounded!(MacsecShortLen::try_from(num::<u8>(v)?), u8),
        "qrv" => bounded!(Qrv::try_from(num::<u8>(v)?), u8),
        _ => return None,
    })
}

fn show_vlan(h: &SingleVlanHeader) -> String {
    format!(
        "pcp={},dei={},vid={},et={}",
        h.pcp.value(),
        b01(h.drop_eligible_indicator),
        h.vlan_id.value(),
        h.ether_type.0
    )
}

fn show_ip4(h: &Ipv4Header) -> String {
    format!(
        "dscp={},ecn={},total_len={},id={},df={},mf={},fo={},ttl={},proto={},cks={},src={},dst={},opts={},ihl={}",
        h.dscp.value(),
        h.ecn.value(),
        h.total_len,
        h.identification,
        b01(h.dont_fragment),
        b01(h.more_fragments),
        h.fragment_offset.value(),
        h.time_to_live,
        h.protocol.0,
        h.header_checksum,
        to_hex(&h.source),
        to_hex(&h.destination),
        to_hex(h.options.as_slice()),
        h.ihl()
    )
}

fn show_ip6(h: &Ipv6Header) -> String {
    format!(
        "tc={},dscp={},ecn={},fl={},plen={},nh={},hop={},src={},dst={}",
        h.traffic_class,
        h.dscp().value(),
        h.ecn().value(),
        h.flow_label.value(),
        h.payload_length,
        h.next_header.0,
        h.hop_limit,
        to_hex(&h.source),
        to_hex(&h.destination)
    )
}

fn show_raw8(h: &MembershipQueryWithSourcesHeader) -> String {
    format!(
        "raw={},flags={},s={},qrv={}",
        h.raw_byte_8,
        h.flags(),
        b01(h.s_flag()),
        h.qrv().value()
    )
}

fn query(raw: u8) -> MembershipQueryWithSourcesHeader {
    MembershipQueryWithSourcesHeader {
        max_response_code: MaxResponseCode(0),
        group_address: GroupAddress::from([0u8; 4]),
        raw_byte_8: raw,
        qqic: 0,
        num_of_sources: 0,
    }
}

/// C02: the hand-written `Debug` / `Display` / name tables of the number types, over every value
fn fmt_tables() -> String {
    use std::fmt::Write;
    let mut n = 0usize;
    let mut sink = String::new();
    macro_rules! put {
        ($($arg:tt)*) => {{
            sink.clear();
            let _ = write!(sink, $($arg)*);
            n += sink.len();
        }};
    }
    for v in 0..=u16::MAX {
        put!("{:?}", EtherType(v));
        put!("{:?}", EtherType::from(v));
        put!("{:?}", ArpHardwareId(v));
        put!("{:?}", ArpHardwareId::from(v));
        put!("{:?}", ArpOperation(v));
        put!("{:?}", ArpOperation::from(v));
        if let Ok(x) = LinuxNonstandardEtherType::try_from(v) {
            put!("{:?}", x);
            if u16::from(x) != v {
                return "err(nonstandard-ether-type-conversion)".to_string();
            }
        }
        if let Ok(x) = LinuxSllPacketType::try_from(v) {
            put!("{:?}", x);
            if u16::from(x) != v {
                return "err(sll-packet-type-conversion)".to_string();
            }
        }
        if u16::from(EtherType::from(v)) != v || u16::from(ArpHardwareId::from(v)) != v || ArpOperation::from(v).0 != v {
            return "err(u16-conversion)".to_string();
        }
    }
    for v in 0..=u8::MAX {
        let x = IpNumber(v);
        put!("{:?}", x);
        put!("{:?} {:?}", x.keyword_str(), x.protocol_str());
        let y = icmpv6::NdpOptionType(v);
        put!("{:?} {:?}", y, y.keyword_str());
        if u8::from(IpNumber::from(v)) != v || u8::from(icmpv6::NdpOptionType::from(v)) != v {
            return "err(u8-conversion)".to_string();
        }
        // the three lists of IPv6 extension header numbers have to tell the same story
        let ext = x.is_ipv6_ext_header_value();
        let raw = Ipv6RawExtHeader::header_type_supported(x);
        let raw_s = Ipv6RawExtHeaderSlice::header_type_supported(x);
        let skippable = Ipv6Header::is_skippable_header_extension(x);
        if raw != raw_s || (raw && !ext) || (skippable && !ext) || (raw && !skippable) {
            return format!("err(extension-number-lists-differ({}))", v);
        }
    }
    use etherparse::err::{Layer, ValueType};
    for l in [
        Layer::LinuxSllHeader, Layer::Ethernet2Header, Layer::EtherPayload, Layer::VlanHeader, Layer::MacsecHeader, Layer::MacsecPacket,
        Layer::IpHeader, Layer::Ipv4Header, Layer::Ipv4Packet, Layer::IpAuthHeader, Layer::Ipv6Header, Layer::Ipv6Packet,
        Layer::Ipv6ExtHeader, Layer::Ipv6HopByHopHeader, Layer::Ipv6DestOptionsHeader, Layer::Ipv6RouteHeader, Layer::Ipv6FragHeader,
        Layer::UdpHeader, Layer::UdpPayload, Layer::TcpHeader, Layer::Icmpv4, Layer::Icmpv4Timestamp, Layer::Icmpv4TimestampReply,
        Layer::Icmpv6, Layer::Arp,
    ] {
        put!("{} {:?} {}", l, l, l.error_title());
    }
    let _ = ValueType::Ipv4PayloadLength;
    format!("ok({})", if n > 0 { "rendered" } else { "nothing" })
}

/// every public constant of the bounded number types, by name
fn consts() -> String {
    let mut o: Vec<String> = Vec::new();
    macro_rules! c {
        ($name:expr, $v:expr) => {
            o.push(format!("{}={}", $name, $v));
        };
    }
    c!("Qrv::ZERO", Qrv::ZERO.value());
    c!("Qrv::MAX", Qrv::MAX.value());
    c!("Qrv::MAX_U8", Qrv::MAX_U8);
    for (i, q) in Qrv::VALUES.iter().enumerate() {
        c!(format!("Qrv::VALUES[{}]", i), q.value());
    }
    c!("VlanPcp::ZERO", VlanPcp::ZERO.value());
    c!("VlanPcp::MAX_U8", VlanPcp::MAX_U8);
    c!("VlanId::ZERO", VlanId::ZERO.value());
    c!("VlanId::MAX_U16", VlanId::MAX_U16);
    c!("IpDscp::ZERO", IpDscp::ZERO.value());
    c!("IpDscp::MAX", IpDscp::MAX.value());
    c!("IpDscp::MAX_U8", IpDscp::MAX_U8);
    for (n, v) in [
        ("CS0", IpDscp::CS0), ("CS1", IpDscp::CS1), ("CS2", IpDscp::CS2), ("CS3", IpDscp::CS3), ("CS4", IpDscp::CS4),
        ("CS5", IpDscp::CS5), ("CS6", IpDscp::CS6), ("CS7", IpDscp::CS7), ("AF11", IpDscp::AF11), ("AF12", IpDscp::AF12),
        ("AF13", IpDscp::AF13), ("AF21", IpDscp::AF21), ("AF22", IpDscp::AF22), ("AF23", IpDscp::AF23), ("AF31", IpDscp::AF31),
        ("AF32", IpDscp::AF32), ("AF33", IpDscp::AF33), ("AF41", IpDscp::AF41), ("AF42", IpDscp::AF42), ("AF43", IpDscp::AF43),
        ("EF", IpDscp::EF), ("VOICE_ADMIT", IpDscp::VOICE_ADMIT), ("LOWER_EFFORT", IpDscp::LOWER_EFFORT),
    ] {
        c!(format!("IpDscp::{}", n), v.value());
    }
    c!("IpEcn::ZERO", IpEcn::ZERO.value());
    c!("IpEcn::ONE", IpEcn::ONE.value());
    c!("IpEcn::TWO", IpEcn::TWO.value());
    c!("IpEcn::THREE", IpEcn::THREE.value());
    c!("IpEcn::MAX_U8", IpEcn::MAX_U8);
    c!("IpEcn::NotEct", IpEcn::NotEct.value());
    c!("IpEcn::Ect1", IpEcn::Ect1.value());
    c!("IpEcn::Ect0", IpEcn::Ect0.value());
    c!("IpEcn::CongestionExperienced", IpEcn::CongestionExperienced.value());
    c!("IpFragOffset::ZERO", IpFragOffset::ZERO.value());
    c!("IpFragOffset::MAX_U16", IpFragOffset::MAX_U16);
    c!("Ipv6FlowLabel::ZERO", Ipv6FlowLabel::ZERO.value());
    c!("Ipv6FlowLabel::MAX_U32", Ipv6FlowLabel::MAX_U32);
    c!("MacsecAn::ZERO", MacsecAn::ZERO.value());
    c!("MacsecAn::MAX_U8", MacsecAn::MAX_U8);
    c!("MacsecShortLen::ZERO", MacsecShortLen::ZERO.value());
    c!("MacsecShortLen::MAX_U8", MacsecShortLen::MAX_U8);
    o.join(",")
}

/// the `Default` values of the header types and a few conversions no other operation goes through: each default is
/// a value like any other (encodes to its announced length, decodes back to itself)
fn defaults() -> String {
    let mut bad: Vec<&str> = Vec::new();
    let a = IpAuthHeader::default();
    if a.to_bytes().len() != a.header_len() || a.header_len() != 12 || IpAuthHeader::from_slice(&a.to_bytes()).map(|x| x.0 != a).unwrap_or(true) {
        bad.push("IpAuthHeader::default");
    }
    let r = Ipv6RawExtHeader::default();
    if r.to_bytes().len() != r.header_len() || r.header_len() != 8 || Ipv6RawExtHeader::from_slice(&r.to_bytes()).map(|x| x.0 != r).unwrap_or(true) {
        bad.push("Ipv6RawExtHeader::default");
    }
    if Ipv6ExtensionSliceIter::default().count() != 0 || Ipv6ExtensionsSlice::default().into_iter().count() != 0 {
        bad.push("Ipv6ExtensionSliceIter::default");
    }
    if !Ipv6Extensions::default().is_empty() || Ipv6Extensions::default().header_len() != 0 || !Ipv4Extensions::default().is_empty() {
        bad.push("extensions default");
    }
    if u16::from(LinuxNonstandardEtherType::default()) != 0x0001 {
        bad.push("LinuxNonstandardEtherType::default");
    }
    let t = TcpHeader::default();
    if t.to_bytes().len() != 20 || TcpHeader::from_slice(&t.to_bytes()).map(|x| x.0 != t).unwrap_or(true) {
        bad.push("TcpHeader::default");
    }
    let h4 = Ipv4Header::default();
    if h4.header_len() != 20 || h4.to_bytes().len() != 20 {
        bad.push("Ipv4Header::default");
    }
    let h6 = Ipv6Header::default();
    if h6.to_bytes().len() != 40 || Ipv6Header::from_slice(&h6.to_bytes()).map(|x| x.0 != h6).unwrap_or(true) {
        bad.push("Ipv6Header::default");
    }
    let e = Ethernet2Header::default();
    if Ethernet2Header::from_bytes(e.to_bytes()) != e {
        bad.push("Ethernet2Header::default");
    }
    // ARP: the Ethernet/IPv4 convenience packet and the general one
    let ae = ArpEthIpv4Packet { operation: ArpOperation::REQUEST, sender_mac: [1, 2, 3, 4, 5, 6], sender_ipv4: [10, 0, 0, 1], target_mac: [7, 8, 9, 10, 11, 12], target_ipv4: [10, 0, 0, 2] };
    let ap = ArpPacket::from(ae.clone());
    if ap != ae.to_arp_packet() || ap.to_bytes()[..] != ae.to_bytes()[..] || ArpEthIpv4Packet::try_from(ap.clone()).ok() != Some(ae.clone()) {
        bad.push("ArpEthIpv4Packet conversions");
    }
    // IGMP group address
    let g = GroupAddress::new([224, 0, 0, 1]);
    if g.is_zero() || !GroupAddress::new([0; 4]).is_zero() || <[u8; 4]>::from(g) != [224, 0, 0, 1] || GroupAddress::from([224, 0, 0, 1]) != g
        || GroupAddress::from(std::net::Ipv4Addr::new(224, 0, 0, 1)) != g || std::net::Ipv4Addr::from(g) != std::net::Ipv4Addr::new(224, 0, 0, 1)
    {
        bad.push("GroupAddress conversions");
    }
    // TCP option elements through the trait door
    let els = [TcpOptionElement::MaximumSegmentSize(1460), TcpOptionElement::Noop];
    if TcpOptions::try_from(&els[..]).ok() != TcpOptions::try_from_elements(&els).ok() {
        bad.push("TcpOptions::try_from(elements)");
    }
    if bad.is_empty() {
        "ok".to_string()
    } else {
        format!("differ({})", bad.join(";"))
    }
}

pub fn run(op: &str, a: &[&str]) -> Option<String> {
    Some(match (op, a) {
        ("impl.bf.defaults", []) => defaults(),
        ("impl.bf.fmt_tables", []) => fmt_tables(),
        ("impl.bf.consts", []) => consts(),
        ("bf.try_new", [t, v]) => try_new(t, v)?,
        ("bf.try_from", [t, v]) => try_from(t, v)?,
        ("bf.sl_from_len", [n]) => MacsecShortLen::from_len(num::<usize>(n)?)
            .value()
            .to_string(),
        ("bf.fo_byte_offset", [v]) => match IpFragOffset::try_new(num(v)?) {
            Ok(x) => x.byte_offset().to_string(),
            Err(e) => too_big(&e),
        },
        // SingleVlanHeader
        ("bf.vlan_enc", [pcp, dei, vid, et]) => {
            let pcp: u8 = num(pcp)?;
            let dei = boolarg(dei)?;
            let vid: u16 = num(vid)?;
            let et: u16 = num(et)?;
            let pcp = match VlanPcp::try_new(pcp) {
                Ok(v) => v,
                Err(e) => return Some(too_big(&e)),
            };
            let vid = match VlanId::try_new(vid) {
                Ok(v) => v,
                Err(e) => return Some(too_big(&e)),
            };
            let h = SingleVlanHeader {
                pcp,
                drop_eligible_indicator: dei,
                vlan_id: vid,
                ether_type: EtherType(et),
            };
            format!("ok({})", to_hex(&h.to_bytes()))
        }
        ("bf.vlan_dec", [h]) => {
            let b = hex(h)?;
            match SingleVlanHeader::from_slice(&b) {
                Ok((h, rest)) => format!("ok({},rest={})", show_vlan(&h), win(&b, rest)),
                Err(e) => len_err(&e),
            }
        }
        ("bf.vlan_from_bytes", [h]) => show_vlan(&SingleVlanHeader::from_bytes(arr::<4>(h)?)),
        // Ipv4Header
        ("bf.ip4_enc", [dscp, ecn, tl, id, df, mf, fo, ttl, proto, cks, src, dst, opts]) => {
            let dscp: u8 = num(dscp)?;
            let ecn: u8 = num(ecn)?;
            let total_len: u16 = num(tl)?;
            let identification: u16 = num(id)?;
            let df = boolarg(df)?;
            let mf = boolarg(mf)?;
            let fo: u16 = num(fo)?;
            let ttl: u8 = num(ttl)?;
            let proto: u8 = num(proto)?;
            let cks: u16 = num(cks)?;
            let source = arr::<4>(src)?;
            let destination = arr::<4>(dst)?;
            let opts = hex(opts)?;
            let options = Ipv4Options::try_from(&opts[..]).ok()?;
            let dscp = match IpDscp::try_new(dscp) {
                Ok(v) => v,
                Err(e) => return Some(too_big(&e)),
            };
            let ecn = match IpEcn::try_new(ecn) {
                Ok(v) => v,
                Err(e) => return Some(too_big(&e)),
            };
            let fo = match IpFragOffset::try_new(fo) {
                Ok(v) => v,
                Err(e) => return Some(too_big(&e)),
            };
            let h = Ipv4Header {
                dscp,
                ecn,
                total_len,
                identification,
                dont_fragment: df,
                more_fragments: mf,
                fragment_offset: fo,
                time_to_live: ttl,
                protocol: IpNumber(proto),
                header_checksum: cks,
                source,
                destination,
                options,
            };
            let bytes = h.to_bytes();
            let mut raw = Vec::new();
            h.write_raw(&mut raw).ok()?;
            format!(
                "ok(bytes={},raw={},ihl={},len={})",
                to_hex(&bytes),
                to_hex(&raw),
                h.ihl(),
                h.header_len()
            )
        }
        ("bf.ip4_dec", [h]) => {
            let b = hex(h)?;
            match Ipv4Header::from_slice(&b) {
                Ok((h, rest)) => format!("ok({},rest={})", show_ip4(&h), win(&b, rest)),
                Err(err::ipv4::HeaderSliceError::Len(e)) => len_err(&e),
                Err(err::ipv4::HeaderSliceError::Content(e)) => match e {
                    err::ipv4::HeaderError::UnexpectedVersion { version_number } => {
                        format!("err(ip4.UnexpectedVersion({}))", version_number)
                    }
                    err::ipv4::HeaderError::HeaderLengthSmallerThanHeader { ihl } => {
                        format!("err(ip4.HeaderLengthSmallerThanHeader({}))", ihl)
                    }
                },
            }
        }
        ("bf.ip4_read", [h]) => {
            let b = hex(h)?;
            let mut c = std::io::Cursor::new(&b[..]);
            match Ipv4Header::read(&mut c) {
                Ok(h) => format!("ok({})", show_ip4(&h)),
                Err(err::ipv4::HeaderReadError::Io(_)) => "err(io)".to_string(),
                Err(err::ipv4::HeaderReadError::Content(e)) => match e {
                    err::ipv4::HeaderError::UnexpectedVersion { version_number } => {
                        format!("err(ip4.UnexpectedVersion({}))", version_number)
                    }
                    err::ipv4::HeaderError::HeaderLengthSmallerThanHeader { ihl } => {
                        format!("err(ip4.HeaderLengthSmallerThanHeader({}))", ihl)
                    }
                },
            }
        }
        // Ipv6Header
        ("bf.ip6_enc", [tc, fl, plen, nh, hop, src, dst]) => {
            let traffic_class: u8 = num(tc)?;
            let fl: u32 = num(fl)?;
            let payload_length: u16 = num(plen)?;
            let nh: u8 = num(nh)?;
            let hop_limit: u8 = num(hop)?;
            let source = arr::<16>(src)?;
            let destination = arr::<16>(dst)?;
            let flow_label = match Ipv6FlowLabel::try_new(fl) {
                Ok(v) => v,
                Err(e) => return Some(too_big(&e)),
            };
            let h = Ipv6Header {
                traffic_class,
                flow_label,
                payload_length,
                next_header: IpNumber(nh),
                hop_limit,
                source,
                destination,
            };
            format!("ok({})", to_hex(&h.to_bytes()))
        }
        ("bf.ip6_dec", [h]) => {
            let b = hex(h)?;
            match Ipv6Header::from_slice(&b) {
                Ok((h, rest)) => {
                    // the slice type has its own dscp()/ecn()/flow_label()/traffic_class() accessors
                    let s = Ipv6HeaderSlice::from_slice(&b).ok()?;
                    if s.dscp() != h.dscp()
                        || s.ecn() != h.ecn()
                        || s.traffic_class() != h.traffic_class
                        || s.flow_label() != h.flow_label
                    {
                        return Some("slice-accessors-differ".to_string());
                    }
                    format!("ok({},rest={})", show_ip6(&h), win(&b, rest))
                }
                Err(err::ipv6::HeaderSliceError::Len(e)) => len_err(&e),
                Err(err::ipv6::HeaderSliceError::Content(e)) => match e {
                    err::ipv6::HeaderError::UnexpectedVersion { version_number } => {
                        format!("err(ip6.UnexpectedVersion({}))", version_number)
                    }
                },
            }
        }
        ("bf.ip6_read", [h]) => {
            let b = hex(h)?;
            let mut c = std::io::Cursor::new(&b[..]);
            match Ipv6Header::read(&mut c) {
                Ok(h) => format!("ok({})", show_ip6(&h)),
                Err(err::ipv6::HeaderReadError::Io(_)) => "err(io)".to_string(),
                Err(err::ipv6::HeaderReadError::Content(e)) => match e {
                    err::ipv6::HeaderError::UnexpectedVersion { version_number } => {
                        format!("err(ip6.UnexpectedVersion({}))", version_number)
                    }
                },
            }
        }
        ("bf.ip6_tc", [tc, which, v]) => {
            let mut h = Ipv6Header {
                traffic_class: num(tc)?,
                ..Default::default()
            };
            let v: u8 = num(v)?;
            match *which {
                "dscp" => match IpDscp::try_new(v) {
                    Ok(d) => h.set_dscp(d),
                    Err(e) => return Some(too_big(&e)),
                },
                "ecn" => match IpEcn::try_new(v) {
                    Ok(d) => h.set_ecn(d),
                    Err(e) => return Some(too_big(&e)),
                },
                _ => return None,
            }
            format!(
                "ok(tc={},dscp={},ecn={})",
                h.traffic_class,
                h.dscp().value(),
                h.ecn().value()
            )
        }
        // Ipv6FragmentHeader
        ("bf.frag_enc", [nh, fo, mf, id]) => {
            let nh: u8 = num(nh)?;
            let fo: u16 = num(fo)?;
            let mf = boolarg(mf)?;
            let id: u32 = num(id)?;
            let fo = match IpFragOffset::try_new(fo) {
                Ok(v) => v,
                Err(e) => return Some(too_big(&e)),
            };
            let h = Ipv6FragmentHeader::new(IpNumber(nh), fo, mf, id);
            format!("ok({})", to_hex(&h.to_bytes()))
        }
        ("bf.frag_dec", [h]) => {
            let b = hex(h)?;
            match Ipv6FragmentHeader::from_slice(&b) {
                Ok((h, rest)) => format!(
                    "ok(nh={},fo={},mf={},id={},rest={})",
                    h.next_header.0,
                    h.fragment_offset.value(),
                    b01(h.more_fragments),
                    h.identification,
                    win(&b, rest)
                ),
                Err(e) => len_err(&e),
            }
        }
        // MacsecHeader
        ("bf.macsec_enc", [pt, et, es, scb, an, sl, pn, sci]) => {
            let et: u16 = num(et)?;
            let es = boolarg(es)?;
            let scb = boolarg(scb)?;
            let an: u8 = num(an)?;
            let sl: u8 = num(sl)?;
            let pn: u32 = num(pn)?;
            let sci: Option<u64> = if *sci == "-" { None } else { Some(num(sci)?) };
            let ptype = match *pt {
                "unmod" => MacsecPType::Unmodified(EtherType(et)),
                "mod" => MacsecPType::Modified,
                "enc" => MacsecPType::Encrypted,
                "encunmod" => MacsecPType::EncryptedUnmodified,
                _ => return None,
            };
            let an = match MacsecAn::try_new(an) {
                Ok(v) => v,
                Err(e) => return Some(too_big(&e)),
            };
            let short_len = match MacsecShortLen::try_from_u8(sl) {
                Ok(v) => v,
                Err(e) => return Some(too_big(&e)),
            };
            let h = MacsecHeader {
                ptype,
                endstation_id: es,
                scb,
                an,
                short_len,
                packet_nr: pn,
                sci,
            };
            format!("ok({},hlen={})", to_hex(&h.to_bytes()), h.header_len())
        }
        ("bf.macsec_dec", [h]) => {
            let b = hex(h)?;
            match MacsecHeader::from_slice(&b) {
                Ok(h) => {
                    let pt = match h.ptype {
                        MacsecPType::Unmodified(e) => format!("unmod({})", e.0),
                        MacsecPType::Modified => "mod".to_string(),
                        MacsecPType::Encrypted => "enc".to_string(),
                        MacsecPType::EncryptedUnmodified => "encunmod".to_string(),
                    };
                    let sci = match h.sci {
                        None => "none".to_string(),
                        Some(v) => format!("some({})", v),
                    };
                    let s = MacsecHeaderSlice::from_slice(&b).ok()?;
                    format!(
                        "ok(ptype={},es={},scb={},an={},sl={},pn={},sci={},hlen={})",
                        pt,
                        b01(h.endstation_id),
                        b01(h.scb),
                        h.an.value(),
                        h.short_len.value(),
                        h.packet_nr,
                        sci,
                        s.slice().len()
                    )
                }
                Err(err::macsec::HeaderSliceError::Len(e)) => len_err(&e),
                Err(err::macsec::HeaderSliceError::Content(e)) => match e {
                    err::macsec::HeaderError::UnexpectedVersion => {
                        "err(macsec.UnexpectedVersion)".to_string()
                    }
                    err::macsec::HeaderError::InvalidUnmodifiedShortLen => {
                        "err(macsec.InvalidUnmodifiedShortLen)".to_string()
                    }
                },
            }
        }
        // igmp::MembershipQueryWithSourcesHeader
        ("bf.igmp_set", [raw, which, v]) => {
            let mut h = query(num(raw)?);
            let v: u8 = num(v)?;
            match *which {
                "flags" => h.set_flags(v),
                "s" => h.set_s_flag(boolarg(&v.to_string())?),
                "qrv" => match Qrv::try_new(v) {
                    Ok(q) => h.set_qrv(q),
                    Err(e) => return Some(too_big(&e)),
                },
                _ => return None,
            }
            format!("ok({})", show_raw8(&h))
        }
        ("bf.igmp_enc", [mrc, cks, group, raw, qqic, ns]) => {
            let h = MembershipQueryWithSourcesHeader {
                max_response_code: MaxResponseCode(num(mrc)?),
                group_address: GroupAddress::from(arr::<4>(group)?),
                raw_byte_8: num(raw)?,
                qqic: num(qqic)?,
                num_of_sources: num(ns)?,
            };
            let ih = IgmpHeader {
                igmp_type: IgmpType::MembershipQueryWithSources(h),
                checksum: num(cks)?,
            };
            to_hex(&ih.to_bytes())
        }
        ("bf.igmp_dec", [h]) => {
            let b = hex(h)?;
            match IgmpHeader::from_slice(&b) {
                Ok((ih, rest)) => match &ih.igmp_type {
                    IgmpType::MembershipQueryWithSources(h) => format!(
                        "ok(query(mrc={},cks={},group={},{},qqic={},nsrc={},rest={}))",
                        h.max_response_code.0,
                        ih.checksum,
                        to_hex(&h.group_address.octets),
                        show_raw8(h),
                        h.qqic,
                        h.num_of_sources,
                        win(&b, rest)
                    ),
                    _ => "ok(other)".to_string(),
                },
                Err(e) => len_err(&e),
            }
        }
        _ => return None,
    })
}
