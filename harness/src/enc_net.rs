//! network-layer part of the `enc.*` family (C08): Ipv6Header, Ipv6FragmentHeader, Ipv4Header,
//! IpAuthHeader, Ipv6RawExtHeader and their slice types.
//!
//! ops per type t in {ipv6, ipv6frag, ipv4, auth, rawext}:
//!   enc.t.to_bytes <fields>      value via the checked constructors -> all serialisers, header_len
//!   enc.t.rt <fields> <tail>     from_slice(to_bytes(v) ++ tail)
//!   enc.t.from_slice <hex>       all fields + rest window
//!   enc.t.redec <hex>            from_slice, to_bytes of the result, from_slice(bytes ++ rest)
//!   enc.tslice.from_slice <hex>  every accessor of the slice type + to_header
#![allow(unused_imports, dead_code)]
use crate::util::*;
use etherparse::err::{LenError, ValueTooBigError};
use etherparse::*;

fn b01(b: bool) -> &'static str {
    if b {
        "1"
    } else {
        "0"
    }
}

fn boolarg(s: &str) -> Option<bool> {
    match s {
        "0" => Some(false),
        "1" => Some(true),
        _ => None,
    }
}

fn len_err(e: &LenError) -> String {
    crate::util::touch(e);
    format!(
        "len(req={},len={},src={:?},layer={:?},off={})",
        e.required_len, e.len, e.len_source, e.layer, e.layer_start_offset
    )
}

fn too_big<T: core::fmt::Display + core::fmt::Debug + Clone + Eq + core::hash::Hash>(
    e: &ValueTooBigError<T>,
) -> String {
    format!(
        "err(toobig(actual={},max={},type={:?}))",
        e.actual, e.max_allowed, e.value_type
    )
}

fn same_or(reference: &[u8], x: &[u8]) -> String {
    if reference == x {
        "same".to_string()
    } else {
        to_hex(x)
    }
}

// ------------------------------------------------------------------------------------------
// Ipv6Header

fn ipv6_fields(h: &Ipv6Header) -> String {
    format!(
        "tc={},fl={},plen={},nh={},hop={},src={},dst={}",
        h.traffic_class,
        h.flow_label.value(),
        h.payload_length,
        h.next_header.0,
        h.hop_limit,
        to_hex(&h.source),
        to_hex(&h.destination)
    )
}

fn ipv6_err(e: &err::ipv6::HeaderSliceError) -> String {
    crate::util::touch(e);
    use err::ipv6::{HeaderError::*, HeaderSliceError::*};
    match e {
        Len(l) => format!("err({})", len_err(l)),
        Content(UnexpectedVersion { version_number }) => format!("err(version({}))", version_number),
    }
}

fn ipv6_value(a: &[&str]) -> Option<Result<Ipv6Header, String>> {
    if let [tc, fl, plen, nh, hop, src, dst] = a {
        let tc: u8 = num(tc)?;
        let fl: u32 = num(fl)?;
        let plen: u16 = num(plen)?;
        let nh: u8 = num(nh)?;
        let hop: u8 = num(hop)?;
        let src: [u8; 16] = hex(src)?.try_into().ok()?;
        let dst: [u8; 16] = hex(dst)?.try_into().ok()?;
        let fl = match Ipv6FlowLabel::try_new(fl) {
            Ok(v) => v,
            Err(e) => return Some(Err(too_big(&e))),
        };
        Some(Ok(Ipv6Header {
            traffic_class: tc,
            flow_label: fl,
            payload_length: plen,
            next_header: IpNumber(nh),
            hop_limit: hop,
            source: src,
            destination: dst,
        }))
    } else {
        None
    }
}

fn ipv6_dec(b: &[u8]) -> String {
    match Ipv6Header::from_slice(b) {
        Err(e) => ipv6_err(&e),
        Ok((h, rest)) => format!("ok({},rest={})", ipv6_fields(&h), win(b, rest)),
    }
}

fn ipv6_ops(op: &str, a: &[&str]) -> Option<String> {
    Some(match op {
        "enc.ipv6.to_bytes" => match ipv6_value(a)? {
            Err(e) => e,
            Ok(h) => {
                let bytes = h.to_bytes();
                let mut w = Vec::new();
                h.write(&mut w).unwrap();
                format!(
                    "ok(bytes={},write={},len={})",
                    to_hex(&bytes),
                    same_or(&bytes, &w),
                    h.header_len()
                )
            }
        },
        "enc.ipv6.rt" => {
            let (tail, fields) = a.split_last()?;
            let tail = hex(tail)?;
            match ipv6_value(fields)? {
                Err(e) => e,
                Ok(h) => {
                    let mut b = h.to_bytes().to_vec();
                    b.extend_from_slice(&tail);
                    ipv6_dec(&b)
                }
            }
        }
        "enc.ipv6.from_slice" => {
            if a.len() != 1 {
                return None;
            }
            ipv6_dec(&hex(a[0])?)
        }
        "enc.ipv6.redec" => {
            if a.len() != 1 {
                return None;
            }
            let b = hex(a[0])?;
            match Ipv6Header::from_slice(&b) {
                Err(e) => ipv6_err(&e),
                Ok((h, rest)) => {
                    let bytes = h.to_bytes();
                    let mut again = bytes.to_vec();
                    again.extend_from_slice(rest);
                    format!("ok(bytes={},again={})", to_hex(&bytes), ipv6_dec(&again))
                }
            }
        }
        "enc.ipv6slice.from_slice" => {
            if a.len() != 1 {
                return None;
            }
            let b = hex(a[0])?;
            match Ipv6HeaderSlice::from_slice(&b) {
                Err(e) => ipv6_err(&e),
                Ok(s) => format!(
                    "ok(slice={},version={},tc={},ecn={},dscp={},fl={},plen={},nh={},hop={},src={},dst={},header_len={},hdr=({}))",
                    win(&b, s.slice()),
                    s.version(),
                    s.traffic_class(),
                    s.ecn().value(),
                    s.dscp().value(),
                    s.flow_label().value(),
                    s.payload_length(),
                    s.next_header().0,
                    s.hop_limit(),
                    to_hex(&s.source()),
                    to_hex(&s.destination()),
                    s.header_len(),
                    ipv6_fields(&s.to_header())
                ),
            }
        }
        _ => return None,
    })
}

// ------------------------------------------------------------------------------------------
// Ipv6FragmentHeader

fn frag_fields(h: &Ipv6FragmentHeader) -> String {
    format!(
        "nh={},fo={},mf={},id={}",
        h.next_header.0,
        h.fragment_offset.value(),
        b01(h.more_fragments),
        h.identification
    )
}

fn frag_value(a: &[&str]) -> Option<Result<Ipv6FragmentHeader, String>> {
    if let [nh, fo, mf, id] = a {
        let nh: u8 = num(nh)?;
        let fo: u16 = num(fo)?;
        let mf = boolarg(mf)?;
        let id: u32 = num(id)?;
        let fo = match IpFragOffset::try_new(fo) {
            Ok(v) => v,
            Err(e) => return Some(Err(too_big(&e))),
        };
        Some(Ok(Ipv6FragmentHeader::new(IpNumber(nh), fo, mf, id)))
    } else {
        None
    }
}

fn frag_dec(b: &[u8]) -> String {
    match Ipv6FragmentHeader::from_slice(b) {
        Err(e) => format!("err({})", len_err(&e)),
        Ok((h, rest)) => format!("ok({},rest={})", frag_fields(&h), win(b, rest)),
    }
}

fn frag_ops(op: &str, a: &[&str]) -> Option<String> {
    Some(match op {
        "enc.ipv6frag.to_bytes" => match frag_value(a)? {
            Err(e) => e,
            Ok(h) => {
                let bytes = h.to_bytes();
                let mut w = Vec::new();
                h.write(&mut w).unwrap();
                format!(
                    "ok(bytes={},write={},len={},frag={})",
                    to_hex(&bytes),
                    same_or(&bytes, &w),
                    h.header_len(),
                    b01(h.is_fragmenting_payload())
                )
            }
        },
        "enc.ipv6frag.rt" => {
            let (tail, fields) = a.split_last()?;
            let tail = hex(tail)?;
            match frag_value(fields)? {
                Err(e) => e,
                Ok(h) => {
                    let mut b = h.to_bytes().to_vec();
                    b.extend_from_slice(&tail);
                    frag_dec(&b)
                }
            }
        }
        "enc.ipv6frag.from_slice" => {
            if a.len() != 1 {
                return None;
            }
            frag_dec(&hex(a[0])?)
        }
        "enc.ipv6frag.redec" => {
            if a.len() != 1 {
                return None;
            }
            let b = hex(a[0])?;
            match Ipv6FragmentHeader::from_slice(&b) {
                Err(e) => format!("err({})", len_err(&e)),
                Ok((h, rest)) => {
                    let bytes = h.to_bytes();
                    let mut again = bytes.to_vec();
                    again.extend_from_slice(rest);
                    format!("ok(bytes={},again={})", to_hex(&bytes), frag_dec(&again))
                }
            }
        }
        "enc.ipv6fragslice.from_slice" => {
            if a.len() != 1 {
                return None;
            }
            let b = hex(a[0])?;
            match Ipv6FragmentHeaderSlice::from_slice(&b) {
                Err(e) => format!("err({})", len_err(&e)),
                Ok(s) => format!(
                    "ok(slice={},nh={},fo={},mf={},id={},frag={},hdr=({}))",
                    win(&b, s.slice()),
                    s.next_header().0,
                    s.fragment_offset().value(),
                    b01(s.more_fragments()),
                    s.identification(),
                    b01(s.is_fragmenting_payload()),
                    frag_fields(&s.to_header())
                ),
            }
        }
        _ => return None,
    })
}

// ------------------------------------------------------------------------------------------
// Ipv4Header

fn ipv4_fields(h: &Ipv4Header) -> String {
    format!(
        "dscp={},ecn={},tlen={},id={},df={},mf={},fo={},ttl={},proto={},ck={},src={},dst={},opts={}",
        h.dscp.value(),
        h.ecn.value(),
        h.total_len,
        h.identification,
        b01(h.dont_fragment),
        b01(h.more_fragments),
        h.fragment_offset.value(),
        h.time_to_live,
        h.protocol.0,
        h.header_checksum,
        to_hex(&h.source),
        to_hex(&h.destination),
        to_hex(&h.options[..])
    )
}

fn ipv4_err(e: &err::ipv4::HeaderSliceError) -> String {
    crate::util::touch(e);
    use err::ipv4::{HeaderError::*, HeaderSliceError::*};
    match e {
        Len(l) => format!("err({})", len_err(l)),
        Content(UnexpectedVersion { version_number }) => format!("err(version({}))", version_number),
        Content(HeaderLengthSmallerThanHeader { ihl }) => format!("err(ihl({}))", ihl),
    }
}

fn ipv4_value(a: &[&str]) -> Option<Result<Ipv4Header, String>> {
    if let [dscp, ecn, tlen, id, df, mf, fo, ttl, proto, ck, src, dst, opts] = a {
        let dscp: u8 = num(dscp)?;
        let ecn: u8 = num(ecn)?;
        let tlen: u16 = num(tlen)?;
        let id: u16 = num(id)?;
        let df = boolarg(df)?;
        let mf = boolarg(mf)?;
        let fo: u16 = num(fo)?;
        let ttl: u8 = num(ttl)?;
        let proto: u8 = num(proto)?;
        let ck: u16 = num(ck)?;
        let src: [u8; 4] = hex(src)?.try_into().ok()?;
        let dst: [u8; 4] = hex(dst)?.try_into().ok()?;
        let opts = hex(opts)?;
        let dscp = match IpDscp::try_new(dscp) {
            Ok(v) => v,
            Err(e) => return Some(Err(too_big(&e))),
        };
        let ecn = match IpEcn::try_new(ecn) {
            Ok(v) => v,
            Err(e) => return Some(Err(too_big(&e))),
        };
        let fo = match IpFragOffset::try_new(fo) {
            Ok(v) => v,
            Err(e) => return Some(Err(too_big(&e))),
        };
        let options = match Ipv4Options::try_from(&opts[..]) {
            Ok(v) => v,
            Err(e) => return Some(Err(format!("err(badoptlen({}))", e.bad_len))),
        };
        Some(Ok(Ipv4Header {
            dscp,
            ecn,
            total_len: tlen,
            identification: id,
            dont_fragment: df,
            more_fragments: mf,
            fragment_offset: fo,
            time_to_live: ttl,
            protocol: IpNumber(proto),
            header_checksum: ck,
            source: src,
            destination: dst,
            options,
        }))
    } else {
        None
    }
}

fn ipv4_dec(b: &[u8]) -> String {
    match Ipv4Header::from_slice(b) {
        Err(e) => ipv4_err(&e),
        Ok((h, rest)) => {
            let mut d = h.clone();
            if h.options.is_empty() {
                d.time_to_live ^= 1;
            } else {
                let n = d.options.len();
                AsMut::<[u8]>::as_mut(&mut d.options)[n - 1] ^= 1;
            }
            let o = &h.options;
            // the deprecated in-place setter on a header with a history
            #[allow(deprecated)]
            let stale_bad = {
                let mut st = h.clone();
                st.set_options(&[0xee; 40]).is_err() || st.set_options(&[0xdd; 8]).is_err() || st.set_options(&[1, 2, 3]).is_ok() || st.set_options(h.options.as_slice()).is_err() || st != h || st.to_bytes() != h.to_bytes()
            };
            let bad = stale_bad
                || eq_laws_bad(&h, Some(d))
                || eq_laws_bad(o, None)
                || o.cmp(&o.clone()) != core::cmp::Ordering::Equal
                || o.partial_cmp(&o.clone()) != Some(core::cmp::Ordering::Equal)
                || usize::from(o.len_u8()) != o.len()
                || AsRef::<[u8]>::as_ref(o) != o.as_slice()
                || core::borrow::Borrow::<[u8]>::borrow(o) != o.as_slice()
                || &o[..] != o.as_slice()
                || o.as_slice() != &b[20..20 + o.len()];
            format!("ok({},rest={}){}", ipv4_fields(&h), win(b, rest), if bad { "!accessor-mismatch" } else { "" })
        }
    }
}

fn ipv4_ops(op: &str, a: &[&str]) -> Option<String> {
    Some(match op {
        "enc.ipv4.to_bytes" => match ipv4_value(a)? {
            Err(e) => e,
            Ok(h) => {
                let bytes = h.to_bytes();
                let mut w = Vec::new();
                h.write(&mut w).unwrap();
                let mut wr = Vec::new();
                h.write_raw(&mut wr).unwrap();
                format!(
                    "ok(bytes={},write={},write_raw={},len={},ihl={},calc={})",
                    to_hex(&bytes),
                    same_or(&bytes, &w),
                    same_or(&bytes, &wr),
                    h.header_len(),
                    h.ihl(),
                    h.calc_header_checksum()
                )
            }
        },
        "enc.ipv4.rt" => {
            let (tail, fields) = a.split_last()?;
            let tail = hex(tail)?;
            match ipv4_value(fields)? {
                Err(e) => e,
                Ok(h) => {
                    let mut b = h.to_bytes().to_vec();
                    b.extend_from_slice(&tail);
                    ipv4_dec(&b)
                }
            }
        }
        "enc.ipv4.from_slice" => {
            if a.len() != 1 {
                return None;
            }
            ipv4_dec(&hex(a[0])?)
        }
        "enc.ipv4.redec" => {
            if a.len() != 1 {
                return None;
            }
            let b = hex(a[0])?;
            match Ipv4Header::from_slice(&b) {
                Err(e) => ipv4_err(&e),
                Ok((h, rest)) => {
                    let bytes = h.to_bytes();
                    let mut again = bytes.to_vec();
                    again.extend_from_slice(rest);
                    format!("ok(bytes={},again={})", to_hex(&bytes), ipv4_dec(&again))
                }
            }
        }
        "enc.ipv4slice.from_slice" => {
            if a.len() != 1 {
                return None;
            }
            let b = hex(a[0])?;
            match Ipv4HeaderSlice::from_slice(&b) {
                Err(e) => ipv4_err(&e),
                Ok(s) => {
                    let pl = match s.payload_len() {
                        Ok(n) => format!("ok({})", n),
                        Err(e) => format!("err({})", len_err(&e)),
                    };
                    format!(
                        "ok(slice={},version={},ihl={},dscp={},ecn={},tlen={},plen={},id={},df={},mf={},fo={},ttl={},proto={},ck={},src={},dst={},opts={},frag={},hdr=({}))",
                        win(&b, s.slice()),
                        s.version(),
                        s.ihl(),
                        s.dcp().value(),
                        s.ecn().value(),
                        s.total_len(),
                        pl,
                        s.identification(),
                        b01(s.dont_fragment()),
                        b01(s.more_fragments()),
                        s.fragments_offset().value(),
                        s.ttl(),
                        s.protocol().0,
                        s.header_checksum(),
                        to_hex(&s.source()),
                        to_hex(&s.destination()),
                        win(&b, s.options()),
                        b01(s.is_fragmenting_payload()),
                        ipv4_fields(&s.to_header())
                    )
                }
            }
        }
        _ => return None,
    })
}

// ------------------------------------------------------------------------------------------
// IpAuthHeader

fn auth_fields(h: &IpAuthHeader) -> String {
    format!(
        "nh={},spi={},seq={},icv={}",
        h.next_header.0,
        h.spi,
        h.sequence_number,
        to_hex(h.raw_icv())
    )
}

fn auth_err(e: &err::ip_auth::HeaderSliceError) -> String {
    crate::util::touch(e);
    use err::ip_auth::{HeaderError::*, HeaderSliceError::*};
    match e {
        Len(l) => format!("err({})", len_err(l)),
        Content(ZeroPayloadLen) => "err(zeropayloadlen)".to_string(),
    }
}

fn auth_value(a: &[&str]) -> Option<Result<IpAuthHeader, String>> {
    if let [nh, spi, seq, icv] = a {
        let nh: u8 = num(nh)?;
        let spi: u32 = num(spi)?;
        let seq: u32 = num(seq)?;
        let icv = hex(icv)?;
        Some(match IpAuthHeader::new(IpNumber(nh), spi, seq, &icv) {
            Ok(h) => Ok(h),
            Err(e) => Err(format!("err(icv({:?}))", e)),
        })
    } else {
        None
    }
}

fn auth_dec(b: &[u8]) -> String {
    match IpAuthHeader::from_slice(b) {
        Err(e) => auth_err(&e),
        Ok((h, rest)) => {
            let mut d = h.clone();
            if h.raw_icv().is_empty() {
                d.spi ^= 1;
            } else {
                let mut icv = h.raw_icv().to_vec();
                let n = icv.len();
                icv[n - 1] ^= 1;
                let _ = d.set_raw_icv(&icv);
            }
            // a header that held a longer ICV before is the same header (the buffer behind the ICV is no part
            // of the value), encodes alike and is equal to what its bytes decode to
            let mut st = h.clone();
            let longer = vec![0xEEu8; (h.raw_icv().len() + 8).min(1016)];
            let stale_bad = st.set_raw_icv(&longer).is_err()
                || st.set_raw_icv(h.raw_icv()).is_err()
                || st != h
                || st.to_bytes() != h.to_bytes()
                || IpAuthHeader::from_slice(&st.to_bytes()).map(|x| x.0 != st).unwrap_or(true);
            format!("ok({},rest={}){}", auth_fields(&h), win(b, rest), if eq_only_bad(&h, Some(d)) || stale_bad { "!accessor-mismatch" } else { "" })
        }
    }
}

fn auth_ops(op: &str, a: &[&str]) -> Option<String> {
    Some(match op {
        "enc.auth.to_bytes" => match auth_value(a)? {
            Err(e) => e,
            Ok(h) => {
                let bytes = h.to_bytes();
                let mut w = Vec::new();
                h.write(&mut w).unwrap();
                format!(
                    "ok(bytes={},write={},len={},icv={})",
                    to_hex(&bytes),
                    same_or(&bytes, &w),
                    h.header_len(),
                    to_hex(h.raw_icv())
                )
            }
        },
        "enc.auth.rt" => {
            let (tail, fields) = a.split_last()?;
            let tail = hex(tail)?;
            match auth_value(fields)? {
                Err(e) => e,
                Ok(h) => {
                    let mut b = h.to_bytes().to_vec();
                    b.extend_from_slice(&tail);
                    auth_dec(&b)
                }
            }
        }
        "enc.auth.from_slice" => {
            if a.len() != 1 {
                return None;
            }
            auth_dec(&hex(a[0])?)
        }
        "enc.auth.redec" => {
            if a.len() != 1 {
                return None;
            }
            let b = hex(a[0])?;
            match IpAuthHeader::from_slice(&b) {
                Err(e) => auth_err(&e),
                Ok((h, rest)) => {
                    let bytes = h.to_bytes();
                    let mut again = bytes.to_vec();
                    again.extend_from_slice(rest);
                    format!("ok(bytes={},again={})", to_hex(&bytes), auth_dec(&again))
                }
            }
        }
        "enc.authslice.from_slice" => {
            if a.len() != 1 {
                return None;
            }
            let b = hex(a[0])?;
            match IpAuthHeaderSlice::from_slice(&b) {
                Err(e) => auth_err(&e),
                Ok(s) => format!(
                    "ok(slice={},nh={},spi={},seq={},icv={},hdr=({}))",
                    win(&b, s.slice()),
                    s.next_header().0,
                    s.spi(),
                    s.sequence_number(),
                    win(&b, s.raw_icv()),
                    auth_fields(&s.to_header())
                ),
            }
        }
        _ => return None,
    })
}

// ------------------------------------------------------------------------------------------
// Ipv6RawExtHeader

fn rawext_fields(h: &Ipv6RawExtHeader) -> String {
    format!("nh={},payload={}", h.next_header.0, to_hex(h.payload()))
}

fn rawext_value(a: &[&str]) -> Option<Result<Ipv6RawExtHeader, String>> {
    if let [nh, payload] = a {
        let nh: u8 = num(nh)?;
        let payload = hex(payload)?;
        Some(match Ipv6RawExtHeader::new_raw(IpNumber(nh), &payload) {
            Ok(h) => Ok(h),
            Err(e) => Err(format!("err(extlen({:?}))", e)),
        })
    } else {
        None
    }
}

fn rawext_dec(b: &[u8]) -> String {
    match Ipv6RawExtHeader::from_slice(b) {
        Err(e) => format!("err({})", len_err(&e)),
        Ok((h, rest)) => {
            let mut d = h.clone();
            let mut pl = h.payload().to_vec();
            let n = pl.len();
            pl[n - 1] ^= 1;
            let _ = d.set_payload(&pl);
            let mut st = h.clone();
            let longer = vec![0xEEu8; (h.payload().len() + 8).min(6 + 255 * 8)];
            let stale_bad = st.set_payload(&longer).is_err()
                || st.set_payload(h.payload()).is_err()
                || st != h
                || st.to_bytes() != h.to_bytes()
                || Ipv6RawExtHeader::from_slice(&st.to_bytes()).map(|x| x.0 != st).unwrap_or(true);
            format!("ok({},rest={}){}", rawext_fields(&h), win(b, rest), if eq_only_bad(&h, Some(d)) || stale_bad { "!accessor-mismatch" } else { "" })
        }
    }
}

fn rawext_ops(op: &str, a: &[&str]) -> Option<String> {
    Some(match op {
        "enc.rawext.to_bytes" => match rawext_value(a)? {
            Err(e) => e,
            Ok(h) => {
                let bytes = h.to_bytes();
                let mut w = Vec::new();
                h.write(&mut w).unwrap();
                format!(
                    "ok(bytes={},write={},len={},payload={})",
                    to_hex(&bytes),
                    same_or(&bytes, &w),
                    h.header_len(),
                    to_hex(h.payload())
                )
            }
        },
        "enc.rawext.rt" => {
            let (tail, fields) = a.split_last()?;
            let tail = hex(tail)?;
            match rawext_value(fields)? {
                Err(e) => e,
                Ok(h) => {
                    let mut b = h.to_bytes().to_vec();
                    b.extend_from_slice(&tail);
                    rawext_dec(&b)
                }
            }
        }
        "enc.rawext.from_slice" => {
            if a.len() != 1 {
                return None;
            }
            rawext_dec(&hex(a[0])?)
        }
        "enc.rawext.redec" => {
            if a.len() != 1 {
                return None;
            }
            let b = hex(a[0])?;
            match Ipv6RawExtHeader::from_slice(&b) {
                Err(e) => format!("err({})", len_err(&e)),
                Ok((h, rest)) => {
                    let bytes = h.to_bytes();
                    let mut again = bytes.to_vec();
                    again.extend_from_slice(rest);
                    format!("ok(bytes={},again={})", to_hex(&bytes), rawext_dec(&again))
                }
            }
        }
        "enc.rawextslice.from_slice" => {
            if a.len() != 1 {
                return None;
            }
            let b = hex(a[0])?;
            match Ipv6RawExtHeaderSlice::from_slice(&b) {
                Err(e) => format!("err({})", len_err(&e)),
                Ok(s) => format!(
                    "ok(slice={},nh={},payload={},hdr=({}))",
                    win(&b, s.slice()),
                    s.next_header().0,
                    win(&b, s.payload()),
                    rawext_fields(&s.to_header())
                ),
            }
        }
        _ => return None,
    })
}

// ------------------------------------------------------------------------------------------
// Ipv4Extensions (optional authentication header)

fn exts_fields(e: &Ipv4Extensions) -> String {
    match &e.auth {
        None => "auth=none".to_string(),
        Some(h) => format!("auth=({})", auth_fields(h)),
    }
}

fn exts_walk_err(e: &err::ipv4_exts::ExtsWalkError) -> String {
    crate::util::touch(e);
    match e {
        err::ipv4_exts::ExtsWalkError::ExtNotReferenced { missing_ext } => {
            format!("err(notreferenced({}))", missing_ext.0)
        }
    }
}

fn exts_value(a: &[&str]) -> Option<Result<Ipv4Extensions, String>> {
    if a.len() == 1 && a[0] == "none" {
        return Some(Ok(Ipv4Extensions { auth: None }));
    }
    Some(match auth_value(a)? {
        Err(e) => Err(e),
        Ok(h) => Ok(Ipv4Extensions { auth: Some(h) }),
    })
}

fn exts_write(e: &Ipv4Extensions, start: u8) -> Result<Vec<u8>, String> {
    let mut w = Vec::new();
    match e.write(&mut w, IpNumber(start)) {
        Ok(()) => Ok(w),
        Err(err::ipv4_exts::HeaderWriteError::Content(c)) => Err(exts_walk_err(&c)),
        Err(err::ipv4_exts::HeaderWriteError::Io(_)) => Err("err(io)".to_string()),
    }
}

fn exts_dec(start: u8, b: &[u8]) -> String {
    match Ipv4Extensions::from_slice(IpNumber(start), b) {
        Err(e) => auth_err(&e),
        Ok((e, next, rest)) => format!(
            "ok({},next={},rest={})",
            exts_fields(&e),
            next.0,
            win(b, rest)
        ),
    }
}

fn exts_ops(op: &str, a: &[&str]) -> Option<String> {
    let (start, a) = a.split_first()?;
    let start: u8 = num(start)?;
    Some(match op {
        "enc.ipv4exts.write" => match exts_value(a)? {
            Err(e) => e,
            Ok(e) => {
                let next = match e.next_header(IpNumber(start)) {
                    Ok(n) => format!("ok({})", n.0),
                    Err(x) => exts_walk_err(&x),
                };
                match exts_write(&e, start) {
                    Err(x) => format!("{},len={},next={}", x, e.header_len(), next),
                    Ok(bytes) => format!(
                        "ok(bytes={},len={},next={})",
                        to_hex(&bytes),
                        e.header_len(),
                        next
                    ),
                }
            }
        },
        "enc.ipv4exts.rt" => {
            let (tail, fields) = a.split_last()?;
            let tail = hex(tail)?;
            match exts_value(fields)? {
                Err(e) => e,
                Ok(e) => match exts_write(&e, start) {
                    Err(x) => x,
                    Ok(mut bytes) => {
                        bytes.extend_from_slice(&tail);
                        exts_dec(start, &bytes)
                    }
                },
            }
        }
        "enc.ipv4exts.from_slice" => {
            if a.len() != 1 {
                return None;
            }
            exts_dec(start, &hex(a[0])?)
        }
        "enc.ipv4exts.redec" => {
            if a.len() != 1 {
                return None;
            }
            let b = hex(a[0])?;
            match Ipv4Extensions::from_slice(IpNumber(start), &b) {
                Err(e) => auth_err(&e),
                Ok((e, _, rest)) => match exts_write(&e, start) {
                    Err(x) => x,
                    Ok(bytes) => {
                        let mut again = bytes.clone();
                        again.extend_from_slice(rest);
                        format!("ok(bytes={},again={})", to_hex(&bytes), exts_dec(start, &again))
                    }
                },
            }
        }
        "enc.ipv4extsslice.from_slice" => {
            if a.len() != 1 {
                return None;
            }
            let b = hex(a[0])?;
            match Ipv4ExtensionsSlice::from_slice(IpNumber(start), &b) {
                Err(e) => auth_err(&e),
                Ok((s, next, rest)) => format!(
                    "ok(auth={},empty={},next={},rest={},hdr=({}))",
                    match &s.auth {
                        None => "none".to_string(),
                        Some(x) => win(&b, x.slice()),
                    },
                    b01(s.is_empty()),
                    next.0,
                    win(&b, rest),
                    exts_fields(&s.to_header())
                ),
            }
        }
        _ => return None,
    })
}

pub fn run(op: &str, a: &[&str]) -> Option<String> {
    let mut it = op.split('.');
    if it.next() != Some("enc") {
        return None;
    }
    match it.next()? {
        "ipv6" | "ipv6slice" => ipv6_ops(op, a),
        "ipv6frag" | "ipv6fragslice" => frag_ops(op, a),
        "ipv4" | "ipv4slice" => ipv4_ops(op, a),
        "auth" | "authslice" => auth_ops(op, a),
        "rawext" | "rawextslice" => rawext_ops(op, a),
        "ipv4exts" | "ipv4extsslice" => exts_ops(op, a),
        _ => None,
    }
}
