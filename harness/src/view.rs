//! `view.*` operations: typed views of ICMPv4 / ICMPv6 / NDP / IGMP / ARP (property C17).
//! Every accessor of the result is printed; sub-slices as `(offset,len)` relative to the input.
use crate::util::*;
use etherparse::err::LenError;
use etherparse::icmpv6::{
    Icmpv6Payload, Icmpv6PayloadSlice, MtuOptionSlice, NdpOptionHeader, NdpOptionReadError,
    NdpOptionSlice, NdpOptionsIterator, PrefixInformationOptionSlice, RedirectedHeaderOptionSlice,
    SourceLinkLayerAddressOptionSlice, TargetLinkLayerAddressOptionSlice, UnknownNdpOptionSlice,
};
use etherparse::igmp::ReportGroupRecordV3Header;
use etherparse::*;

fn len_err(e: &LenError) -> String {
    crate::util::touch(e);
    format!(
        "err(len(req={},len={},src={:?},layer={:?},off={}))",
        e.required_len, e.len, e.len_source, e.layer, e.layer_start_offset
    )
}

fn opt_usize(v: Option<usize>) -> String {
    match v {
        None => "none".to_string(),
        Some(n) => format!("some({})", n),
    }
}

fn b01(b: bool) -> u8 {
    if b {
        1
    } else {
        0
    }
}

fn echo(h: &IcmpEchoHeader) -> String {
    format!("id={},seq={}", h.id, h.seq)
}

fn icmp4_type(t: &Icmpv4Type) -> String {
    use Icmpv4Type::*;
    match t {
        Unknown {
            type_u8,
            code_u8,
            bytes5to8,
        } => format!(
            "Unknown(type={},code={},b58={})",
            type_u8,
            code_u8,
            to_hex(bytes5to8)
        ),
        EchoReply(h) => format!("EchoReply({})", echo(h)),
        DestinationUnreachable(h) => {
            use icmpv4::DestUnreachableHeader::*;
            let s = match h {
                Network => "Network()".to_string(),
                Host => "Host()".to_string(),
                Protocol => "Protocol()".to_string(),
                Port => "Port()".to_string(),
                FragmentationNeeded { next_hop_mtu } => {
                    format!("FragmentationNeeded(mtu={})", next_hop_mtu)
                }
                SourceRouteFailed => "SourceRouteFailed()".to_string(),
                NetworkUnknown => "NetworkUnknown()".to_string(),
                HostUnknown => "HostUnknown()".to_string(),
                Isolated => "Isolated()".to_string(),
                NetworkProhibited => "NetworkProhibited()".to_string(),
                HostProhibited => "HostProhibited()".to_string(),
                TosNetwork => "TosNetwork()".to_string(),
                TosHost => "TosHost()".to_string(),
                FilterProhibited => "FilterProhibited()".to_string(),
                HostPrecedenceViolation => "HostPrecedenceViolation()".to_string(),
                PrecedenceCutoff => "PrecedenceCutoff()".to_string(),
            };
            format!("DestinationUnreachable.{}", s)
        }
        Redirect(h) => format!(
            "Redirect.{:?}(gw={})",
            h.code,
            to_hex(&h.gateway_internet_address)
        ),
        EchoRequest(h) => format!("EchoRequest({})", echo(h)),
        TimeExceeded(c) => format!("TimeExceeded.{:?}()", c),
        ParameterProblem(h) => {
            use icmpv4::ParameterProblemHeader::*;
            match h {
                PointerIndicatesError(p) => {
                    format!("ParameterProblem.PointerIndicatesError(ptr={})", p)
                }
                MissingRequiredOption => "ParameterProblem.MissingRequiredOption()".to_string(),
                BadLength => "ParameterProblem.BadLength()".to_string(),
            }
        }
        TimestampRequest(m) => format!(
            "TimestampRequest(id={},seq={},orig={},recv={},xmit={})",
            m.id, m.seq, m.originate_timestamp, m.receive_timestamp, m.transmit_timestamp
        ),
        TimestampReply(m) => format!(
            "TimestampReply(id={},seq={},orig={},recv={},xmit={})",
            m.id, m.seq, m.originate_timestamp, m.receive_timestamp, m.transmit_timestamp
        ),
    }
}

fn icmp4(b: &[u8]) -> String {
    let sl = match Icmpv4Slice::from_slice(b) {
        Err(e) => len_err(&e),
        Ok(s) => {
            let ty = s.icmp_type();
            let hd = s.header();
            // header() is icmp_type() + checksum(); print a marker if they ever differ
            let same = if hd.icmp_type == ty && hd.checksum == s.checksum() {
                ""
            } else {
                ",header-differs"
            };
            format!(
                "ok(type={},hl={},pl={},t={},c={},ck={},b58={},sl={},thl={},fps={}{})",
                icmp4_type(&ty),
                s.header_len(),
                win(b, s.payload()),
                s.type_u8(),
                s.code_u8(),
                s.checksum(),
                to_hex(&s.bytes5to8()),
                win(b, s.slice()),
                ty.header_len(),
                opt_usize(ty.fixed_payload_size()),
                same
            )
        }
    };
    let hd = match Icmpv4Header::from_slice(b) {
        Err(e) => len_err(&e),
        Ok((h, rest)) => {
            let extra = if h.header_len() != h.icmp_type.header_len()
                || h.fixed_payload_size() != h.icmp_type.fixed_payload_size()
            {
                ",header-len-differs"
            } else {
                ""
            };
            format!(
                "ok(type={},ck={},rest={}{})",
                icmp4_type(&h.icmp_type),
                h.checksum,
                win(b, rest),
                extra
            )
        }
    };
    format!("sl={};hd={}", sl, hd)
}

fn icmp6_type(t: &Icmpv6Type) -> String {
    use Icmpv6Type::*;
    match t {
        Unknown {
            type_u8,
            code_u8,
            bytes5to8,
        } => format!(
            "Unknown(type={},code={},b58={})",
            type_u8,
            code_u8,
            to_hex(bytes5to8)
        ),
        DestinationUnreachable(c) => format!("DestinationUnreachable.{:?}()", c),
        PacketTooBig { mtu } => format!("PacketTooBig(mtu={})", mtu),
        TimeExceeded(c) => format!("TimeExceeded.{:?}()", c),
        ParameterProblem(h) => format!("ParameterProblem.{:?}(ptr={})", h.code, h.pointer),
        EchoRequest(h) => format!("EchoRequest({})", echo(h)),
        EchoReply(h) => format!("EchoReply({})", echo(h)),
        RouterSolicitation => "RouterSolicitation()".to_string(),
        RouterAdvertisement(h) => format!(
            "RouterAdvertisement(hop={},m={},o={},life={})",
            h.cur_hop_limit,
            b01(h.managed_address_config),
            b01(h.other_config),
            h.router_lifetime
        ),
        NeighborSolicitation => "NeighborSolicitation()".to_string(),
        NeighborAdvertisement(h) => format!(
            "NeighborAdvertisement(r={},s={},o={})",
            b01(h.router),
            b01(h.solicited),
            b01(h.r#override)
        ),
        Redirect => "Redirect()".to_string(),
    }
}

fn icmp6(b: &[u8]) -> String {
    let sl = match Icmpv6Slice::from_slice(b) {
        Err(e) => len_err(&e),
        Ok(s) => {
            let ty = s.icmp_type();
            let hd = s.header();
            let same = if hd.icmp_type == ty && hd.checksum == s.checksum() {
                ""
            } else {
                ",header-differs"
            };
            format!(
                "ok(type={},hl={},pl={},t={},c={},ck={},b58={},sl={},tt={},tc={},thl={},fps={}{})",
                icmp6_type(&ty),
                s.header_len(),
                win(b, s.payload()),
                s.type_u8(),
                s.code_u8(),
                s.checksum(),
                to_hex(&s.bytes5to8()),
                win(b, s.slice()),
                ty.type_u8(),
                ty.code_u8(),
                ty.header_len(),
                opt_usize(ty.fixed_payload_size()),
                same
            )
        }
    };
    let hd = match Icmpv6Header::from_slice(b) {
        Err(e) => len_err(&e),
        Ok((h, rest)) => {
            let extra = if h.header_len() != h.icmp_type.header_len()
                || h.fixed_payload_size() != h.icmp_type.fixed_payload_size()
            {
                ",header-len-differs"
            } else {
                ""
            };
            format!(
                "ok(type={},ck={},rest={}{})",
                icmp6_type(&h.icmp_type),
                h.checksum,
                win(b, rest),
                extra
            )
        }
    };
    format!("sl={};hd={}", sl, hd)
}

fn ndp_err(e: &NdpOptionReadError) -> String {
    crate::util::touch(e);
    use NdpOptionReadError::*;
    match e {
        UnexpectedEndOfSlice {
            option_id,
            expected_size,
            actual_size,
        } => format!(
            "UnexpectedEndOfSlice(id={},exp={},act={})",
            option_id.0, expected_size, actual_size
        ),
        ZeroLength { option_id } => format!("ZeroLength(id={})", option_id.0),
        UnexpectedSize {
            option_id,
            expected_size,
            actual_size,
        } => format!(
            "UnexpectedSize(id={},exp={},act={})",
            option_id.0, expected_size, actual_size
        ),
        UnexpectedHeader {
            expected_option_id,
            actual_option_id,
            expected_length_units,
            actual_length_units,
        } => format!(
            "UnexpectedHeader(eid={},aid={},eu={},au={})",
            expected_option_id.0, actual_option_id.0, expected_length_units, actual_length_units
        ),
        _ => "OtherNdpError()".to_string(),
    }
}

fn sll(base: &[u8], o: &SourceLinkLayerAddressOptionSlice) -> String {
    let _ = o.option_type();
    format!(
        "SourceLinkLayerAddress(w={},addr={})",
        win(base, o.as_bytes()),
        win(base, o.link_layer_address())
    )
}

fn tll(base: &[u8], o: &TargetLinkLayerAddressOptionSlice) -> String {
    format!(
        "TargetLinkLayerAddress(w={},addr={})",
        win(base, o.as_bytes()),
        win(base, o.link_layer_address())
    )
}

fn prefix(base: &[u8], o: &PrefixInformationOptionSlice) -> String {
    let pi = o.prefix_information();
    let same = if pi.prefix_length == o.prefix_length()
        && pi.on_link == o.on_link()
        && pi.autonomous_address_configuration == o.autonomous_address_configuration()
        && pi.valid_lifetime == o.valid_lifetime()
        && pi.preferred_lifetime == o.preferred_lifetime()
        && pi.prefix == o.prefix()
        // the struct's own decoder and encoder: same value from the same 32 bytes, and the bytes back
        // (the reserved bits of octet 3 and octets 12..16 are written as zero)
        && etherparse::icmpv6::PrefixInformation::from_slice(o.as_bytes()).ok() == Some(pi)
        && etherparse::icmpv6::PrefixInformation::from_slice(&o.as_bytes()[..31]).is_err()
        && {
            let w = pi.to_bytes();
            let b = o.as_bytes();
            w[..3] == b[..3] && w[3] == b[3] & 0xc0 && w[4..12] == b[4..12] && w[12..16] == [0, 0, 0, 0] && w[16..] == b[16..]
                && etherparse::icmpv6::PrefixInformation::from_slice(&w).ok() == Some(pi)
        }
    {
        ""
    } else {
        ",struct-differs"
    };
    format!(
        "PrefixInformation(w={},plen={},l={},a={},valid={},pref={},prefix={}{})",
        win(base, o.as_bytes()),
        o.prefix_length(),
        b01(o.on_link()),
        b01(o.autonomous_address_configuration()),
        o.valid_lifetime(),
        o.preferred_lifetime(),
        to_hex(&o.prefix()),
        same
    )
}

fn redirected(base: &[u8], o: &RedirectedHeaderOptionSlice) -> String {
    format!(
        "RedirectedHeader(w={},pkt={})",
        win(base, o.as_bytes()),
        win(base, o.redirected_packet())
    )
}

fn mtu(base: &[u8], o: &MtuOptionSlice) -> String {
    format!("Mtu(w={},mtu={})", win(base, o.as_bytes()), o.mtu())
}

fn unknown_opt(base: &[u8], o: &UnknownNdpOptionSlice) -> String {
    format!(
        "Unknown(w={},type={},data={})",
        win(base, o.as_bytes()),
        o.option_type().0,
        win(base, o.data())
    )
}

fn ndp_opt(base: &[u8], o: &NdpOptionSlice) -> String {
    // the enum-level accessors must agree with the variant-level ones
    let s = match o {
        NdpOptionSlice::SourceLinkLayerAddress(v) => sll(base, v),
        NdpOptionSlice::TargetLinkLayerAddress(v) => tll(base, v),
        NdpOptionSlice::PrefixInformation(v) => prefix(base, v),
        NdpOptionSlice::RedirectedHeader(v) => redirected(base, v),
        NdpOptionSlice::Mtu(v) => mtu(base, v),
        NdpOptionSlice::Unknown(v) => unknown_opt(base, v),
        _ => "OtherNdpOption()".to_string(),
    };
    let w = win(base, o.as_bytes());
    if !s.contains(&format!("(w={}", w)) || o.as_bytes().first().copied() != Some(o.option_type().0)
    {
        return format!("{}!enum-accessors-differ", s);
    }
    s
}

fn ndp_step(base: &[u8], it: &mut NdpOptionsIterator) -> String {
    match it.next() {
        None => "none".to_string(),
        Some(Ok(o)) => format!("some({})", ndp_opt(base, &o)),
        Some(Err(e)) => format!("some(err({}))", ndp_err(&e)),
    }
}

/// iterate an option area (`area` lies inside `base`): at most len/8+3 steps, then two more calls.
fn ndp_iterate(base: &[u8], mut it: NdpOptionsIterator) -> String {
    // (the Debug rendering walks a copy of the iterator with no bound of its own: it is asked for only after the
    // bounded walk below has shown that the iteration ends)
    let at_start = it.clone();
    let max = it.rest().len() / 8 + 3;
    let mut items: Vec<String> = Vec::new();
    let mut steps = 0usize;
    let mut runaway = false;
    loop {
        if steps >= max {
            runaway = true;
            break;
        }
        match it.next() {
            None => break,
            Some(Ok(o)) => items.push(format!("{}@{}", ndp_opt(base, &o), win(base, it.rest()))),
            Some(Err(e)) => items.push(format!("err({})@{}", ndp_err(&e), it.rest().len())),
        }
        steps += 1;
    }
    let body = format!("[{}]", items.join(","));
    if runaway {
        return format!("{};runaway", body);
    }
    let _ = format!("{:?}", at_start);
    let a = ndp_step(base, &mut it);
    let b = ndp_step(base, &mut it);
    format!("{};tail={},{}", body, a, b)
}

fn ndp_opt_single(kind: &str, s: &[u8]) -> Option<String> {
    fn wrap(r: Result<String, NdpOptionReadError>) -> String {
        match r {
            Ok(v) => format!("ok({})", v),
            Err(e) => format!("err({})", ndp_err(&e)),
        }
    }
    Some(match kind {
        "sll" => wrap(SourceLinkLayerAddressOptionSlice::from_slice(s).map(|o| sll(s, &o))),
        "tll" => wrap(TargetLinkLayerAddressOptionSlice::from_slice(s).map(|o| tll(s, &o))),
        "prefix" => wrap(PrefixInformationOptionSlice::from_slice(s).map(|o| prefix(s, &o))),
        "redirected" => wrap(RedirectedHeaderOptionSlice::from_slice(s).map(|o| redirected(s, &o))),
        "mtu" => wrap(MtuOptionSlice::from_slice(s).map(|o| mtu(s, &o))),
        "unknown" => wrap(UnknownNdpOptionSlice::from_slice(s).map(|o| unknown_opt(s, &o))),
        "header" => match NdpOptionHeader::from_slice(s) {
            Err(e) => format!("err({})", ndp_err(&e)),
            Ok((h, rest)) => format!(
                "ok(type={},units={},blen={},rest={}){}",
                h.option_type.0,
                h.length_units,
                h.byte_len(),
                win(s, rest),
                if h.to_bytes()[..] != s[..2] { "!accessor-mismatch" } else { "" }
            ),
        },
        _ => return None,
    })
}

fn addr6(a: core::net::Ipv6Addr) -> String {
    to_hex(&a.octets())
}

fn payload6(b: &[u8], r: Result<Icmpv6PayloadSlice, LenError>) -> String {
    let p = match r {
        Err(e) => return len_err(&e),
        Ok(p) => p,
    };
    let sl = win(b, p.slice());
    // to_payload(): Some((fixed part struct, options)) for the NDP kinds
    let tp = match p.to_payload() {
        None => "none".to_string(),
        Some((pl, opts)) => {
            let f = match pl {
                Icmpv6Payload::RouterSolicitation(_) => String::new(),
                Icmpv6Payload::RouterAdvertisement(v) => {
                    format!("reachable={},retrans={},", v.reachable_time, v.retrans_timer)
                }
                Icmpv6Payload::NeighborSolicitation(v) => {
                    format!("target={},", addr6(v.target_address))
                }
                Icmpv6Payload::NeighborAdvertisement(v) => {
                    format!("target={},", addr6(v.target_address))
                }
                Icmpv6Payload::Redirect(v) => format!(
                    "target={},dest={},",
                    addr6(v.target_address),
                    addr6(v.destination_address)
                ),
                _ => "other,".to_string(),
            };
            format!("some({}opts={})", f, win(b, opts))
        }
    };
    match &p {
        Icmpv6PayloadSlice::DestinationUnreachable(v) => format!(
            "DestinationUnreachable(sl={},data={},tp={}){}",
            sl,
            win(b, v.invoking_packet()),
            tp,
            embedded_ip_differs(v.invoking_packet(), v.as_lax_ip_slice())
        ),
        Icmpv6PayloadSlice::PacketTooBig(v) => format!(
            "PacketTooBig(sl={},data={},tp={}){}",
            sl,
            win(b, v.invoking_packet()),
            tp,
            embedded_ip_differs(v.invoking_packet(), v.as_lax_ip_slice())
        ),
        Icmpv6PayloadSlice::TimeExceeded(v) => format!(
            "TimeExceeded(sl={},data={},tp={}){}",
            sl,
            win(b, v.invoking_packet()),
            tp,
            embedded_ip_differs(v.invoking_packet(), v.as_lax_ip_slice())
        ),
        Icmpv6PayloadSlice::ParameterProblem(v) => format!(
            "ParameterProblem(sl={},data={},tp={}){}",
            sl,
            win(b, v.invoking_packet()),
            tp,
            embedded_ip_differs(v.invoking_packet(), v.as_lax_ip_slice())
        ),
        Icmpv6PayloadSlice::EchoRequest(v) => {
            format!("EchoRequest(sl={},data={},tp={})", sl, win(b, v.data()), tp)
        }
        Icmpv6PayloadSlice::EchoReply(v) => {
            format!("EchoReply(sl={},data={},tp={})", sl, win(b, v.data()), tp)
        }
        Icmpv6PayloadSlice::RouterSolicitation(v) => format!(
            "RouterSolicitation(sl={},opts={},tp={},it={})",
            sl,
            win(b, v.options()),
            tp,
            ndp_iterate(b, v.options_iterator())
        ),
        Icmpv6PayloadSlice::RouterAdvertisement(v) => format!(
            "RouterAdvertisement(sl={},reachable={},retrans={},opts={},tp={},it={})",
            sl,
            v.reachable_time(),
            v.retrans_timer(),
            win(b, v.options()),
            tp,
            ndp_iterate(b, v.options_iterator())
        ),
        Icmpv6PayloadSlice::NeighborSolicitation(v) => format!(
            "NeighborSolicitation(sl={},target={},opts={},tp={},it={})",
            sl,
            addr6(v.target_address()),
            win(b, v.options()),
            tp,
            ndp_iterate(b, v.options_iterator())
        ),
        Icmpv6PayloadSlice::NeighborAdvertisement(v) => format!(
            "NeighborAdvertisement(sl={},target={},opts={},tp={},it={})",
            sl,
            addr6(v.target_address()),
            win(b, v.options()),
            tp,
            ndp_iterate(b, v.options_iterator())
        ),
        Icmpv6PayloadSlice::Redirect(v) => format!(
            "Redirect(sl={},target={},dest={},opts={},tp={},it={})",
            sl,
            addr6(v.target_address()),
            addr6(v.destination_address()),
            win(b, v.options()),
            tp,
            ndp_iterate(b, v.options_iterator())
        ),
        Icmpv6PayloadSlice::Raw(_) => format!("Raw(sl={},tp={})", sl, tp),
        _ => "OtherPayload()".to_string(),
    }
}

/// `as_lax_ip_slice()` of the ICMPv6 error payloads is lax IP decoding of the invoking packet
type LaxIpRes<'a> = Result<
    (
        LaxIpSlice<'a>,
        Option<(err::ipv6_exts::HeaderSliceError, err::Layer)>,
    ),
    err::ip::LaxHeaderSliceError,
>;
fn embedded_ip_differs(data: &[u8], got: LaxIpRes) -> &'static str {
    let want = LaxIpSlice::from_slice(data);
    if format!("{:?}", want) == format!("{:?}", got) {
        ""
    } else {
        "!doors-differ(as_lax_ip_slice)"
    }
}

fn icmp6_payload(b: &[u8]) -> String {
    match Icmpv6Slice::from_slice(b) {
        Err(e) => len_err(&e),
        Ok(s) => {
            let ps = payload6(b, s.payload_slice());
            let ty = s.icmp_type();
            let tps = payload6(b, ty.payload_slice(s.payload()));
            // payload_from_slice = payload_slice().map(to_payload): must agree in Ok/Err
            let pfs = ty.payload_from_slice(s.payload());
            let extra = if pfs.is_ok() != ty.payload_slice(s.payload()).is_ok() {
                ";payload-from-slice-differs"
            } else {
                ""
            };
            format!("ok(ps={};tps={}{})", ps, tps, extra)
        }
    }
}

fn igmp_type(t: &IgmpType) -> String {
    use IgmpType::*;
    match t {
        MembershipQuery(v) => format!(
            "MembershipQuery(max_resp={},group={})",
            v.max_response_time,
            to_hex(&v.group_address.octets)
        ),
        MembershipQueryWithSources(v) => format!(
            "MembershipQueryWithSources(max_resp_code={},group={},raw8={},flags={},s={},qrv={},qqic={},nsrc={})",
            v.max_response_code.0,
            to_hex(&v.group_address.octets),
            v.raw_byte_8,
            v.flags(),
            b01(v.s_flag()),
            v.qrv().value(),
            v.qqic,
            v.num_of_sources
        ),
        MembershipReportV1(v) => {
            format!("MembershipReportV1(group={})", to_hex(&v.group_address.octets))
        }
        MembershipReportV2(v) => {
            format!("MembershipReportV2(group={})", to_hex(&v.group_address.octets))
        }
        MembershipReportV3(v) => format!(
            "MembershipReportV3(flags={},nrec={})",
            to_hex(&v.flags),
            v.num_of_records
        ),
        LeaveGroup(v) => format!("LeaveGroup(group={})", to_hex(&v.group_address.octets)),
        Unknown(v) => format!(
            "Unknown(type={},b1={},b47={})",
            v.igmp_type,
            v.raw_byte_1,
            to_hex(&v.raw_bytes_4_7)
        ),
    }
}

fn igmp(b: &[u8]) -> String {
    match IgmpHeader::from_slice(b) {
        Err(e) => len_err(&e),
        Ok((h, rest)) => {
            let tenths = match &h.igmp_type {
                IgmpType::MembershipQueryWithSources(v) => {
                    v.max_response_code.as_10th_secs().to_string()
                }
                _ => "-".to_string(),
            };
            format!(
                "ok(type={},hl={},rest={},ck={},tenths={})",
                igmp_type(&h.igmp_type),
                h.header_len(),
                win(b, rest),
                h.checksum,
                tenths
            )
        }
    }
}

fn igmp_record(b: &[u8]) -> String {
    match ReportGroupRecordV3Header::from_slice(b) {
        Err(e) => len_err(&e),
        Ok((h, rest)) => format!(
            "ok(type=GroupRecord(type={},aux={},nsrc={},addr={}),hl={},rest={})",
            h.record_type.0,
            h.aux_data_len,
            h.num_of_sources,
            to_hex(&h.multicast_address),
            ReportGroupRecordV3Header::LEN,
            win(b, rest)
        ),
    }
}

fn eth_ipv4(r: Result<ArpEthIpv4Packet, err::arp::ArpEthIpv4FromError>) -> String {
    use err::arp::ArpEthIpv4FromError::*;
    match r {
        Ok(p) => {
            let addr_ok = p.sender_ipv4_addr().octets() == p.sender_ipv4
                && p.target_ipv4_addr().octets() == p.target_ipv4;
            format!(
                "ok(ArpEthIpv4(op={},smac={},sip={},tmac={},tip={}){})",
                p.operation.0,
                to_hex(&p.sender_mac),
                to_hex(&p.sender_ipv4),
                to_hex(&p.target_mac),
                to_hex(&p.target_ipv4),
                if addr_ok { "" } else { ",addr-accessor-differs" }
            )
        }
        Err(NonMatchingHwType(t)) => format!("err(NonMatchingHwType({}))", t.0),
        Err(NonMatchingProtocolType(t)) => format!("err(NonMatchingProtocolType({}))", t.0),
        Err(NonMatchingHwAddrSize(n)) => format!("err(NonMatchingHwAddrSize({}))", n),
        Err(NonMatchingProtoAddrSize(n)) => format!("err(NonMatchingProtoAddrSize({}))", n),
    }
}

fn arp_eth_ipv4(b: &[u8]) -> String {
    let sl = match ArpPacketSlice::from_slice(b) {
        Err(e) => len_err(&e),
        Ok(s) => format!(
            "ok(w={},hrd={},pro={},hln={},pln={},op={},sha={},spa={},tha={},tpa={})",
            win(b, s.slice()),
            s.hw_addr_type().0,
            s.proto_addr_type().0,
            s.hw_addr_size(),
            s.proto_addr_size(),
            s.operation().0,
            win(b, s.sender_hw_addr()),
            win(b, s.sender_protocol_addr()),
            win(b, s.target_hw_addr()),
            win(b, s.target_protocol_addr())
        ),
    };
    match ArpPacket::from_slice(b) {
        Err(e) => format!("sl={};pk={}", sl, len_err(&e)),
        Ok(pk) => {
            let pks = format!(
                "ok(hrd={},pro={},hln={},pln={},op={},sha={},spa={},tha={},tpa={})",
                pk.hw_addr_type.0,
                pk.proto_addr_type.0,
                pk.hw_addr_size(),
                pk.protocol_addr_size(),
                pk.operation.0,
                to_hex(pk.sender_hw_addr()),
                to_hex(pk.sender_protocol_addr()),
                to_hex(pk.target_hw_addr()),
                to_hex(pk.target_protocol_addr())
            );
            let v = eth_ipv4(pk.try_eth_ipv4());
            let tf = eth_ipv4(ArpEthIpv4Packet::try_from(pk));
            format!("sl={};pk={};v={};tf={}", sl, pks, v, tf)
        }
    }
}

pub fn run(op: &str, a: &[&str]) -> Option<String> {
    Some(match (op, a) {
        ("view.icmp4", [h]) => icmp4(&hex(h)?),
        ("view.icmp6", [h]) => icmp6(&hex(h)?),
        ("view.icmp6_payload", [h]) => icmp6_payload(&hex(h)?),
        ("view.ndp_opts", [h]) => {
            let b = hex(h)?;
            ndp_iterate(&b, NdpOptionsIterator::from_slice(&b))
        }
        ("view.ndp_opt", [k, h]) => ndp_opt_single(k, &hex(h)?)?,
        ("view.igmp", [h]) => igmp(&hex(h)?),
        ("view.igmp_record", [h]) => igmp_record(&hex(h)?),
        ("view.arp_eth_ipv4", [h]) => arp_eth_ipv4(&hex(h)?),
        _ => return None,
    })
}
