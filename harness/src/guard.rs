//! Guard-page placement of inputs (C01 runtime oracle): an input is copied so that it ends exactly
//! at an inaccessible page (an out-of-bounds read behind it faults) or starts right behind one
//! (an out-of-bounds read in front of it faults); the bytes on the accessible side differ between
//! the two placements so a result that depends on neighbouring memory shows up as a difference.
use std::cell::RefCell;

const PAGE: usize = 4096;
const PAGES: usize = 20; // inputs up to 80 KiB

pub struct Arena {
    r1: *mut u8, // PAGES data pages followed by a PROT_NONE page
    r2: *mut u8, // a PROT_NONE page followed by PAGES data pages
}

impl Arena {
    fn new() -> Option<Arena> {
        unsafe {
            let len = (PAGES + 1) * PAGE;
            let r1 = libc::mmap(core::ptr::null_mut(), len, libc::PROT_READ | libc::PROT_WRITE, libc::MAP_PRIVATE | libc::MAP_ANONYMOUS, -1, 0);
            let r2 = libc::mmap(core::ptr::null_mut(), len, libc::PROT_READ | libc::PROT_WRITE, libc::MAP_PRIVATE | libc::MAP_ANONYMOUS, -1, 0);
            if r1 == libc::MAP_FAILED || r2 == libc::MAP_FAILED {
                return None;
            }
            let r1 = r1 as *mut u8;
            let r2 = r2 as *mut u8;
            core::ptr::write_bytes(r1, 0xAA, PAGES * PAGE);
            core::ptr::write_bytes(r2.add(PAGE), 0x55, PAGES * PAGE);
            if libc::mprotect(r1.add(PAGES * PAGE) as *mut libc::c_void, PAGE, libc::PROT_NONE) != 0 {
                return None;
            }
            if libc::mprotect(r2 as *mut libc::c_void, PAGE, libc::PROT_NONE) != 0 {
                return None;
            }
            Some(Arena { r1, r2 })
        }
    }

    /// the data ends exactly where the inaccessible page starts; 0xAA bytes in front of it
    pub fn at_end<'a>(&'a self, data: &[u8]) -> &'a [u8] {
        unsafe {
            let end = self.r1.add(PAGES * PAGE);
            core::ptr::write_bytes(self.r1, 0xAA, PAGES * PAGE);
            let start = end.sub(data.len());
            core::ptr::copy_nonoverlapping(data.as_ptr(), start, data.len());
            core::slice::from_raw_parts(start, data.len())
        }
    }

    /// the data starts `k` bytes behind the start of the accessible pages (no guard page adjacent: placement
    /// independence only); 0x55 around it
    pub fn at_start_plus<'a>(&'a self, data: &[u8], k: usize) -> &'a [u8] {
        unsafe {
            let start = self.r2.add(PAGE);
            core::ptr::write_bytes(start, 0x55, PAGES * PAGE);
            let k = if data.len() + k <= PAGES * PAGE { k } else { 0 };
            core::ptr::copy_nonoverlapping(data.as_ptr(), start.add(k), data.len());
            core::slice::from_raw_parts(start.add(k), data.len())
        }
    }

    /// the data starts right behind the inaccessible page; 0x55 bytes behind it
    pub fn at_start<'a>(&'a self, data: &[u8]) -> &'a [u8] {
        unsafe {
            let start = self.r2.add(PAGE);
            core::ptr::write_bytes(start, 0x55, PAGES * PAGE);
            core::ptr::copy_nonoverlapping(data.as_ptr(), start, data.len());
            core::slice::from_raw_parts(start, data.len())
        }
    }
}

thread_local! {
    static ARENA: RefCell<Option<Arena>> = RefCell::new(Arena::new());
    /// observations that have to be the same on every placement but are not part of the canonical result line
    /// (checksums over the decoded slices, validity verdicts)
    static EXTRA: RefCell<String> = RefCell::new(String::new());
}

/// records a placement-sensitive observation of the operation that is running (compared between the placements)
pub fn observe(s: &str) {
    EXTRA.with(|e| {
        let mut e = e.borrow_mut();
        if e.len() < 4096 {
            e.push_str(s);
            e.push(';');
        }
    });
}

fn take_extra() -> String {
    EXTRA.with(|e| std::mem::take(&mut *e.borrow_mut()))
}

/// runs `f` on both placements of `data`; the two results must be identical.
pub fn both_placements(data: &[u8], f: impl Fn(&[u8]) -> Option<String>) -> Option<String> {
    if data.len() > PAGES * PAGE {
        return f(data);
    }
    ARENA.with(|a| {
        let a = a.borrow();
        match a.as_ref() {
            None => f(data),
            Some(arena) => {
                take_extra();
                let r1 = f(arena.at_end(data))?;
                let x1 = take_extra();
                let r2 = f(arena.at_start(data))?;
                let x2 = take_extra();
                // third placement: one byte further into the page (an odd address where the second was even)
                let r3 = f(arena.at_start_plus(data, 1))?;
                let x3 = take_extra();
                if r1 == r2 && r1 == r3 && x1 == x2 && x1 == x3 {
                    Some(r1)
                } else if r1 != r2 {
                    Some(format!("{}!placement-dependent[{}]", r1, r2))
                } else if r1 != r3 {
                    Some(format!("{}!placement-dependent[{}]", r1, r3))
                } else {
                    Some(format!("{}!placement-dependent[observed:{}|{}|{}]", r1, x1, x2, x3))
                }
            }
        }
    })
}
