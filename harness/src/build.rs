//! `build.*` operations (C10): PacketBuilder.  Same grammar and line formats as
//! lean/EpModel/Driver/Build.lean (see the comment at the top of that file).
//!
//! `build.write` runs `write` (generic `std::io::Write` path into a wrapper around a Vec),
//! `write_to_vec` and `write_to_slice` (exact-size buffer) on three separately constructed
//! builders and compares the results (`!serialisers-differ(...)` if they are not identical),
//! and prints `size(payload.len())`.
//!
//! C16 additions (same grammar): `build.failw <cfg> <payload> <k>` runs `write` into a writer that
//! accepts exactly k bytes and then fails with an injected error; `build.slicebuf <cfg> <payload>
//! <cap>` is `build.slice` that also prints the cap bytes of the buffer afterwards and the state
//! of a canary behind them.
#![allow(unused_imports, dead_code)]
use crate::util::*;
use etherparse::err::packet::{BuildSliceWriteError, BuildVecWriteError, BuildWriteError};
use etherparse::err::ValueTooBigError;
use etherparse::*;

// ---------------------------------------------------------------------------------------------
// parsing

type P<T> = Option<Result<T, String>>;

fn hex_n<const N: usize>(s: &str) -> Option<[u8; N]> {
    hex(s)?.try_into().ok()
}
fn boolean(s: &str) -> Option<bool> {
    match s {
        "1" => Some(true),
        "0" => Some(false),
        _ => None,
    }
}
fn list(s: &str) -> Vec<&str> {
    if s == "-" {
        Vec::new()
    } else {
        s.split(',').collect()
    }
}
fn colon(s: &str) -> Vec<&str> {
    s.split(':').collect()
}

fn parse_payload(s: &str) -> Option<Vec<u8>> {
    let p = colon(s);
    match &p[..] {
        ["len", n, b] => {
            let n: usize = num(n)?;
            let b: u8 = num(b)?;
            if n >= 1_000_000 {
                return None;
            }
            Some(vec![b; n])
        }
        [h] => hex(h),
        _ => None,
    }
}

#[derive(Clone)]
enum LinkC {
    None,
    Eth([u8; 6], [u8; 6]),
    Sll(LinuxSllPacketType, u16, [u8; 8]),
}

#[derive(Clone)]
enum VlanC {
    None,
    S(VlanId),
    D(VlanId, VlanId),
    V(VlanHeader),
}

#[derive(Clone)]
enum NetC {
    Arp(ArpPacket),
    V4([u8; 4], [u8; 4], u8),
    V6([u8; 16], [u8; 16], u8),
    Ip(IpHeaders),
}

#[derive(Clone)]
enum FlagOp {
    Ns,
    Fin,
    Syn,
    Rst,
    Psh,
    Ece,
    Cwr,
    Ack(u32),
    Urg(u16),
}

#[derive(Clone)]
enum OptC {
    None,
    Raw(Vec<u8>),
    El(Vec<TcpOptionElement>),
}

#[derive(Clone)]
enum IcmpC<T> {
    T(T),
    Raw(u8, u8, [u8; 4]),
    Ereq(u16, u16),
    Erep(u16, u16),
}

#[derive(Clone)]
enum TpC {
    None,
    Raw(u8),
    Udp(u16, u16),
    Tcp(u16, u16, u32, u16, Vec<FlagOp>, OptC),
    TcpH(TcpHeader),
    I4(IcmpC<Icmpv4Type>),
    I6(IcmpC<Icmpv6Type>),
}

#[derive(Clone)]
struct Cfg {
    link: LinkC,
    vlan: VlanC,
    net: NetC,
    tp: TpC,
}

fn parse_link(s: &str) -> Option<LinkC> {
    let p = colon(s);
    match &p[..] {
        ["none"] => Some(LinkC::None),
        ["eth", a, b] => Some(LinkC::Eth(hex_n::<6>(a)?, hex_n::<6>(b)?)),
        ["sll", pt, alen, addr] => {
            let pt: u16 = num(pt)?;
            let pt = LinuxSllPacketType::try_from(pt).ok()?;
            Some(LinkC::Sll(pt, num(alen)?, hex_n::<8>(addr)?))
        }
        _ => None,
    }
}

fn parse_vlan_h(a: &[&str]) -> Option<SingleVlanHeader> {
    match a {
        [p, d, v, e] => Some(SingleVlanHeader {
            pcp: VlanPcp::try_new(num(p)?).ok()?,
            drop_eligible_indicator: boolean(d)?,
            vlan_id: VlanId::try_new(num(v)?).ok()?,
            ether_type: EtherType(num(e)?),
        }),
        _ => None,
    }
}

fn parse_vlan(s: &str) -> Option<VlanC> {
    let p = colon(s);
    match &p[..] {
        ["none"] => Some(VlanC::None),
        ["s", v] => Some(VlanC::S(VlanId::try_new(num(v)?).ok()?)),
        ["d", o, i] => Some(VlanC::D(
            VlanId::try_new(num(o)?).ok()?,
            VlanId::try_new(num(i)?).ok()?,
        )),
        ["vs", r @ ..] => Some(VlanC::V(VlanHeader::Single(parse_vlan_h(r)?))),
        ["vd", a, b, c, d, e, f, g, h] => Some(VlanC::V(VlanHeader::Double(DoubleVlanHeader {
            outer: parse_vlan_h(&[a, b, c, d])?,
            inner: parse_vlan_h(&[e, f, g, h])?,
        }))),
        _ => None,
    }
}

fn too_big<T: core::fmt::Display + core::fmt::Debug + Clone + Eq + core::hash::Hash>(
    e: &ValueTooBigError<T>,
) -> String {
    format!(
        "err(toobig(actual={},max={},type={:?}))",
        e.actual, e.max_allowed, e.value_type
    )
}

fn rawext_value(nh: &str, payload: &str) -> P<Ipv6RawExtHeader> {
    let nh: u8 = num(nh)?;
    let payload = hex(payload)?;
    Some(match Ipv6RawExtHeader::new_raw(IpNumber(nh), &payload) {
        Ok(h) => Ok(h),
        Err(e) => Err(format!("err(extlen({:?}))", e)),
    })
}

fn auth_value(nh: &str, spi: &str, seq: &str, icv: &str) -> P<IpAuthHeader> {
    let nh: u8 = num(nh)?;
    let spi: u32 = num(spi)?;
    let seq: u32 = num(seq)?;
    let icv = hex(icv)?;
    Some(match IpAuthHeader::new(IpNumber(nh), spi, seq, &icv) {
        Ok(h) => Ok(h),
        Err(e) => Err(format!("err(icv({:?}))", e)),
    })
}

fn frag_value(nh: &str, fo: &str, mf: &str, id: &str) -> P<Ipv6FragmentHeader> {
    let nh: u8 = num(nh)?;
    let fo: u16 = num(fo)?;
    let mf = boolean(mf)?;
    let id: u32 = num(id)?;
    let fo = match IpFragOffset::try_new(fo) {
        Ok(v) => v,
        Err(e) => return Some(Err(too_big(&e))),
    };
    Some(Ok(Ipv6FragmentHeader::new(IpNumber(nh), fo, mf, id)))
}

fn ipv4_value(a: &[&str]) -> P<Ipv4Header> {
    if let [dscp, ecn, tlen, id, df, mf, fo, ttl, proto, ck, src, dst, opts] = a {
        let dscp: u8 = num(dscp)?;
        let ecn: u8 = num(ecn)?;
        let tlen: u16 = num(tlen)?;
        let id: u16 = num(id)?;
        let df = boolean(df)?;
        let mf = boolean(mf)?;
        let fo: u16 = num(fo)?;
        let ttl: u8 = num(ttl)?;
        let proto: u8 = num(proto)?;
        let ck: u16 = num(ck)?;
        let src: [u8; 4] = hex_n::<4>(src)?;
        let dst: [u8; 4] = hex_n::<4>(dst)?;
        let opts = hex(opts)?;
        let dscp = match IpDscp::try_new(dscp) {
            Ok(v) => v,
            Err(e) => return Some(Err(too_big(&e))),
        };
        let ecn = match IpEcn::try_new(ecn) {
            Ok(v) => v,
            Err(e) => return Some(Err(too_big(&e))),
        };
        let fo = match IpFragOffset::try_new(fo) {
            Ok(v) => v,
            Err(e) => return Some(Err(too_big(&e))),
        };
        let options = match Ipv4Options::try_from(&opts[..]) {
            Ok(v) => v,
            Err(e) => return Some(Err(format!("err(badoptlen({}))", e.bad_len))),
        };
        Some(Ok(Ipv4Header {
            dscp,
            ecn,
            total_len: tlen,
            identification: id,
            dont_fragment: df,
            more_fragments: mf,
            fragment_offset: fo,
            time_to_live: ttl,
            protocol: IpNumber(proto),
            header_checksum: ck,
            source: src,
            destination: dst,
            options,
        }))
    } else {
        None
    }
}

fn ipv6_value(a: &[&str]) -> P<Ipv6Header> {
    if let [tc, fl, plen, nh, hop, src, dst] = a {
        let tc: u8 = num(tc)?;
        let fl: u32 = num(fl)?;
        let plen: u16 = num(plen)?;
        let nh: u8 = num(nh)?;
        let hop: u8 = num(hop)?;
        let src = hex_n::<16>(src)?;
        let dst = hex_n::<16>(dst)?;
        let fl = match Ipv6FlowLabel::try_new(fl) {
            Ok(v) => v,
            Err(e) => return Some(Err(too_big(&e))),
        };
        Some(Ok(Ipv6Header {
            traffic_class: tc,
            flow_label: fl,
            payload_length: plen,
            next_header: IpNumber(nh),
            hop_limit: hop,
            source: src,
            destination: dst,
        }))
    } else {
        None
    }
}

fn arp_value(a: &[&str]) -> P<ArpPacket> {
    match a {
        [hw, pr, op, s1, s2, t1, t2] => {
            let hw: u16 = num(hw)?;
            let pr: u16 = num(pr)?;
            let op: u16 = num(op)?;
            let (s1, s2, t1, t2) = (hex(s1)?, hex(s2)?, hex(t1)?, hex(t2)?);
            Some(
                ArpPacket::new(
                    ArpHardwareId(hw),
                    EtherType(pr),
                    ArpOperation(op),
                    &s1,
                    &s2,
                    &t1,
                    &t2,
                )
                .map_err(|e| {
                    use err::arp::*;
                    match e {
                        ArpNewError::HwAddr(ArpHwAddrError::LenNonMatching(a, b)) => {
                            format!("err(arpnew(HwAddr(LenNonMatching({},{}))))", a, b)
                        }
                        ArpNewError::HwAddr(ArpHwAddrError::LenTooBig(a)) => {
                            format!("err(arpnew(HwAddr(LenTooBig({}))))", a)
                        }
                        ArpNewError::ProtoAddr(ArpProtoAddrError::LenNonMatching(a, b)) => {
                            format!("err(arpnew(ProtoAddr(LenNonMatching({},{}))))", a, b)
                        }
                        ArpNewError::ProtoAddr(ArpProtoAddrError::LenTooBig(a)) => {
                            format!("err(arpnew(ProtoAddr(LenTooBig({}))))", a)
                        }
                    }
                }),
            )
        }
        _ => None,
    }
}

macro_rules! tryp {
    ($e:expr) => {
        match $e? {
            Ok(v) => v,
            Err(m) => return Some(Err(m)),
        }
    };
}

fn parse_net(s: &str) -> P<NetC> {
    let mut secs = s.split('|');
    let main = colon(secs.next()?);
    let subs: Vec<&str> = secs.collect();
    match (&main[..], &subs[..]) {
        (["arp", r @ ..], []) => Some(Ok(NetC::Arp(tryp!(arp_value(r))))),
        (["v4", a, b, t], []) => Some(Ok(NetC::V4(hex_n::<4>(a)?, hex_n::<4>(b)?, num(t)?))),
        (["v6", a, b, t], []) => Some(Ok(NetC::V6(hex_n::<16>(a)?, hex_n::<16>(b)?, num(t)?))),
        (["ip4", r @ ..], subs) => {
            let ip = tryp!(ipv4_value(r));
            match subs {
                [] => Some(Ok(NetC::Ip(IpHeaders::Ipv4(ip, Ipv4Extensions { auth: None })))),
                [au] => {
                    let p = colon(au);
                    match &p[..] {
                        ["au", nh, spi, seq, icv] => {
                            let h = tryp!(auth_value(nh, spi, seq, icv));
                            Some(Ok(NetC::Ip(IpHeaders::Ipv4(
                                ip,
                                Ipv4Extensions { auth: Some(h) },
                            ))))
                        }
                        _ => None,
                    }
                }
                _ => None,
            }
        }
        (["ip6", r @ ..], subs) => {
            let ip = tryp!(ipv6_value(r));
            let mut e = Ipv6Extensions {
                hop_by_hop_options: None,
                destination_options: None,
                routing: None,
                fragment: None,
                auth: None,
            };
            let mut fd: Option<Ipv6RawExtHeader> = None;
            for sub in subs {
                let p = colon(sub);
                match &p[..] {
                    ["hbh", nh, pl] => {
                        if e.hop_by_hop_options.is_some() {
                            return None;
                        }
                        e.hop_by_hop_options = Some(tryp!(rawext_value(nh, pl)));
                    }
                    ["dst", nh, pl] => {
                        if e.destination_options.is_some() {
                            return None;
                        }
                        e.destination_options = Some(tryp!(rawext_value(nh, pl)));
                    }
                    ["rt", nh, pl] => {
                        if e.routing.is_some() {
                            return None;
                        }
                        e.routing = Some(Ipv6RoutingExtensions {
                            routing: tryp!(rawext_value(nh, pl)),
                            final_destination_options: None,
                        });
                    }
                    ["fd", nh, pl] => {
                        if fd.is_some() {
                            return None;
                        }
                        fd = Some(tryp!(rawext_value(nh, pl)));
                    }
                    ["fr", nh, fo, mf, id] => {
                        if e.fragment.is_some() {
                            return None;
                        }
                        e.fragment = Some(tryp!(frag_value(nh, fo, mf, id)));
                    }
                    ["au", nh, spi, seq, icv] => {
                        if e.auth.is_some() {
                            return None;
                        }
                        e.auth = Some(tryp!(auth_value(nh, spi, seq, icv)));
                    }
                    _ => return None,
                }
            }
            if let Some(f) = fd {
                match e.routing.as_mut() {
                    Some(r) => r.final_destination_options = Some(f),
                    None => return None,
                }
            }
            Some(Ok(NetC::Ip(IpHeaders::Ipv6(ip, e))))
        }
        _ => None,
    }
}

fn parse_flag(s: &str) -> Option<FlagOp> {
    let p: Vec<&str> = s.split('=').collect();
    match &p[..] {
        ["ns"] => Some(FlagOp::Ns),
        ["fin"] => Some(FlagOp::Fin),
        ["syn"] => Some(FlagOp::Syn),
        ["rst"] => Some(FlagOp::Rst),
        ["psh"] => Some(FlagOp::Psh),
        ["ece"] => Some(FlagOp::Ece),
        ["cwr"] => Some(FlagOp::Cwr),
        ["ack", n] => Some(FlagOp::Ack(num(n)?)),
        ["urg", n] => Some(FlagOp::Urg(num(n)?)),
        _ => None,
    }
}

// --- TCP option elements: the `opt.*` grammar (harness/src/opt.rs)
fn parse_pair(s: &str) -> Option<(u32, u32)> {
    let (a, b) = s.split_once('-')?;
    if b.contains('-') {
        return None;
    }
    Some((num(a)?, num(b)?))
}
fn parse_slot(s: &str) -> Option<Option<(u32, u32)>> {
    if s == "_" {
        Some(None)
    } else {
        parse_pair(s).map(Some)
    }
}
fn parse_elem(s: &str) -> Option<TcpOptionElement> {
    use TcpOptionElement::*;
    if s == "nop" {
        return Some(Noop);
    }
    if s == "sackp" {
        return Some(SelectiveAcknowledgementPermitted);
    }
    let p = colon(s);
    match &p[..] {
        ["mss", v] => Some(MaximumSegmentSize(num(v)?)),
        ["ws", v] => Some(WindowScale(num(v)?)),
        ["ts", a, b] => Some(Timestamp(num(a)?, num(b)?)),
        ["sack", v] => {
            let q: Vec<&str> = v.split(';').collect();
            match &q[..] {
                [f, s0, s1, s2] => Some(SelectiveAcknowledgement(
                    parse_pair(f)?,
                    [parse_slot(s0)?, parse_slot(s1)?, parse_slot(s2)?],
                )),
                _ => None,
            }
        }
        _ => None,
    }
}
fn parse_elems(s: &str) -> Option<Vec<TcpOptionElement>> {
    if s == "-" {
        return Some(Vec::new());
    }
    s.split(',').map(parse_elem).collect()
}

fn icmp4_type(v: &str, args: &str) -> P<Icmpv4Type> {
    use icmpv4::*;
    let l = list(args);
    let bad = || Some(Err("err(code)".to_string()));
    let ty = match (v, &l[..]) {
        ("unknown", [t, c, b]) => Icmpv4Type::Unknown {
            type_u8: num(t)?,
            code_u8: num(c)?,
            bytes5to8: hex_n::<4>(b)?,
        },
        ("echoreply", [i, s]) => Icmpv4Type::EchoReply(IcmpEchoHeader {
            id: num(i)?,
            seq: num(s)?,
        }),
        ("echoreq", [i, s]) => Icmpv4Type::EchoRequest(IcmpEchoHeader {
            id: num(i)?,
            seq: num(s)?,
        }),
        ("du", [c, m]) => match DestUnreachableHeader::from_values(num(c)?, num(m)?) {
            Some(d) => Icmpv4Type::DestinationUnreachable(d),
            None => return bad(),
        },
        ("redirect", [c, g]) => {
            let g = hex_n::<4>(g)?;
            match RedirectCode::from_u8(num(c)?) {
                Some(code) => Icmpv4Type::Redirect(RedirectHeader {
                    code,
                    gateway_internet_address: g,
                }),
                None => return bad(),
            }
        }
        ("te", [c]) => match TimeExceededCode::from_u8(num(c)?) {
            Some(code) => Icmpv4Type::TimeExceeded(code),
            None => return bad(),
        },
        ("pp", [c, p]) => match ParameterProblemHeader::from_values(num(c)?, num(p)?) {
            Some(x) => Icmpv4Type::ParameterProblem(x),
            None => return bad(),
        },
        ("tsreq", [i, s, o, r, t]) => Icmpv4Type::TimestampRequest(TimestampMessage {
            id: num(i)?,
            seq: num(s)?,
            originate_timestamp: num(o)?,
            receive_timestamp: num(r)?,
            transmit_timestamp: num(t)?,
        }),
        ("tsreply", [i, s, o, r, t]) => Icmpv4Type::TimestampReply(TimestampMessage {
            id: num(i)?,
            seq: num(s)?,
            originate_timestamp: num(o)?,
            receive_timestamp: num(r)?,
            transmit_timestamp: num(t)?,
        }),
        _ => return None,
    };
    Some(Ok(ty))
}

fn icmp6_type(v: &str, args: &str) -> P<Icmpv6Type> {
    use icmpv6::*;
    let l = list(args);
    let bad = || Some(Err("err(code)".to_string()));
    let ty = match (v, &l[..]) {
        ("unknown", [t, c, b]) => Icmpv6Type::Unknown {
            type_u8: num(t)?,
            code_u8: num(c)?,
            bytes5to8: hex_n::<4>(b)?,
        },
        ("du", [c]) => match DestUnreachableCode::from_u8(num(c)?) {
            Some(code) => Icmpv6Type::DestinationUnreachable(code),
            None => return bad(),
        },
        ("ptb", [m]) => Icmpv6Type::PacketTooBig { mtu: num(m)? },
        ("te", [c]) => match TimeExceededCode::from_u8(num(c)?) {
            Some(code) => Icmpv6Type::TimeExceeded(code),
            None => return bad(),
        },
        ("pp", [c, p]) => {
            let pointer: u32 = num(p)?;
            match ParameterProblemCode::from_u8(num(c)?) {
                Some(code) => {
                    Icmpv6Type::ParameterProblem(ParameterProblemHeader { code, pointer })
                }
                None => return bad(),
            }
        }
        ("echoreq", [i, s]) => Icmpv6Type::EchoRequest(IcmpEchoHeader {
            id: num(i)?,
            seq: num(s)?,
        }),
        ("echoreply", [i, s]) => Icmpv6Type::EchoReply(IcmpEchoHeader {
            id: num(i)?,
            seq: num(s)?,
        }),
        ("rs", []) => Icmpv6Type::RouterSolicitation,
        ("ra", [c, m, o, lt]) => Icmpv6Type::RouterAdvertisement(RouterAdvertisementHeader {
            cur_hop_limit: num(c)?,
            managed_address_config: boolean(m)?,
            other_config: boolean(o)?,
            router_lifetime: num(lt)?,
        }),
        ("ns", []) => Icmpv6Type::NeighborSolicitation,
        ("na", [r, s, o]) => Icmpv6Type::NeighborAdvertisement(NeighborAdvertisementHeader {
            router: boolean(r)?,
            solicited: boolean(s)?,
            r#override: boolean(o)?,
        }),
        ("redirect", []) => Icmpv6Type::Redirect,
        _ => return None,
    };
    Some(Ok(ty))
}

fn parse_icmp<T>(r: &[&str], ty: &dyn Fn(&str, &str) -> P<T>) -> P<IcmpC<T>> {
    match r {
        ["t", v, args] => Some(Ok(IcmpC::T(tryp!(ty(v, args))))),
        ["raw", t, c, b] => Some(Ok(IcmpC::Raw(num(t)?, num(c)?, hex_n::<4>(b)?))),
        ["ereq", i, s] => Some(Ok(IcmpC::Ereq(num(i)?, num(s)?))),
        ["erep", i, s] => Some(Ok(IcmpC::Erep(num(i)?, num(s)?))),
        _ => None,
    }
}

fn tcp_header_value(a: &[&str]) -> P<TcpHeader> {
    match a {
        [sp, dp, seq, ack, fl, win, ck, urg, opts] => {
            let mut h = TcpHeader::new(num(sp)?, num(dp)?, num(seq)?, num(win)?);
            h.acknowledgment_number = num(ack)?;
            h.checksum = num(ck)?;
            h.urgent_pointer = num(urg)?;
            let opts = hex(opts)?;
            if fl.len() != 9 {
                return None;
            }
            let mut bits = [false; 9];
            for (i, c) in fl.chars().enumerate() {
                bits[i] = match c {
                    '1' => true,
                    '0' => false,
                    _ => return None,
                };
            }
            h.ns = bits[0];
            h.fin = bits[1];
            h.syn = bits[2];
            h.rst = bits[3];
            h.psh = bits[4];
            h.ack = bits[5];
            h.urg = bits[6];
            h.ece = bits[7];
            h.cwr = bits[8];
            Some(match h.set_options_raw(&opts) {
                Ok(()) => Ok(h),
                Err(TcpOptionWriteError::NotEnoughSpace(n)) => {
                    Err(format!("err(ctor(TcpOptions(NotEnoughSpace({}))))", n))
                }
            })
        }
        _ => None,
    }
}

fn parse_tp(s: &str) -> P<TpC> {
    let secs: Vec<&str> = s.split('|').collect();
    match &secs[..] {
        [main] => {
            let p = colon(main);
            match &p[..] {
                ["none"] => Some(Ok(TpC::None)),
                ["raw", n] => Some(Ok(TpC::Raw(num(n)?))),
                ["udp", a, b] => Some(Ok(TpC::Udp(num(a)?, num(b)?))),
                ["tcph", r @ ..] => Some(Ok(TpC::TcpH(tryp!(tcp_header_value(r))))),
                ["i4", r @ ..] => Some(Ok(TpC::I4(tryp!(parse_icmp(r, &icmp4_type))))),
                ["i6", r @ ..] => Some(Ok(TpC::I6(tryp!(parse_icmp(r, &icmp6_type))))),
                _ => None,
            }
        }
        [main, flags, opts] => {
            let p = colon(main);
            match &p[..] {
                ["tcp", a, b, c, d] => {
                    let (a, b, c, d) = (num(a)?, num(b)?, num(c)?, num(d)?);
                    let fl: Option<Vec<FlagOp>> = list(flags).into_iter().map(parse_flag).collect();
                    let fl = fl?;
                    let o = if *opts == "-" {
                        OptC::None
                    } else if let Some(h) = opts.strip_prefix("raw=") {
                        OptC::Raw(hex(h)?)
                    } else if let Some(e) = opts.strip_prefix("el=") {
                        OptC::El(parse_elems(e)?)
                    } else {
                        return None;
                    };
                    Some(Ok(TpC::Tcp(a, b, c, d, fl, o)))
                }
                _ => None,
            }
        }
        _ => None,
    }
}

fn parse_cfg(s: &str) -> P<Cfg> {
    let secs: Vec<&str> = s.split('/').collect();
    match &secs[..] {
        [l, v, n, t] => {
            let link = parse_link(l)?;
            let vlan = parse_vlan(v)?;
            let net = tryp!(parse_net(n));
            let tp = tryp!(parse_tp(t));
            let is_eth = matches!(link, LinkC::Eth(..));
            let is_arp = matches!(net, NetC::Arp(_));
            if !matches!(vlan, VlanC::None) && !is_eth {
                return None;
            }
            if is_arp && (matches!(link, LinkC::None) || *t != "none") {
                return None;
            }
            if !is_arp && *t == "none" {
                return None;
            }
            Some(Ok(Cfg {
                link,
                vlan,
                net,
                tp,
            }))
        }
        _ => None,
    }
}

// ---------------------------------------------------------------------------------------------
// constructing the builder through the public typed steps

enum Final {
    Udp(PacketBuilderStep<UdpHeader>),
    Tcp(PacketBuilderStep<TcpHeader>),
    I4(PacketBuilderStep<Icmpv4Header>),
    I6(PacketBuilderStep<Icmpv6Header>),
    Raw(PacketBuilderStep<IpHeaders>, IpNumber),
    Arp(PacketBuilderStep<ArpPacket>),
}

enum AfterNet {
    Ip(PacketBuilderStep<IpHeaders>),
    Arp(PacketBuilderStep<ArpPacket>),
}

fn after_net(c: &Cfg) -> Option<AfterNet> {
    // every combination goes through the method of the step type it is offered on
    Some(match (&c.link, &c.vlan) {
        (LinkC::None, _) => match &c.net {
            NetC::V4(a, b, t) => AfterNet::Ip(PacketBuilder::ipv4(*a, *b, *t)),
            NetC::V6(a, b, t) => AfterNet::Ip(PacketBuilder::ipv6(*a, *b, *t)),
            NetC::Ip(h) => AfterNet::Ip(PacketBuilder::ip(h.clone())),
            NetC::Arp(_) => return None,
        },
        (LinkC::Eth(s, d), VlanC::None) => {
            let b = PacketBuilder::ethernet2(*s, *d);
            match &c.net {
                NetC::V4(a, bb, t) => AfterNet::Ip(b.ipv4(*a, *bb, *t)),
                NetC::V6(a, bb, t) => AfterNet::Ip(b.ipv6(*a, *bb, *t)),
                NetC::Ip(h) => AfterNet::Ip(b.ip(h.clone())),
                NetC::Arp(p) => AfterNet::Arp(b.arp(p.clone())),
            }
        }
        (LinkC::Eth(s, d), v) => {
            let b = PacketBuilder::ethernet2(*s, *d);
            let b = match v {
                VlanC::S(id) => b.single_vlan(*id),
                VlanC::D(o, i) => b.double_vlan(*o, *i),
                VlanC::V(h) => b.vlan(h.clone()),
                VlanC::None => return None,
            };
            match &c.net {
                NetC::V4(a, bb, t) => AfterNet::Ip(b.ipv4(*a, *bb, *t)),
                NetC::V6(a, bb, t) => AfterNet::Ip(b.ipv6(*a, *bb, *t)),
                NetC::Ip(h) => AfterNet::Ip(b.ip(h.clone())),
                NetC::Arp(p) => AfterNet::Arp(b.arp(p.clone())),
            }
        }
        (LinkC::Sll(pt, alen, addr), _) => {
            let b = PacketBuilder::linux_sll(*pt, *alen, *addr);
            match &c.net {
                NetC::V4(a, bb, t) => AfterNet::Ip(b.ipv4(*a, *bb, *t)),
                NetC::V6(a, bb, t) => AfterNet::Ip(b.ipv6(*a, *bb, *t)),
                NetC::Ip(h) => AfterNet::Ip(b.ip(h.clone())),
                NetC::Arp(p) => AfterNet::Arp(b.arp(p.clone())),
            }
        }
    })
}

fn mk(c: &Cfg) -> Result<Final, String> {
    let an = after_net(c).ok_or_else(|| "bad-op".to_string())?;
    let ip = match an {
        AfterNet::Arp(b) => return Ok(Final::Arp(b)),
        AfterNet::Ip(b) => b,
    };
    Ok(match &c.tp {
        TpC::None => return Err("bad-op".to_string()),
        TpC::Raw(n) => Final::Raw(ip, IpNumber(*n)),
        TpC::Udp(a, b) => Final::Udp(ip.udp(*a, *b)),
        TpC::TcpH(h) => Final::Tcp(ip.tcp_header(h.clone())),
        TpC::Tcp(a, b, s, w, flags, opts) => {
            let mut t = ip.tcp(*a, *b, *s, *w);
            for f in flags {
                t = match f {
                    FlagOp::Ns => t.ns(),
                    FlagOp::Fin => t.fin(),
                    FlagOp::Syn => t.syn(),
                    FlagOp::Rst => t.rst(),
                    FlagOp::Psh => t.psh(),
                    FlagOp::Ece => t.ece(),
                    FlagOp::Cwr => t.cwr(),
                    FlagOp::Ack(n) => t.ack(*n),
                    FlagOp::Urg(n) => t.urg(*n),
                };
            }
            // an options call replaces whatever an earlier call set: every configured call is preceded by
            // another one with different options, which must leave no trace
            let pre = [
                TcpOptionElement::WindowScale(3),
                TcpOptionElement::Noop,
                TcpOptionElement::MaximumSegmentSize(1200),
            ];
            let r = match opts {
                OptC::None => Ok(t),
                OptC::Raw(b) => match t.options(&pre) {
                    Ok(t) => t.options_raw(b),
                    Err(e) => Err(e),
                },
                OptC::El(e) => match t.options_raw(&[1, 1, 1, 1, 1, 1, 1, 1]) {
                    Ok(t) => t.options(e),
                    Err(e) => Err(e),
                },
            };
            match r {
                Ok(t) => Final::Tcp(t),
                Err(TcpOptionWriteError::NotEnoughSpace(n)) => {
                    return Err(format!("err(ctor(TcpOptions(NotEnoughSpace({}))))", n))
                }
            }
        }
        TpC::I4(i) => Final::I4(match i {
            IcmpC::T(t) => ip.icmpv4(t.clone()),
            IcmpC::Raw(t, c, b) => ip.icmpv4_raw(*t, *c, *b),
            IcmpC::Ereq(i, s) => ip.icmpv4_echo_request(*i, *s),
            IcmpC::Erep(i, s) => ip.icmpv4_echo_reply(*i, *s),
        }),
        TpC::I6(i) => Final::I6(match i {
            IcmpC::T(t) => ip.icmpv6(t.clone()),
            IcmpC::Raw(t, c, b) => ip.icmpv6_raw(*t, *c, *b),
            IcmpC::Ereq(i, s) => ip.icmpv6_echo_request(*i, *s),
            IcmpC::Erep(i, s) => ip.icmpv6_echo_reply(*i, *s),
        }),
    })
}

/// a plain `std::io::Write` that is not a `Vec` (so the generic `write` path is exercised)
struct Sink(Vec<u8>);
impl std::io::Write for Sink {
    fn write(&mut self, buf: &[u8]) -> std::io::Result<usize> {
        self.0.extend_from_slice(buf);
        Ok(buf.len())
    }
    fn flush(&mut self) -> std::io::Result<()> {
        Ok(())
    }
}

impl Final {
    fn size(&self, n: usize) -> usize {
        match self {
            Final::Udp(b) => b.size(n),
            Final::Tcp(b) => b.size(n),
            Final::I4(b) => b.size(n),
            Final::I6(b) => b.size(n),
            Final::Raw(b, _) => b.size(n),
            Final::Arp(b) => b.size(),
        }
    }
    fn write(self, w: &mut Sink, p: &[u8]) -> Result<(), BuildWriteError> {
        match self {
            Final::Udp(b) => b.write(w, p),
            Final::Tcp(b) => b.write(w, p),
            Final::I4(b) => b.write(w, p),
            Final::I6(b) => b.write(w, p),
            Final::Raw(b, n) => b.write(w, n, p),
            Final::Arp(b) => b.write(w),
        }
    }
    fn write_to_vec(self, w: &mut Vec<u8>, p: &[u8]) -> Result<(), BuildVecWriteError> {
        match self {
            Final::Udp(b) => b.write_to_vec(w, p),
            Final::Tcp(b) => b.write_to_vec(w, p),
            Final::I4(b) => b.write_to_vec(w, p),
            Final::I6(b) => b.write_to_vec(w, p),
            Final::Raw(b, n) => b.write_to_vec(w, n, p),
            Final::Arp(b) => b.write_to_vec(w),
        }
    }
    fn write_to_slice(self, w: &mut [u8], p: &[u8]) -> Result<usize, BuildSliceWriteError> {
        match self {
            Final::Udp(b) => b.write_to_slice(w, p),
            Final::Tcp(b) => b.write_to_slice(w, p),
            Final::I4(b) => b.write_to_slice(w, p),
            Final::I6(b) => b.write_to_slice(w, p),
            Final::Raw(b, n) => b.write_to_slice(w, n, p),
            Final::Arp(b) => b.write_to_slice(w),
        }
    }
}

// ---------------------------------------------------------------------------------------------
// rendering

/// Adler-32 (RFC 1950)
fn digest(b: &[u8]) -> u64 {
    let (mut a, mut s): (u64, u64) = (1, 0);
    for x in b {
        a = (a + (*x as u64)) % 65521;
        s = (s + a) % 65521;
    }
    s * 65536 + a
}

fn show_bytes(b: &[u8]) -> String {
    if b.len() > 2000 {
        format!(
            "head={},tail={},ck={}",
            to_hex(&b[..128]),
            to_hex(&b[b.len() - 16..]),
            digest(b)
        )
    } else {
        format!("b={}", to_hex(b))
    }
}

fn payload_len(e: &ValueTooBigError<usize>) -> String {
    format!(
        "PayloadLen(actual={},max={},type={:?})",
        e.actual, e.max_allowed, e.value_type
    )
}
fn v4exts(e: &err::ipv4_exts::ExtsWalkError) -> String {
    match e {
        err::ipv4_exts::ExtsWalkError::ExtNotReferenced { missing_ext } => {
            format!("Ipv4Exts(ExtNotReferenced({}))", missing_ext.0)
        }
    }
}
fn v6exts(e: &err::ipv6_exts::ExtsWalkError) -> String {
    match e {
        err::ipv6_exts::ExtsWalkError::HopByHopNotAtStart => {
            "Ipv6Exts(HopByHopNotAtStart)".to_string()
        }
        err::ipv6_exts::ExtsWalkError::ExtNotReferenced { missing_ext } => {
            format!("Ipv6Exts(ExtNotReferenced({}))", missing_ext.0)
        }
    }
}

fn show_write_err(e: &BuildWriteError) -> String {
    crate::util::touch(e);
    match e {
        BuildWriteError::Io(e) => format!("Io({:?})", e.kind()),
        BuildWriteError::PayloadLen(e) => payload_len(e),
        BuildWriteError::Ipv4Exts(e) => v4exts(e),
        BuildWriteError::Ipv6Exts(e) => v6exts(e),
        BuildWriteError::Icmpv6InIpv4 => "Icmpv6InIpv4".to_string(),
        BuildWriteError::ArpHeaderNotMatch => "ArpHeaderNotMatch".to_string(),
    }
}
fn show_vec_err(e: &BuildVecWriteError) -> String {
    crate::util::touch(e);
    match e {
        BuildVecWriteError::PayloadLen(e) => payload_len(e),
        BuildVecWriteError::Ipv4Exts(e) => v4exts(e),
        BuildVecWriteError::Ipv6Exts(e) => v6exts(e),
        BuildVecWriteError::Icmpv6InIpv4 => "Icmpv6InIpv4".to_string(),
        BuildVecWriteError::ArpHeaderNotMatch => "ArpHeaderNotMatch".to_string(),
    }
}
fn show_slice_err(e: &BuildSliceWriteError) -> String {
    crate::util::touch(e);
    match e {
        BuildSliceWriteError::Space(n) => format!("Space({})", n),
        BuildSliceWriteError::PayloadLen(e) => payload_len(e),
        BuildSliceWriteError::Ipv4Exts(e) => v4exts(e),
        BuildSliceWriteError::Ipv6Exts(e) => v6exts(e),
        BuildSliceWriteError::Icmpv6InIpv4 => "Icmpv6InIpv4".to_string(),
        BuildSliceWriteError::ArpHeaderNotMatch => "ArpHeaderNotMatch".to_string(),
    }
}

fn run_write(c: &Cfg, payload: &[u8]) -> String {
    let (b1, b2, b3) = match (mk(c), mk(c), mk(c)) {
        (Ok(a), Ok(b), Ok(c)) => (a, b, c),
        (Err(m), _, _) => return m,
        _ => return "!mk-nondeterministic".to_string(),
    };
    let size = b1.size(payload.len());
    let sizes_same = size == b2.size(payload.len()) && size == b3.size(payload.len());
    // 1. generic io::Write
    let mut sink = Sink(Vec::new());
    let r1 = b1.write(&mut sink, payload);
    // 2. write_to_vec (appends to an existing vector: start with a marker prefix)
    let mut v = vec![0x5a, 0xa5];
    let r2 = b2.write_to_vec(&mut v, payload);
    // 3. write_to_slice, exact size, canary-filled
    let mut buf = vec![0xaau8; size];
    let r3 = b3.write_to_slice(&mut buf, payload);

    let line = match &r1 {
        Ok(()) => format!("ok(size={},len={},{})", size, sink.0.len(), show_bytes(&sink.0)),
        Err(e) => format!(
            "err({},size={},written={})",
            show_write_err(e),
            size,
            to_hex(&sink.0)
        ),
    };
    // compare
    let mut diffs: Vec<String> = Vec::new();
    if !sizes_same {
        diffs.push("size".to_string());
    }
    if v.len() < 2 || v[..2] != [0x5a, 0xa5] {
        diffs.push("vec-prefix-clobbered".to_string());
    }
    match (&r1, &r2) {
        (Ok(()), Ok(())) => {
            if v[2..] != sink.0[..] {
                diffs.push("vec-bytes".to_string());
            }
        }
        (Err(e1), Err(e2)) => {
            if show_write_err(e1) != show_vec_err(e2) {
                diffs.push(format!("vec-err={}", show_vec_err(e2)));
            }
            if v[2..] != sink.0[..] {
                diffs.push("vec-partial".to_string());
            }
        }
        (Ok(()), Err(e2)) => diffs.push(format!("vec-err={}", show_vec_err(e2))),
        (Err(_), Ok(())) => diffs.push("vec-ok".to_string()),
    }
    match (&r1, &r3) {
        (Ok(()), Ok(n)) => {
            if *n != size {
                diffs.push(format!("slice-n={}", n));
            }
            if buf[..] != sink.0[..] {
                diffs.push("slice-bytes".to_string());
            }
        }
        (Err(e1), Err(e3)) => {
            if show_write_err(e1) != show_slice_err(e3) {
                diffs.push(format!("slice-err={}", show_slice_err(e3)));
            }
            // what was written before the error is the same prefix, the rest is untouched
            let k = sink.0.len().min(buf.len());
            if buf[..k] != sink.0[..k] || buf[k..].iter().any(|x| *x != 0xaa) {
                diffs.push("slice-partial".to_string());
            }
        }
        (Ok(()), Err(e3)) => diffs.push(format!("slice-err={}", show_slice_err(e3))),
        (Err(_), Ok(n)) => diffs.push(format!("slice-ok={}", n)),
    }
    if diffs.is_empty() {
        line
    } else {
        format!("{}!serialisers-differ({})", line, diffs.join(";"))
    }
}

fn run_slice(c: &Cfg, payload: &[u8], cap: usize) -> String {
    let b = match mk(c) {
        Ok(b) => b,
        Err(m) => return m,
    };
    // canary behind the buffer handed to the builder
    let mut buf = vec![0xaau8; cap + 8];
    let r = b.write_to_slice(&mut buf[..cap], payload);
    let tail_ok = buf[cap..].iter().all(|x| *x == 0xaa);
    let s = match r {
        Ok(n) => {
            if n > cap {
                return format!("!returned-more-than-cap({})", n);
            }
            let untouched = buf[n..cap].iter().all(|x| *x == 0xaa);
            format!(
                "ok(n={},len={},{}){}",
                n,
                n,
                show_bytes(&buf[..n]),
                if untouched { "" } else { "!wrote-behind-returned-length" }
            )
        }
        Err(e) => format!("err({})", show_slice_err(&e)),
    };
    if tail_ok {
        s
    } else {
        format!("{}!wrote-outside-buffer", s)
    }
}

// ---------------------------------------------------------------------------------------------
// C16: fault injection (the FailWriter of io.rs)

const INJECTED: &str = "injected";

/// accepts exactly `budget` bytes in total (partial writes allowed), then every non-empty write
/// fails with the injected error. Records every accepted byte and counts calls after the failure.
struct FailWriter {
    budget: usize,
    out: Vec<u8>,
    failed: bool,
    post: usize,
}

impl std::io::Write for FailWriter {
    fn write(&mut self, buf: &[u8]) -> std::io::Result<usize> {
        if buf.is_empty() {
            return Ok(0);
        }
        if self.failed {
            self.post += 1;
            return Err(std::io::Error::new(std::io::ErrorKind::Other, INJECTED));
        }
        if self.budget == 0 {
            self.failed = true;
            return Err(std::io::Error::new(std::io::ErrorKind::Other, INJECTED));
        }
        let n = core::cmp::min(buf.len(), self.budget);
        self.out.extend_from_slice(&buf[..n]);
        self.budget -= n;
        Ok(n)
    }
    fn flush(&mut self) -> std::io::Result<()> {
        Ok(())
    }
}

impl Final {
    fn write_failing(self, w: &mut FailWriter, p: &[u8]) -> Result<(), BuildWriteError> {
        match self {
            Final::Udp(b) => b.write(w, p),
            Final::Tcp(b) => b.write(w, p),
            Final::I4(b) => b.write(w, p),
            Final::I6(b) => b.write(w, p),
            Final::Raw(b, n) => b.write(w, n, p),
            Final::Arp(b) => b.write(w),
        }
    }
}

fn run_failw(c: &Cfg, payload: &[u8], k: usize) -> String {
    let b = match mk(c) {
        Ok(b) => b,
        Err(m) => return m,
    };
    let mut w = FailWriter {
        budget: k,
        out: Vec::new(),
        failed: false,
        post: 0,
    };
    let rs = match b.write_failing(&mut w, payload) {
        Ok(()) => "ok".to_string(),
        Err(BuildWriteError::Io(e))
            if e.kind() == std::io::ErrorKind::Other && e.to_string() == INJECTED =>
        {
            "err(io)".to_string()
        }
        Err(e) => format!("err({})", show_write_err(&e)),
    };
    format!("{};w={};post={}", rs, to_hex(&w.out), w.post)
}

const SB_FILL: u8 = 0xaa;
const SB_CANARY: [u8; 8] = [0xc3, 0x3c, 0xc3, 0x3c, 0xa7, 0x7a, 0xa7, 0x7a];

fn run_slicebuf(c: &Cfg, payload: &[u8], cap: usize) -> String {
    let b = match mk(c) {
        Ok(b) => b,
        Err(m) => return m,
    };
    let mut buf = vec![SB_FILL; cap + SB_CANARY.len()];
    buf[cap..].copy_from_slice(&SB_CANARY);
    let r = b.write_to_slice(&mut buf[..cap], payload);
    let s = match r {
        Ok(n) if n > cap => format!("!returned-more-than-cap({})", n),
        Ok(n) => format!("ok(n={},len={},{})", n, n, show_bytes(&buf[..n])),
        Err(e) => format!("err({})", show_slice_err(&e)),
    };
    format!(
        "{};buf={};canary={}",
        s,
        to_hex(&buf[..cap]),
        if buf[cap..] == SB_CANARY {
            "intact"
        } else {
            "clobbered"
        }
    )
}

pub fn run(op: &str, a: &[&str]) -> Option<String> {
    match (op, a) {
        ("build.failw", [c, p, k]) | ("build.slicebuf", [c, p, k]) => {
            let payload = parse_payload(p)?;
            let k: usize = num(k)?;
            // the capacity is allocated, the writer budget is only a number
            if op == "build.slicebuf" && k >= 1_000_000 {
                return None;
            }
            let cfg = match parse_cfg(c)? {
                Ok(c) => c,
                Err(m) => return Some(m),
            };
            if matches!(cfg.net, NetC::Arp(_)) && !payload.is_empty() {
                return None;
            }
            Some(if op == "build.failw" {
                run_failw(&cfg, &payload, k)
            } else {
                run_slicebuf(&cfg, &payload, k)
            })
        }
        ("build.write", [c, p]) => {
            let payload = parse_payload(p)?;
            let cfg = match parse_cfg(c)? {
                Ok(c) => c,
                Err(m) => return Some(m),
            };
            if matches!(cfg.net, NetC::Arp(_)) && !payload.is_empty() {
                return None;
            }
            Some(run_write(&cfg, &payload))
        }
        ("build.slice", [c, p, cap]) => {
            let payload = parse_payload(p)?;
            let cap: usize = num(cap)?;
            if cap >= 1_000_000 {
                return None;
            }
            let cfg = match parse_cfg(c)? {
                Ok(c) => c,
                Err(m) => return Some(m),
            };
            if matches!(cfg.net, NetC::Arp(_)) && !payload.is_empty() {
                return None;
            }
            Some(run_slice(&cfg, &payload, cap))
        }
        _ => None,
    }
}
