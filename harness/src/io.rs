//! `io.*` operations (C16): fault injection on writers, readers, output slices and the
//! `LimitedReader` (same line formats as lean/EpModel/Driver/Io.lean).
//!
//!   io.write.<t> <fields…> <k>     serialise into a writer that accepts exactly k bytes in total and
//!                                  then fails with an injected error
//!       → <result>;w=<hex of every byte the writer accepted>;post=<write calls after the failure>
//!                                  (<t> = link.eth2 | link.sll | tp.udp | tp.tcp | tp.icmpv4 | tp.icmpv6: the same
//!                                  value written through LinkHeader::write / TransportHeader::write)
//!   io.wslice.<t> <fields…> <cap>  write_to_slice into the first cap bytes (filled 0x5a) of a buffer
//!                                  that continues with 8 canary bytes
//!       → <result>;buf=<hex of the cap bytes>;canary=intact|clobbered
//!   io.read.<t> [start] <hex> <k>  read from a reader over <hex> that fails once k bytes were handed out
//!       → <result>;used=<bytes handed out>;post=<read calls after the failure>
//!   io.limited <hex> <k> <max> <src> <off> <layer> <op>…   one LimitedReader session
//!       → [<op>=<result>@(max_len,read_len,layer_offset,layer),…];pulled=<bytes handed out>
//!   io.build.write / io.build.wslice <path> <args…> <payload> <k|cap>   PacketBuilder paths
//!   io.skip.ext / io.skip.all <next_header> <hex> <k>   Ipv6Header::skip_header_extension /
//!                                  skip_all_header_extensions on a Read + Seek reader over <hex> that
//!                                  fails at position k (seeking like std::io::Cursor: never an error,
//!                                  also past the end)
//!       → ok(<next header>)|err(io)|err(eof);pos=<final position>;post=<read/seek calls after the failure>
//!   io.skip.ext.sf / io.skip.all.sf <next_header> <hex> <k> <j>   the same on a reader whose j-th call of
//!                                  `seek` (0-based, counted over the whole run) fails with an injected error
//!                                  and leaves the position where it was
//!       → ok(<next header>)|err(io)|err(eof)|err(seek);pos=<final position>;seeks=<seek calls made>;post=<read/seek calls after the first failure>
#![allow(unused_imports, dead_code)]
use crate::util::*;
use etherparse::err::LenError;
use etherparse::*;
use std::io::{Read, Seek, SeekFrom, Write};

// ---------------------------------------------------------------------------------------------
// instrumented writer / reader

const INJECTED: &str = "injected";

fn injected() -> std::io::Error {
    std::io::Error::new(std::io::ErrorKind::Other, INJECTED)
}

const INJECTED_SEEK: &str = "injected-seek";

/// the error of a failing `seek`: the same kind as the injected read error, its own text
fn injected_seek() -> std::io::Error {
    std::io::Error::new(std::io::ErrorKind::Other, INJECTED_SEEK)
}

/// accepts exactly `budget` bytes in total (partial writes allowed), then every non-empty write
/// fails with the injected error. Records every accepted byte and counts calls after the failure.
struct FailWriter {
    budget: usize,
    out: Vec<u8>,
    failed: bool,
    post: usize,
}

impl FailWriter {
    fn new(k: usize) -> Self {
        FailWriter {
            budget: k,
            out: Vec::new(),
            failed: false,
            post: 0,
        }
    }
}

impl Write for FailWriter {
    fn write(&mut self, buf: &[u8]) -> std::io::Result<usize> {
        if buf.is_empty() {
            return Ok(0);
        }
        if self.failed {
            self.post += 1;
            return Err(injected());
        }
        if self.budget == 0 {
            self.failed = true;
            return Err(injected());
        }
        let n = core::cmp::min(buf.len(), self.budget);
        self.out.extend_from_slice(&buf[..n]);
        self.budget -= n;
        Ok(n)
    }
    fn flush(&mut self) -> std::io::Result<()> {
        Ok(())
    }
}

/// hands out the bytes of `data` until `fail_at` bytes were handed out, then fails with the
/// injected error; behind the end of the data it reports end of file (`Ok(0)`).
struct FailReader {
    data: Vec<u8>,
    pos: usize,
    fail_at: usize,
    failed: bool,
    post: usize,
}

impl FailReader {
    fn new(data: Vec<u8>, k: usize) -> Self {
        FailReader {
            data,
            pos: 0,
            fail_at: k,
            failed: false,
            post: 0,
        }
    }
}

impl Read for FailReader {
    fn read(&mut self, buf: &mut [u8]) -> std::io::Result<usize> {
        if buf.is_empty() {
            return Ok(0);
        }
        if self.failed {
            self.post += 1;
        }
        if self.pos >= self.fail_at {
            self.failed = true;
            return Err(injected());
        }
        if self.pos >= self.data.len() {
            self.failed = true;
            return Ok(0);
        }
        let n = buf
            .len()
            .min(self.fail_at - self.pos)
            .min(self.data.len() - self.pos);
        buf[..n].copy_from_slice(&self.data[self.pos..self.pos + n]);
        self.pos += n;
        Ok(n)
    }
}

impl Seek for FailReader {
    fn seek(&mut self, _pos: SeekFrom) -> std::io::Result<u64> {
        panic!("seek called")
    }
}

/// `Read + Seek` over `data`: positions `>= min(fail_at, data.len())` cannot be read — the read
/// returns the injected error if the reader was told to fail inside the data (`fail_at <=
/// data.len()`), otherwise end of file (`Ok(0)`).  `seek` behaves like `std::io::Cursor`: the
/// position simply moves (also behind the end), no error — except for the call with index
/// `seek_fail` (0-based count of all `seek` calls, `None`: never), which returns the injected seek
/// error and leaves the position where it was.  `post` counts every `read` / `seek` call made after
/// the first failure of either kind.
struct SeekFailReader {
    data: Vec<u8>,
    pos: u64,
    fail_at: usize,
    seek_fail: Option<usize>,
    seeks: usize,
    failed: bool,
    post: usize,
}

impl SeekFailReader {
    fn new(data: Vec<u8>, k: usize) -> Self {
        SeekFailReader {
            data,
            pos: 0,
            fail_at: k,
            seek_fail: None,
            seeks: 0,
            failed: false,
            post: 0,
        }
    }
    fn with_seek_failure(data: Vec<u8>, k: usize, j: usize) -> Self {
        let mut r = SeekFailReader::new(data, k);
        r.seek_fail = Some(j);
        r
    }
}

impl Read for SeekFailReader {
    fn read(&mut self, buf: &mut [u8]) -> std::io::Result<usize> {
        if buf.is_empty() {
            return Ok(0);
        }
        if self.failed {
            self.post += 1;
        }
        let limit = self.fail_at.min(self.data.len()) as u64;
        if self.pos >= limit {
            self.failed = true;
            return if self.fail_at <= self.data.len() {
                Err(injected())
            } else {
                Ok(0)
            };
        }
        let n = (buf.len() as u64).min(limit - self.pos) as usize;
        let p = self.pos as usize;
        buf[..n].copy_from_slice(&self.data[p..p + n]);
        self.pos += n as u64;
        Ok(n)
    }
}

impl Seek for SeekFailReader {
    fn seek(&mut self, style: SeekFrom) -> std::io::Result<u64> {
        if self.failed {
            self.post += 1;
        }
        let index = self.seeks;
        self.seeks += 1;
        if self.seek_fail == Some(index) {
            self.failed = true;
            return Err(injected_seek());
        }
        // std::io::Cursor::seek
        let (base, offset) = match style {
            SeekFrom::Start(n) => {
                self.pos = n;
                return Ok(n);
            }
            SeekFrom::End(n) => (self.data.len() as u64, n),
            SeekFrom::Current(n) => (self.pos, n),
        };
        match base.checked_add_signed(offset) {
            Some(n) => {
                self.pos = n;
                Ok(n)
            }
            None => Err(std::io::Error::new(
                std::io::ErrorKind::InvalidInput,
                "invalid seek to a negative or overflowing position",
            )),
        }
    }
}

fn skip_line(
    a: &[&str],
    f: impl FnOnce(&mut SeekFailReader, IpNumber) -> Result<IpNumber, std::io::Error>,
) -> Option<String> {
    match a {
        [nh, d, k] => {
            let nh: u8 = num(nh)?;
            let mut r = SeekFailReader::new(hex(d)?, num(k)?);
            let rs = match f(&mut r, IpNumber(nh)) {
                Ok(n) => format!("ok({})", n.0),
                Err(e) => io_err(&e),
            };
            Some(format!("{};pos={};post={}", rs, r.pos, r.post))
        }
        _ => None,
    }
}

/// `io.skip.*.sf`: the same with a reader whose `j`-th call of `seek` fails
fn skip_line_sf(
    a: &[&str],
    f: impl FnOnce(&mut SeekFailReader, IpNumber) -> Result<IpNumber, std::io::Error>,
) -> Option<String> {
    match a {
        [nh, d, k, j] => {
            let nh: u8 = num(nh)?;
            let mut r = SeekFailReader::with_seek_failure(hex(d)?, num(k)?, num(j)?);
            let rs = match f(&mut r, IpNumber(nh)) {
                Ok(n) => format!("ok({})", n.0),
                Err(e) => io_err(&e),
            };
            Some(format!(
                "{};pos={};seeks={};post={}",
                rs, r.pos, r.seeks, r.post
            ))
        }
        _ => None,
    }
}

/// the slice twins of the skip functions (`skip_header_extension_in_slice`, `skip_all_header_extensions_in_slice`)
/// and `is_skippable_header_extension`, on the complete data: when the reader version got through without
/// meeting its failure position they must give the same next header and consume the same bytes; when the
/// reader version ran into the end of the data they must report a length error
fn skip_twins(all: bool, a: &[&str], reader_line: &str) -> Option<String> {
    let (nh, d, k) = match a {
        [nh, d, k] => (num::<u8>(nh)?, hex(d)?, num::<usize>(k)?),
        _ => return None,
    };
    let r = if all {
        Ipv6Header::skip_all_header_extensions_in_slice(&d, IpNumber(nh))
    } else {
        Ipv6Header::skip_header_extension_in_slice(&d, IpNumber(nh))
    };
    let twin = match &r {
        Ok((n, rest)) => format!("ok({});pos={}", n.0, d.len() - rest.len()),
        Err(_) => "err(len)".to_string(),
    };
    let mut diffs: Vec<String> = Vec::new();
    if let Some(rest) = reader_line.strip_suffix(";post=0") {
        if rest.starts_with("ok(") && rest != twin {
            diffs.push(format!("in_slice={}", twin));
        }
        if rest.starts_with("err(eof)") && k >= d.len() && r.is_ok() {
            diffs.push(format!("in_slice={}", twin));
        }
    }
    if !all {
        // a header kind is skipped by `skip_header_extension` iff `is_skippable_header_extension` says so
        let skippable = Ipv6Header::is_skippable_header_extension(IpNumber(nh));
        if let Ok((n, rest)) = &r {
            let moved = rest.len() != d.len() || n.0 != nh;
            if moved && !skippable {
                diffs.push("is_skippable=false-but-skipped".to_string());
            }
        }
        if skippable && d.len() >= 2 && r.is_ok() && r.as_ref().ok()?.1.len() == d.len() {
            diffs.push("is_skippable=true-but-not-skipped".to_string());
        }
    }
    Some(if diffs.is_empty() {
        reader_line.to_string()
    } else {
        format!("{}!doors-differ({})", reader_line, diffs.join(";"))
    })
}

fn io_err(e: &std::io::Error) -> String {
    if e.kind() == std::io::ErrorKind::Other && e.to_string() == INJECTED {
        "err(io)".to_string()
    } else if e.kind() == std::io::ErrorKind::Other && e.to_string() == INJECTED_SEEK {
        "err(seek)".to_string()
    } else if e.kind() == std::io::ErrorKind::UnexpectedEof {
        "err(eof)".to_string()
    } else {
        format!("err(io-unexpected({:?}))", e.kind())
    }
}

// ---------------------------------------------------------------------------------------------
// argument parsing (value construction copied from enc_link.rs / enc_net.rs)

fn hex_n<const N: usize>(s: &str) -> Option<[u8; N]> {
    hex(s)?.try_into().ok()
}
fn boolean(s: &str) -> Option<bool> {
    match s {
        "1" => Some(true),
        "0" => Some(false),
        _ => None,
    }
}
fn list(s: &str) -> Vec<&str> {
    if s == "-" {
        Vec::new()
    } else {
        s.split(',').collect()
    }
}
fn split_last<'a, 'b>(a: &'a [&'b str]) -> Option<(&'a [&'b str], &'b str)> {
    let (l, r) = a.split_last()?;
    Some((r, *l))
}
fn len_err(e: &LenError) -> String {
    crate::util::touch(e);
    format!(
        "err(len(req={},len={},src={:?},layer={:?},off={}))",
        e.required_len, e.len, e.len_source, e.layer, e.layer_start_offset
    )
}

/// a value that a checked constructor rejected is not a subject of this family
type V<T> = Option<Option<T>>;

fn mk_eth2(a: &[&str]) -> V<Ethernet2Header> {
    match a {
        [d, s, e] => Some(Some(Ethernet2Header {
            destination: hex_n::<6>(d)?,
            source: hex_n::<6>(s)?,
            ether_type: EtherType(num(e)?),
        })),
        _ => None,
    }
}
fn mk_vlan(a: &[&str]) -> V<SingleVlanHeader> {
    match a {
        [p, d, v, e] => {
            let p: u8 = num(p)?;
            let d = boolean(d)?;
            let v: u16 = num(v)?;
            let e: u16 = num(e)?;
            Some((|| {
                Some(SingleVlanHeader {
                    pcp: VlanPcp::try_new(p).ok()?,
                    drop_eligible_indicator: d,
                    vlan_id: VlanId::try_new(v).ok()?,
                    ether_type: EtherType(e),
                })
            })())
        }
        _ => None,
    }
}
fn mk_sll(a: &[&str]) -> V<LinuxSllHeader> {
    match a {
        [pt, hrd, alen, addr, tag, v] => {
            let pt: u16 = num(pt)?;
            let hrd: u16 = num(hrd)?;
            let alen: u16 = num(alen)?;
            let addr = hex_n::<8>(addr)?;
            let v: u16 = num(v)?;
            let proto: Option<LinuxSllProtocolType> = match *tag {
                "ign" => Some(LinuxSllProtocolType::Ignored(v)),
                "netlink" => Some(LinuxSllProtocolType::NetlinkProtocolType(v)),
                "gre" => Some(LinuxSllProtocolType::GenericRoutingEncapsulationProtocolType(v)),
                "et" => Some(LinuxSllProtocolType::EtherType(EtherType(v))),
                "nonstd" => LinuxNonstandardEtherType::try_from(v)
                    .map(LinuxSllProtocolType::LinuxNonstandardEtherType)
                    .ok(),
                _ => return None,
            };
            Some((|| {
                let packet_type = LinuxSllPacketType::try_from(pt).ok()?;
                let protocol_type = proto?;
                Some(LinuxSllHeader {
                    packet_type,
                    arp_hrd_type: ArpHardwareId(hrd),
                    sender_address_valid_length: alen,
                    sender_address: addr,
                    protocol_type,
                })
            })())
        }
        _ => None,
    }
}
fn mk_macsec(a: &[&str]) -> V<MacsecHeader> {
    match a {
        [p, et, es, scb, an, sl, pn, sci] => {
            let et: u16 = num(et)?;
            let ptype = match *p {
                "unmod" => MacsecPType::Unmodified(EtherType(et)),
                "mod" => MacsecPType::Modified,
                "enc" => MacsecPType::Encrypted,
                "encunmod" => MacsecPType::EncryptedUnmodified,
                _ => return None,
            };
            let sci: Option<u64> = if *sci == "none" {
                None
            } else {
                Some(num(sci)?)
            };
            let es = boolean(es)?;
            let scb = boolean(scb)?;
            let an: u8 = num(an)?;
            let sl: u8 = num(sl)?;
            let pn: u32 = num(pn)?;
            Some((|| {
                Some(MacsecHeader {
                    ptype,
                    endstation_id: es,
                    scb,
                    an: MacsecAn::try_new(an).ok()?,
                    short_len: MacsecShortLen::try_from_u8(sl).ok()?,
                    packet_nr: pn,
                    sci,
                })
            })())
        }
        _ => None,
    }
}
fn mk_arp(a: &[&str]) -> V<ArpPacket> {
    match a {
        [hw, pr, op, s1, s2, t1, t2] => {
            let hw: u16 = num(hw)?;
            let pr: u16 = num(pr)?;
            let op: u16 = num(op)?;
            let (s1, s2, t1, t2) = (hex(s1)?, hex(s2)?, hex(t1)?, hex(t2)?);
            Some(
                ArpPacket::new(
                    ArpHardwareId(hw),
                    EtherType(pr),
                    ArpOperation(op),
                    &s1,
                    &s2,
                    &t1,
                    &t2,
                )
                .ok(),
            )
        }
        _ => None,
    }
}
fn mk_udp(a: &[&str]) -> V<UdpHeader> {
    match a {
        [s, d, l, c] => Some(Some(UdpHeader {
            source_port: num(s)?,
            destination_port: num(d)?,
            length: num(l)?,
            checksum: num(c)?,
        })),
        _ => None,
    }
}
fn mk_tcp(a: &[&str]) -> V<TcpHeader> {
    match a {
        [sp, dp, seq, ack, fl, win, ck, urg, opts] => {
            let mut h = TcpHeader::new(num(sp)?, num(dp)?, num(seq)?, num(win)?);
            h.acknowledgment_number = num(ack)?;
            h.checksum = num(ck)?;
            h.urgent_pointer = num(urg)?;
            let opts = hex(opts)?;
            if fl.len() != 9 {
                return None;
            }
            let mut bits = [false; 9];
            for (i, c) in fl.chars().enumerate() {
                bits[i] = match c {
                    '1' => true,
                    '0' => false,
                    _ => return None,
                };
            }
            h.ns = bits[0];
            h.fin = bits[1];
            h.syn = bits[2];
            h.rst = bits[3];
            h.psh = bits[4];
            h.ack = bits[5];
            h.urg = bits[6];
            h.ece = bits[7];
            h.cwr = bits[8];
            Some(match h.set_options_raw(&opts) {
                Ok(()) => Some(h),
                Err(_) => None,
            })
        }
        _ => None,
    }
}
fn mk_icmpv4(a: &[&str]) -> V<Icmpv4Header> {
    use icmpv4::*;
    match a {
        [ck, v, args] => {
            let ck: u16 = num(ck)?;
            let l = list(args);
            let ty: Option<Icmpv4Type> = match (*v, &l[..]) {
                ("unknown", [t, c, b]) => Some(Icmpv4Type::Unknown {
                    type_u8: num(t)?,
                    code_u8: num(c)?,
                    bytes5to8: hex_n::<4>(b)?,
                }),
                ("echoreply", [i, s]) => Some(Icmpv4Type::EchoReply(IcmpEchoHeader {
                    id: num(i)?,
                    seq: num(s)?,
                })),
                ("echoreq", [i, s]) => Some(Icmpv4Type::EchoRequest(IcmpEchoHeader {
                    id: num(i)?,
                    seq: num(s)?,
                })),
                ("du", [c, m]) => DestUnreachableHeader::from_values(num(c)?, num(m)?)
                    .map(Icmpv4Type::DestinationUnreachable),
                ("redirect", [c, g]) => {
                    let g = hex_n::<4>(g)?;
                    RedirectCode::from_u8(num(c)?).map(|code| {
                        Icmpv4Type::Redirect(RedirectHeader {
                            code,
                            gateway_internet_address: g,
                        })
                    })
                }
                ("te", [c]) => TimeExceededCode::from_u8(num(c)?).map(Icmpv4Type::TimeExceeded),
                ("pp", [c, p]) => ParameterProblemHeader::from_values(num(c)?, num(p)?)
                    .map(Icmpv4Type::ParameterProblem),
                ("tsreq", [i, s, o, r, t]) => {
                    Some(Icmpv4Type::TimestampRequest(TimestampMessage {
                        id: num(i)?,
                        seq: num(s)?,
                        originate_timestamp: num(o)?,
                        receive_timestamp: num(r)?,
                        transmit_timestamp: num(t)?,
                    }))
                }
                ("tsreply", [i, s, o, r, t]) => {
                    Some(Icmpv4Type::TimestampReply(TimestampMessage {
                        id: num(i)?,
                        seq: num(s)?,
                        originate_timestamp: num(o)?,
                        receive_timestamp: num(r)?,
                        transmit_timestamp: num(t)?,
                    }))
                }
                _ => return None,
            };
            Some(ty.map(|icmp_type| Icmpv4Header {
                icmp_type,
                checksum: ck,
            }))
        }
        _ => None,
    }
}
fn mk_icmpv6(a: &[&str]) -> V<Icmpv6Header> {
    use icmpv6::*;
    match a {
        [ck, v, args] => {
            let ck: u16 = num(ck)?;
            let l = list(args);
            let ty: Option<Icmpv6Type> = match (*v, &l[..]) {
                ("unknown", [t, c, b]) => Some(Icmpv6Type::Unknown {
                    type_u8: num(t)?,
                    code_u8: num(c)?,
                    bytes5to8: hex_n::<4>(b)?,
                }),
                ("du", [c]) => {
                    DestUnreachableCode::from_u8(num(c)?).map(Icmpv6Type::DestinationUnreachable)
                }
                ("ptb", [m]) => Some(Icmpv6Type::PacketTooBig { mtu: num(m)? }),
                ("te", [c]) => TimeExceededCode::from_u8(num(c)?).map(Icmpv6Type::TimeExceeded),
                ("pp", [c, p]) => {
                    let pointer: u32 = num(p)?;
                    ParameterProblemCode::from_u8(num(c)?).map(|code| {
                        Icmpv6Type::ParameterProblem(ParameterProblemHeader { code, pointer })
                    })
                }
                ("echoreq", [i, s]) => Some(Icmpv6Type::EchoRequest(IcmpEchoHeader {
                    id: num(i)?,
                    seq: num(s)?,
                })),
                ("echoreply", [i, s]) => Some(Icmpv6Type::EchoReply(IcmpEchoHeader {
                    id: num(i)?,
                    seq: num(s)?,
                })),
                ("rs", []) => Some(Icmpv6Type::RouterSolicitation),
                ("ra", [c, m, o, lt]) => {
                    Some(Icmpv6Type::RouterAdvertisement(RouterAdvertisementHeader {
                        cur_hop_limit: num(c)?,
                        managed_address_config: boolean(m)?,
                        other_config: boolean(o)?,
                        router_lifetime: num(lt)?,
                    }))
                }
                ("ns", []) => Some(Icmpv6Type::NeighborSolicitation),
                ("na", [r, s, o]) => {
                    Some(Icmpv6Type::NeighborAdvertisement(NeighborAdvertisementHeader {
                        router: boolean(r)?,
                        solicited: boolean(s)?,
                        r#override: boolean(o)?,
                    }))
                }
                ("redirect", []) => Some(Icmpv6Type::Redirect),
                _ => return None,
            };
            Some(ty.map(|icmp_type| Icmpv6Header {
                icmp_type,
                checksum: ck,
            }))
        }
        _ => None,
    }
}
fn mk_ipv6(a: &[&str]) -> V<Ipv6Header> {
    if let [tc, fl, plen, nh, hop, src, dst] = a {
        let tc: u8 = num(tc)?;
        let fl: u32 = num(fl)?;
        let plen: u16 = num(plen)?;
        let nh: u8 = num(nh)?;
        let hop: u8 = num(hop)?;
        let src: [u8; 16] = hex_n::<16>(src)?;
        let dst: [u8; 16] = hex_n::<16>(dst)?;
        Some(Ipv6FlowLabel::try_new(fl).ok().map(|fl| Ipv6Header {
            traffic_class: tc,
            flow_label: fl,
            payload_length: plen,
            next_header: IpNumber(nh),
            hop_limit: hop,
            source: src,
            destination: dst,
        }))
    } else {
        None
    }
}
fn mk_frag(a: &[&str]) -> V<Ipv6FragmentHeader> {
    if let [nh, fo, mf, id] = a {
        let nh: u8 = num(nh)?;
        let fo: u16 = num(fo)?;
        let mf = boolean(mf)?;
        let id: u32 = num(id)?;
        Some(
            IpFragOffset::try_new(fo)
                .ok()
                .map(|fo| Ipv6FragmentHeader::new(IpNumber(nh), fo, mf, id)),
        )
    } else {
        None
    }
}
fn mk_ipv4(a: &[&str]) -> V<Ipv4Header> {
    if let [dscp, ecn, tlen, id, df, mf, fo, ttl, proto, ck, src, dst, opts] = a {
        let dscp: u8 = num(dscp)?;
        let ecn: u8 = num(ecn)?;
        let tlen: u16 = num(tlen)?;
        let id: u16 = num(id)?;
        let df = boolean(df)?;
        let mf = boolean(mf)?;
        let fo: u16 = num(fo)?;
        let ttl: u8 = num(ttl)?;
        let proto: u8 = num(proto)?;
        let ck: u16 = num(ck)?;
        let src: [u8; 4] = hex_n::<4>(src)?;
        let dst: [u8; 4] = hex_n::<4>(dst)?;
        let opts = hex(opts)?;
        Some((|| {
            Some(Ipv4Header {
                dscp: IpDscp::try_new(dscp).ok()?,
                ecn: IpEcn::try_new(ecn).ok()?,
                total_len: tlen,
                identification: id,
                dont_fragment: df,
                more_fragments: mf,
                fragment_offset: IpFragOffset::try_new(fo).ok()?,
                time_to_live: ttl,
                protocol: IpNumber(proto),
                header_checksum: ck,
                source: src,
                destination: dst,
                options: Ipv4Options::try_from(&opts[..]).ok()?,
            })
        })())
    } else {
        None
    }
}
fn mk_auth(a: &[&str]) -> V<IpAuthHeader> {
    if let [nh, spi, seq, icv] = a {
        let nh: u8 = num(nh)?;
        let spi: u32 = num(spi)?;
        let seq: u32 = num(seq)?;
        let icv = hex(icv)?;
        Some(IpAuthHeader::new(IpNumber(nh), spi, seq, &icv).ok())
    } else {
        None
    }
}
fn mk_rawext(a: &[&str]) -> V<Ipv6RawExtHeader> {
    if let [nh, payload] = a {
        let nh: u8 = num(nh)?;
        let payload = hex(payload)?;
        Some(Ipv6RawExtHeader::new_raw(IpNumber(nh), &payload).ok())
    } else {
        None
    }
}
/// `none` or a comma separated field list
fn mk_opt<T>(s: &str, mk: impl Fn(&[&str]) -> V<T>) -> V<Option<T>> {
    if s == "none" {
        return Some(Some(None));
    }
    let l: Vec<&str> = s.split(',').collect();
    Some(mk(&l)?.map(Some))
}
fn mk_ipv4exts(a: &[&str]) -> V<Ipv4Extensions> {
    match a {
        [auth] => Some(mk_opt(auth, mk_auth)?.map(|auth| Ipv4Extensions { auth })),
        _ => None,
    }
}
/// hbh dst rt frag auth fdst (each `none` or a comma separated field list)
fn mk_ipv6exts(a: &[&str]) -> V<Ipv6Extensions> {
    match a {
        [hbh, dst, rt, frag, auth, fdst] => {
            let hbh = mk_opt(hbh, mk_rawext)?;
            let dst = mk_opt(dst, mk_rawext)?;
            let rt = mk_opt(rt, mk_rawext)?;
            let frag = mk_opt(frag, mk_frag)?;
            let auth = mk_opt(auth, mk_auth)?;
            let fdst = mk_opt(fdst, mk_rawext)?;
            Some((|| {
                let (hbh, dst, rt, frag, auth, fdst) = (hbh?, dst?, rt?, frag?, auth?, fdst?);
                // final destination options can only be stored behind a routing header
                if rt.is_none() && fdst.is_some() {
                    return None;
                }
                Some(Ipv6Extensions {
                    hop_by_hop_options: hbh,
                    destination_options: dst,
                    routing: rt.map(|routing| Ipv6RoutingExtensions {
                        routing,
                        final_destination_options: fdst,
                    }),
                    fragment: frag,
                    auth,
                })
            })())
        }
        _ => None,
    }
}
/// `v4 <ipv4 fields,…> <auth>` or `v6 <ipv6 fields,…> hbh dst rt frag auth fdst`
fn mk_ipheaders(a: &[&str]) -> V<IpHeaders> {
    match a {
        ["v4", h, auth] => {
            let l: Vec<&str> = h.split(',').collect();
            let h = mk_ipv4(&l)?;
            let e = mk_ipv4exts(&[auth])?;
            Some((|| Some(IpHeaders::Ipv4(h?, e?)))())
        }
        ["v6", h, rest @ ..] => {
            let l: Vec<&str> = h.split(',').collect();
            let h = mk_ipv6(&l)?;
            let e = mk_ipv6exts(rest)?;
            Some((|| Some(IpHeaders::Ipv6(h?, e?)))())
        }
        _ => None,
    }
}

// ---------------------------------------------------------------------------------------------
// error rendering

fn ipv4_walk(e: &err::ipv4_exts::ExtsWalkError) -> String {
    match e {
        err::ipv4_exts::ExtsWalkError::ExtNotReferenced { missing_ext } => {
            format!("err(notreferenced({}))", missing_ext.0)
        }
    }
}
fn ipv6_walk(e: &err::ipv6_exts::ExtsWalkError) -> String {
    match e {
        err::ipv6_exts::ExtsWalkError::HopByHopNotAtStart => "err(hbhnotatstart)".to_string(),
        err::ipv6_exts::ExtsWalkError::ExtNotReferenced { missing_ext } => {
            format!("err(notreferenced({}))", missing_ext.0)
        }
    }
}
fn auth_content(e: &err::ip_auth::HeaderError) -> String {
    match e {
        err::ip_auth::HeaderError::ZeroPayloadLen => "err(zeropayloadlen)".to_string(),
    }
}
fn ipv6exts_content(e: &err::ipv6_exts::HeaderError) -> String {
    match e {
        err::ipv6_exts::HeaderError::HopByHopNotAtStart => "err(hbhnotatstart)".to_string(),
        err::ipv6_exts::HeaderError::IpAuth(a) => auth_content(a),
    }
}

// ---------------------------------------------------------------------------------------------
// result lines

fn wr_line<E>(
    k: usize,
    f: impl FnOnce(&mut FailWriter) -> Result<(), E>,
    show: impl Fn(&E) -> String,
) -> String {
    let mut w = FailWriter::new(k);
    let r = f(&mut w);
    let rs = match r {
        Ok(()) => "ok".to_string(),
        Err(e) => show(&e),
    };
    format!("{};w={};post={}", rs, to_hex(&w.out), w.post)
}

const FILL: u8 = 0x5a;
const CANARY: [u8; 8] = [0xc3, 0x3c, 0xc3, 0x3c, 0xa7, 0x7a, 0xa7, 0x7a];

fn ws_line(cap: usize, f: impl FnOnce(&mut [u8]) -> String) -> String {
    let mut buf = vec![FILL; cap + CANARY.len()];
    buf[cap..].copy_from_slice(&CANARY);
    let rs = f(&mut buf[..cap]);
    format!(
        "{};buf={};canary={}",
        rs,
        to_hex(&buf[..cap]),
        if buf[cap..] == CANARY {
            "intact"
        } else {
            "clobbered"
        }
    )
}

fn space_err(e: &err::SliceWriteSpaceError) -> String {
    crate::util::touch(e);
    // the conversion into the builder's error type keeps the REQUIRED length (what a caller has to provide)
    let conv = err::packet::BuildSliceWriteError::from(e.clone());
    if !matches!(conv, err::packet::BuildSliceWriteError::Space(n) if n == e.required_len) {
        return format!("err(space(req={},len={}))!routes-differ(into_build_slice_write_error={:?})", e.required_len, e.len, conv);
    }
    format!(
        "err(space(req={},len={},layer={:?},off={}))",
        e.required_len, e.len, e.layer, e.layer_start_offset
    )
}

fn rd_line<T, E>(
    data: Vec<u8>,
    k: usize,
    f: impl FnOnce(&mut FailReader) -> Result<T, E>,
    ok: impl Fn(&T) -> String,
    er: impl Fn(&E) -> String,
) -> String {
    let mut r = FailReader::new(data, k);
    let res = f(&mut r);
    let rs = match res {
        Ok(v) => ok(&v),
        Err(e) => er(&e),
    };
    format!("{};used={};post={}", rs, r.pos, r.post)
}

fn okb(b: &[u8]) -> String {
    format!("ok({})", to_hex(b))
}
fn opt_hex<T>(o: &Option<T>, f: impl Fn(&T) -> Vec<u8>) -> String {
    match o {
        None => "none".to_string(),
        Some(h) => to_hex(&f(h)),
    }
}
fn show_ipv4exts(e: &Ipv4Extensions) -> String {
    format!("auth={}", opt_hex(&e.auth, |h| h.to_bytes().to_vec()))
}
fn show_ipv6exts(e: &Ipv6Extensions) -> String {
    let (rt, fdst) = match &e.routing {
        None => ("none".to_string(), "none".to_string()),
        Some(r) => (
            to_hex(&r.routing.to_bytes()),
            opt_hex(&r.final_destination_options, |h| h.to_bytes().to_vec()),
        ),
    };
    format!(
        "hbh={},dst={},rt={},frag={},auth={},fdst={}",
        opt_hex(&e.hop_by_hop_options, |h| h.to_bytes().to_vec()),
        opt_hex(&e.destination_options, |h| h.to_bytes().to_vec()),
        rt,
        opt_hex(&e.fragment, |h| h.to_bytes().to_vec()),
        opt_hex(&e.auth, |h| h.to_bytes().to_vec()),
        fdst
    )
}

// ---------------------------------------------------------------------------------------------
// LimitedReader sessions

fn layer_of(s: &str) -> Option<err::Layer> {
    use err::Layer::*;
    Some(match s {
        "Ethernet2Header" => Ethernet2Header,
        "Ipv4Header" => Ipv4Header,
        "Ipv4Packet" => Ipv4Packet,
        "IpAuthHeader" => IpAuthHeader,
        "Ipv6Header" => Ipv6Header,
        "Ipv6ExtHeader" => Ipv6ExtHeader,
        "Ipv6FragHeader" => Ipv6FragHeader,
        "UdpHeader" => UdpHeader,
        "TcpHeader" => TcpHeader,
        _ => return None,
    })
}
fn src_of(s: &str) -> Option<LenSource> {
    Some(match s {
        "Slice" => LenSource::Slice,
        "Ipv4HeaderTotalLen" => LenSource::Ipv4HeaderTotalLen,
        "Ipv6HeaderPayloadLen" => LenSource::Ipv6HeaderPayloadLen,
        "UdpHeaderLen" => LenSource::UdpHeaderLen,
        "TcpHeaderLen" => LenSource::TcpHeaderLen,
        _ => return None,
    })
}
fn lim_err(e: &err::io::LimitedReadError) -> String {
    crate::util::touch(e);
    match e {
        err::io::LimitedReadError::Io(e) => io_err(e),
        err::io::LimitedReadError::Len(l) => len_err(l),
    }
}
fn auth_lim_err(e: &err::ip_auth::HeaderLimitedReadError) -> String {
    crate::util::touch(e);
    use err::ip_auth::HeaderLimitedReadError::*;
    match e {
        Io(e) => io_err(e),
        Len(l) => len_err(l),
        Content(c) => auth_content(c),
    }
}
fn ipv6exts_lim_err(e: &err::ipv6_exts::HeaderLimitedReadError) -> String {
    crate::util::touch(e);
    use err::ipv6_exts::HeaderLimitedReadError::*;
    match e {
        Io(e) => io_err(e),
        Len(l) => len_err(l),
        Content(c) => ipv6exts_content(c),
    }
}

fn limited(a: &[&str]) -> Option<String> {
    let (data, k, max, src, off, layer, ops) = match a {
        [data, k, max, src, off, layer, ops @ ..] => (
            hex(data)?,
            num::<usize>(k)?,
            num::<usize>(max)?,
            src_of(src)?,
            num::<usize>(off)?,
            layer_of(layer)?,
            ops,
        ),
        _ => return None,
    };
    // validate the op list before running anything
    for op in ops {
        let (name, arg) = op.split_once(':').unwrap_or((op, ""));
        match name {
            "read" => {
                num::<usize>(arg)?;
            }
            "start" => {
                layer_of(arg)?;
            }
            "ipv4exts" | "ipv6exts" => {
                num::<u8>(arg)?;
            }
            "auth" | "frag" | "rawext" if arg.is_empty() => {}
            _ => return None,
        }
    }
    let mut inner = FailReader::new(data, k);
    let mut out: Vec<String> = Vec::new();
    {
        let mut r = io::LimitedReader::new(&mut inner, max, src, off, layer);
        for op in ops {
            let (name, arg) = op.split_once(':').unwrap_or((op, ""));
            let res = match name {
                "read" => {
                    let n: usize = num(arg)?;
                    let mut buf = vec![0u8; n];
                    match r.read_exact(&mut buf) {
                        Ok(()) => okb(&buf),
                        Err(e) => lim_err(&e),
                    }
                }
                "start" => {
                    r.start_layer(layer_of(arg)?);
                    "ok".to_string()
                }
                "auth" => match IpAuthHeader::read_limited(&mut r) {
                    Ok(h) => okb(&h.to_bytes()),
                    Err(e) => auth_lim_err(&e),
                },
                "frag" => match Ipv6FragmentHeader::read_limited(&mut r) {
                    Ok(h) => okb(&h.to_bytes()),
                    Err(e) => lim_err(&e),
                },
                "rawext" => match Ipv6RawExtHeader::read_limited(&mut r) {
                    Ok(h) => okb(&h.to_bytes()),
                    Err(e) => lim_err(&e),
                },
                "ipv4exts" => match Ipv4Extensions::read_limited(&mut r, IpNumber(num(arg)?)) {
                    Ok((e, next)) => format!("ok({},next={})", show_ipv4exts(&e), next.0),
                    Err(e) => auth_lim_err(&e),
                },
                "ipv6exts" => match Ipv6Extensions::read_limited(&mut r, IpNumber(num(arg)?)) {
                    Ok((e, next)) => format!("ok({},next={})", show_ipv6exts(&e), next.0),
                    Err(e) => ipv6exts_lim_err(&e),
                },
                _ => return None,
            };
            out.push(format!(
                "{}={}@({},{},{},{:?},{:?})",
                op,
                res,
                r.max_len(),
                r.read_len(),
                r.layer_offset(),
                r.layer(),
                r.len_source()
            ));
        }
        let _ = r.take_reader();
    }
    Some(format!("[{}];pulled={}", out.join(","), inner.pos))
}

// ---------------------------------------------------------------------------------------------
// PacketBuilder paths

enum Mode {
    Write(usize),
    Slice(usize),
}

fn too_big_usize(e: &err::ValueTooBigError<usize>) -> String {
    format!(
        "err(payloadlen(actual={},max={},vt={:?}))",
        e.actual, e.max_allowed, e.value_type
    )
}
fn build_err(e: &err::packet::BuildWriteError) -> String {
    crate::util::touch(e);
    use err::packet::BuildWriteError::*;
    match e {
        Io(e) => io_err(e),
        PayloadLen(e) => too_big_usize(e),
        Ipv4Exts(c) => ipv4_walk(c),
        Ipv6Exts(c) => ipv6_walk(c),
        Icmpv6InIpv4 => "err(icmpv6inipv4)".to_string(),
        ArpHeaderNotMatch => "err(arpheadernotmatch)".to_string(),
    }
}
fn build_slice_err(e: &err::packet::BuildSliceWriteError) -> String {
    crate::util::touch(e);
    use err::packet::BuildSliceWriteError::*;
    match e {
        Space(n) => format!("err(space({}))", n),
        PayloadLen(e) => too_big_usize(e),
        Ipv4Exts(c) => ipv4_walk(c),
        Ipv6Exts(c) => ipv6_walk(c),
        Icmpv6InIpv4 => "err(icmpv6inipv4)".to_string(),
        ArpHeaderNotMatch => "err(arpheadernotmatch)".to_string(),
    }
}

macro_rules! fin {
    ($b:expr, $payload:expr, $mode:expr) => {
        match $mode {
            Mode::Write(k) => wr_line(k, |w| $b.write(w, $payload), build_err),
            Mode::Slice(cap) => ws_line(cap, |buf| match $b.write_to_slice(buf, $payload) {
                Ok(n) => format!("ok(n={})", n),
                Err(e) => build_slice_err(&e),
            }),
        }
    };
}

/// `<path> <args…> <payload> <k|cap>`
fn build(a: &[&str], slice: bool) -> Option<String> {
    let (a, last) = split_last(a)?;
    let n: usize = num(last)?;
    let mode = if slice { Mode::Slice(n) } else { Mode::Write(n) };
    let (a, payload) = split_last(a)?;
    let payload = hex(payload)?;
    let (path, a) = a.split_first()?;
    Some(match (*path, a) {
        ("e4u", [s, d, is, id, ttl, sp, dp]) => {
            let b = PacketBuilder::ethernet2(hex_n::<6>(s)?, hex_n::<6>(d)?)
                .ipv4(hex_n::<4>(is)?, hex_n::<4>(id)?, num(ttl)?)
                .udp(num(sp)?, num(dp)?);
            fin!(b, &payload, mode)
        }
        ("ev6u", [s, d, vid, is, id, hop, sp, dp]) => {
            let vid = match VlanId::try_new(num(vid)?) {
                Ok(v) => v,
                Err(_) => return Some("bad-value".to_string()),
            };
            let b = PacketBuilder::ethernet2(hex_n::<6>(s)?, hex_n::<6>(d)?)
                .single_vlan(vid)
                .ipv6(hex_n::<16>(is)?, hex_n::<16>(id)?, num(hop)?)
                .udp(num(sp)?, num(dp)?);
            fin!(b, &payload, mode)
        }
        ("4t", [is, id, ttl, sp, dp, seq, win]) => {
            let b = PacketBuilder::ipv4(hex_n::<4>(is)?, hex_n::<4>(id)?, num(ttl)?).tcp(
                num(sp)?,
                num(dp)?,
                num(seq)?,
                num(win)?,
            );
            fin!(b, &payload, mode)
        }
        ("edd4i", [s, d, outer, inner, is, id, ttl, eid, eseq]) => {
            let (o, i) = match (VlanId::try_new(num(outer)?), VlanId::try_new(num(inner)?)) {
                (Ok(o), Ok(i)) => (o, i),
                _ => return Some("bad-value".to_string()),
            };
            let b = PacketBuilder::ethernet2(hex_n::<6>(s)?, hex_n::<6>(d)?)
                .double_vlan(o, i)
                .ipv4(hex_n::<4>(is)?, hex_n::<4>(id)?, num(ttl)?)
                .icmpv4_echo_request(num(eid)?, num(eseq)?);
            fin!(b, &payload, mode)
        }
        ("6i6", [is, id, hop, eid, eseq]) => {
            let b = PacketBuilder::ipv6(hex_n::<16>(is)?, hex_n::<16>(id)?, num(hop)?)
                .icmpv6_echo_request(num(eid)?, num(eseq)?);
            fin!(b, &payload, mode)
        }
        ("e4i6", [s, d, is, id, ttl, eid, eseq]) => {
            let b = PacketBuilder::ethernet2(hex_n::<6>(s)?, hex_n::<6>(d)?)
                .ipv4(hex_n::<4>(is)?, hex_n::<4>(id)?, num(ttl)?)
                .icmpv6_echo_request(num(eid)?, num(eseq)?);
            fin!(b, &payload, mode)
        }
        ("earp", [s, d, rest @ ..]) => {
            if !payload.is_empty() {
                return None;
            }
            let arp = match mk_arp(rest)? {
                Some(p) => p,
                None => return Some("bad-value".to_string()),
            };
            let b = PacketBuilder::ethernet2(hex_n::<6>(s)?, hex_n::<6>(d)?).arp(arp);
            match mode {
                Mode::Write(k) => wr_line(k, |w| b.write(w), build_err),
                Mode::Slice(cap) => ws_line(cap, |buf| match b.write_to_slice(buf) {
                    Ok(n) => format!("ok(n={})", n),
                    Err(e) => build_slice_err(&e),
                }),
            }
        }
        _ => return None,
    })
}

// ---------------------------------------------------------------------------------------------
// dispatch

macro_rules! simple_write {
    ($a:expr, $mk:expr) => {{
        let (f, k) = split_last($a)?;
        let k: usize = num(k)?;
        match $mk(f)? {
            None => "bad-value".to_string(),
            Some(h) => wr_line(k, |w| h.write(w), io_err),
        }
    }};
}

macro_rules! simple_read {
    ($a:expr, $ty:ty) => {{
        match $a {
            [d, k] => rd_line(
                hex(d)?,
                num(k)?,
                |r| <$ty>::read(r),
                |h| okb(&h.to_bytes()),
                io_err,
            ),
            _ => return None,
        }
    }};
}

pub fn run(op: &str, a: &[&str]) -> Option<String> {
    Some(match op {
        // ---- writers
        "io.write.eth2" => simple_write!(a, mk_eth2),
        "io.write.vlan" => simple_write!(a, mk_vlan),
        "io.write.sll" => simple_write!(a, mk_sll),
        "io.write.macsec" => simple_write!(a, mk_macsec),
        "io.write.arp" => simple_write!(a, mk_arp),
        "io.write.ipv4" => simple_write!(a, mk_ipv4),
        "io.write.ipv4raw" => {
            let (f, k) = split_last(a)?;
            let k: usize = num(k)?;
            match mk_ipv4(f)? {
                None => "bad-value".to_string(),
                Some(h) => wr_line(k, |w| h.write_raw(w), io_err),
            }
        }
        "io.write.ipv6" => simple_write!(a, mk_ipv6),
        "io.write.ipv6frag" => simple_write!(a, mk_frag),
        "io.write.rawext" => simple_write!(a, mk_rawext),
        "io.write.auth" => simple_write!(a, mk_auth),
        "io.write.udp" => simple_write!(a, mk_udp),
        "io.write.tcp" => simple_write!(a, mk_tcp),
        "io.write.icmpv4" => simple_write!(a, mk_icmpv4),
        "io.write.icmpv6" => simple_write!(a, mk_icmpv6),
        // ---- Icmpv6Payload::write (the fixed NDP payload parts): kind + the payload's own bytes
        "io.write.icmpv6payload" => match a {
            [kind, h, k] => {
                let b = hex(h)?;
                let k: usize = num(k)?;
                let a16 = |x: &[u8]| -> Option<core::net::Ipv6Addr> {
                    let y: [u8; 16] = x.try_into().ok()?;
                    Some(core::net::Ipv6Addr::from(y))
                };
                let p = match (*kind, b.len()) {
                    ("rs", 0) => icmpv6::Icmpv6Payload::RouterSolicitation(icmpv6::RouterSolicitationPayload),
                    ("ra", 8) => icmpv6::Icmpv6Payload::RouterAdvertisement(icmpv6::RouterAdvertisementPayload {
                        reachable_time: u32::from_be_bytes(b[0..4].try_into().ok()?),
                        retrans_timer: u32::from_be_bytes(b[4..8].try_into().ok()?),
                    }),
                    ("ns", 16) => icmpv6::Icmpv6Payload::NeighborSolicitation(icmpv6::NeighborSolicitationPayload {
                        target_address: a16(&b)?,
                    }),
                    ("na", 16) => icmpv6::Icmpv6Payload::NeighborAdvertisement(icmpv6::NeighborAdvertisementPayload {
                        target_address: a16(&b)?,
                    }),
                    ("rd", 32) => icmpv6::Icmpv6Payload::Redirect(icmpv6::RedirectPayload {
                        target_address: a16(&b[..16])?,
                        destination_address: a16(&b[16..])?,
                    }),
                    _ => return None,
                };
                if p.len() != b.len() {
                    return Some("!len-differs".to_string());
                }
                wr_line(k, |w| p.write(w), io_err)
            }
            _ => return None,
        },
        // ---- the enum wrappers (LinkHeader::write, TransportHeader::write)
        "io.write.link.eth2" => simple_write!(a, |f| mk_eth2(f).map(|o| o.map(LinkHeader::Ethernet2))),
        "io.write.link.sll" => simple_write!(a, |f| mk_sll(f).map(|o| o.map(LinkHeader::LinuxSll))),
        "io.write.tp.udp" => simple_write!(a, |f| mk_udp(f).map(|o| o.map(TransportHeader::Udp))),
        "io.write.tp.tcp" => simple_write!(a, |f| mk_tcp(f).map(|o| o.map(TransportHeader::Tcp))),
        "io.write.tp.icmpv4" => {
            simple_write!(a, |f| mk_icmpv4(f).map(|o| o.map(TransportHeader::Icmpv4)))
        }
        "io.write.tp.icmpv6" => {
            simple_write!(a, |f| mk_icmpv6(f).map(|o| o.map(TransportHeader::Icmpv6)))
        }
        "io.write.ipv4exts" => {
            // <start> <auth> <k>
            let (f, k) = split_last(a)?;
            let k: usize = num(k)?;
            let (start, f) = f.split_first()?;
            let start: u8 = num(start)?;
            match mk_ipv4exts(f)? {
                None => "bad-value".to_string(),
                Some(e) => wr_line(
                    k,
                    |w| e.write(w, IpNumber(start)),
                    |e| match e {
                        err::ipv4_exts::HeaderWriteError::Io(e) => io_err(e),
                        err::ipv4_exts::HeaderWriteError::Content(c) => ipv4_walk(c),
                    },
                ),
            }
        }
        "io.write.ipv6exts" => {
            // <first> hbh dst rt frag auth fdst <k>
            let (f, k) = split_last(a)?;
            let k: usize = num(k)?;
            let (start, f) = f.split_first()?;
            let start: u8 = num(start)?;
            match mk_ipv6exts(f)? {
                None => "bad-value".to_string(),
                Some(e) => wr_line(
                    k,
                    |w| e.write(w, IpNumber(start)),
                    |e| match e {
                        err::ipv6_exts::HeaderWriteError::Io(e) => io_err(e),
                        err::ipv6_exts::HeaderWriteError::Content(c) => ipv6_walk(c),
                    },
                ),
            }
        }
        "io.write.ipheaders" => {
            let (f, k) = split_last(a)?;
            let k: usize = num(k)?;
            match mk_ipheaders(f)? {
                None => "bad-value".to_string(),
                Some(h) => wr_line(
                    k,
                    |w| h.write(w),
                    |e| match e {
                        err::ip::HeadersWriteError::Io(e) => io_err(e),
                        err::ip::HeadersWriteError::Ipv4Exts(c) => ipv4_walk(c),
                        err::ip::HeadersWriteError::Ipv6Exts(c) => ipv6_walk(c),
                    },
                ),
            }
        }
        // ---- slice writers
        "io.wslice.eth2" => {
            let (f, c) = split_last(a)?;
            let cap: usize = num(c)?;
            match mk_eth2(f)? {
                None => "bad-value".to_string(),
                Some(h) => ws_line(cap, |buf| match h.write_to_slice(buf) {
                    Ok(rest) => format!("ok(rest={})", rest.len()),
                    Err(e) => space_err(&e),
                }),
            }
        }
        "io.wslice.sll" => {
            let (f, c) = split_last(a)?;
            let cap: usize = num(c)?;
            match mk_sll(f)? {
                None => "bad-value".to_string(),
                Some(h) => ws_line(cap, |buf| match h.write_to_slice(buf) {
                    Ok(rest) => format!("ok(rest={})", rest.len()),
                    Err(e) => space_err(&e),
                }),
            }
        }
        // ---- readers
        "io.read.eth2" => simple_read!(a, Ethernet2Header),
        "io.read.vlan" => simple_read!(a, SingleVlanHeader),
        "io.read.sll" => match a {
            [d, k] => rd_line(
                hex(d)?,
                num(k)?,
                |r| LinuxSllHeader::read(r),
                |h| okb(&h.to_bytes()),
                |e| match e {
                    err::ReadError::Io(e) => io_err(e),
                    err::ReadError::LinuxSll(c) => {
                        use err::linux_sll::HeaderError::*;
                        match c {
                            UnsupportedPacketTypeField { packet_type } => format!(
                                "err(content(UnsupportedPacketTypeField(packet_type={})))",
                                packet_type
                            ),
                            UnsupportedArpHardwareId { arp_hardware_type } => format!(
                                "err(content(UnsupportedArpHardwareId(arp_hardware_type={})))",
                                arp_hardware_type.0
                            ),
                        }
                    }
                    other => format!("err(unexpected({:?}))", other),
                },
            ),
            _ => return None,
        },
        "io.read.macsec" => match a {
            [d, k] => rd_line(
                hex(d)?,
                num(k)?,
                |r| MacsecHeader::read(r),
                |h| okb(&h.to_bytes()),
                |e| match e {
                    err::macsec::HeaderReadError::Io(e) => io_err(e),
                    err::macsec::HeaderReadError::Content(c) => format!("err(content({:?}))", c),
                },
            ),
            _ => return None,
        },
        "io.read.arp" => simple_read!(a, ArpPacket),
        "io.read.ipv4" => match a {
            [d, k] => rd_line(
                hex(d)?,
                num(k)?,
                |r| Ipv4Header::read(r),
                |h| okb(&h.to_bytes()),
                |e| {
                    use err::ipv4::{HeaderError::*, HeaderReadError::*};
                    match e {
                        Io(e) => io_err(e),
                        Content(UnexpectedVersion { version_number }) => {
                            format!("err(version({}))", version_number)
                        }
                        Content(HeaderLengthSmallerThanHeader { ihl }) => {
                            format!("err(ihl({}))", ihl)
                        }
                    }
                },
            ),
            _ => return None,
        },
        "io.read.ipv6" => match a {
            [d, k] => rd_line(
                hex(d)?,
                num(k)?,
                |r| Ipv6Header::read(r),
                |h| okb(&h.to_bytes()),
                |e| {
                    use err::ipv6::{HeaderError::*, HeaderReadError::*};
                    match e {
                        Io(e) => io_err(e),
                        Content(UnexpectedVersion { version_number }) => {
                            format!("err(version({}))", version_number)
                        }
                    }
                },
            ),
            _ => return None,
        },
        "io.read.ipv6frag" => simple_read!(a, Ipv6FragmentHeader),
        "io.read.rawext" => simple_read!(a, Ipv6RawExtHeader),
        "io.read.auth" => match a {
            [d, k] => rd_line(
                hex(d)?,
                num(k)?,
                |r| IpAuthHeader::read(r),
                |h| okb(&h.to_bytes()),
                |e| match e {
                    err::ip_auth::HeaderReadError::Io(e) => io_err(e),
                    err::ip_auth::HeaderReadError::Content(c) => auth_content(c),
                },
            ),
            _ => return None,
        },
        "io.read.udp" => simple_read!(a, UdpHeader),
        "io.read.tcp" => match a {
            [d, k] => rd_line(
                hex(d)?,
                num(k)?,
                |r| TcpHeader::read(r),
                |h| okb(&h.to_bytes()),
                |e| match e {
                    err::tcp::HeaderReadError::Io(e) => io_err(e),
                    err::tcp::HeaderReadError::Content(
                        err::tcp::HeaderError::DataOffsetTooSmall { data_offset },
                    ) => format!(
                        "err(content(DataOffsetTooSmall(data_offset={})))",
                        data_offset
                    ),
                },
            ),
            _ => return None,
        },
        "io.read.icmpv4" => simple_read!(a, Icmpv4Header),
        "io.read.icmpv6" => simple_read!(a, Icmpv6Header),
        "io.read.ipv4exts" => match a {
            [start, d, k] => {
                let start: u8 = num(start)?;
                rd_line(
                    hex(d)?,
                    num(k)?,
                    |r| Ipv4Extensions::read(r, IpNumber(start)),
                    |(e, next)| format!("ok({},next={})", show_ipv4exts(e), next.0),
                    |e| match e {
                        err::ip_auth::HeaderReadError::Io(e) => io_err(e),
                        err::ip_auth::HeaderReadError::Content(c) => auth_content(c),
                    },
                )
            }
            _ => return None,
        },
        "io.read.ipv6exts" => match a {
            [start, d, k] => {
                let start: u8 = num(start)?;
                rd_line(
                    hex(d)?,
                    num(k)?,
                    |r| Ipv6Extensions::read(r, IpNumber(start)),
                    |(e, next)| format!("ok({},next={})", show_ipv6exts(e), next.0),
                    |e| match e {
                        err::ipv6_exts::HeaderReadError::Io(e) => io_err(e),
                        err::ipv6_exts::HeaderReadError::Content(c) => ipv6exts_content(c),
                    },
                )
            }
            _ => return None,
        },
        "io.read.ipheaders" => match a {
            [d, k] => rd_line(
                hex(d)?,
                num(k)?,
                |r| IpHeaders::read(r),
                |(h, next)| match h {
                    IpHeaders::Ipv4(h, e) => format!(
                        "ok(v4(h={},{}),next={})",
                        to_hex(&h.to_bytes()),
                        show_ipv4exts(e),
                        next.0
                    ),
                    IpHeaders::Ipv6(h, e) => format!(
                        "ok(v6(h={},{}),next={})",
                        to_hex(&h.to_bytes()),
                        show_ipv6exts(e),
                        next.0
                    ),
                },
                |e| {
                    use err::ip::{HeaderError::*, HeaderReadError::*, HeadersError::*};
                    match e {
                        Io(e) => io_err(e),
                        Len(l) => len_err(l),
                        Content(Ip(UnsupportedIpVersion { version_number })) => {
                            format!("err(version({}))", version_number)
                        }
                        Content(Ip(Ipv4HeaderLengthSmallerThanHeader { ihl })) => {
                            format!("err(ihl({}))", ihl)
                        }
                        Content(Ipv4Ext(c)) => auth_content(c),
                        Content(Ipv6Ext(c)) => ipv6exts_content(c),
                    }
                },
            ),
            _ => return None,
        },
        // ---- LimitedReader
        "io.limited" => limited(a)?,
        "io.build.write" => build(a, false)?,
        "io.build.wslice" => build(a, true)?,
        // ---- Read + Seek skipping of IPv6 extension headers
        "io.skip.ext" => {
            let l = skip_line(a, |r, n| Ipv6Header::skip_header_extension(r, n))?;
            skip_twins(false, a, &l)?
        }
        "io.skip.all" => {
            let l = skip_line(a, |r, n| Ipv6Header::skip_all_header_extensions(r, n))?;
            skip_twins(true, a, &l)?
        }
        "io.skip.ext.sf" => skip_line_sf(a, |r, n| Ipv6Header::skip_header_extension(r, n))?,
        "io.skip.all.sf" => skip_line_sf(a, |r, n| Ipv6Header::skip_all_header_extensions(r, n))?,
        _ => return None,
    })
}
