//! `impl.dec.read_*`: every header type that has both a `read` (io::Read) and a `from_slice` door is
//! decoded through both on the same bytes (C06 iii; also part of the C01/C02 streams).  Printed as
//! `slice=<result>|read=<result>` where a result is `ok(<Debug of the value>;<bytes consumed>)` or
//! `err(<Debug of the error>)`.
use etherparse::*;
use std::fmt::Debug;
use std::io::Cursor;

fn s_ok<T: Debug>(v: &T, consumed: usize) -> String {
    format!("ok({:?};{})", v, consumed)
}

fn s_err<E: Debug + std::fmt::Display>(e: &E) -> String {
    // Display must not panic either
    let _ = format!("{}", e);
    format!("err({:?})", e)
}

macro_rules! both {
    ($b:expr, $slice:expr, $read:expr) => {{
        let b: &[u8] = $b;
        let s = match $slice(b) {
            Ok((v, consumed)) => s_ok(&v, consumed),
            Err(e) => s_err(&e),
        };
        let mut c = Cursor::new(b);
        let r = match $read(&mut c) {
            Ok(v) => s_ok(&v, c.position() as usize),
            Err(e) => s_err(&e),
        };
        format!("slice={}|read={}", s, r)
    }};
}

/// further doors to the same header (the `*HeaderSlice` types with `to_header()`, the deprecated
/// `read_from_slice` aliases): each has to accept exactly what `from_slice` accepts and hand out the same
/// header.  Returns the list of doors that differ.
#[allow(deprecated)]
fn more_doors(op: &str, b: &[u8]) -> Vec<String> {
    fn cmp<T: Debug, E>(
        diffs: &mut Vec<String>,
        name: &str,
        main: &Option<String>,
        other: Result<T, E>,
    ) {
        let o = other.ok().map(|v| format!("{:?}", v));
        if &o != main {
            diffs.push(format!("{}={}", name, o.unwrap_or_else(|| "err".to_string())));
        }
    }
    let mut d = Vec::new();
    match op {
        "impl.dec.read_eth2" => {
            let m = Ethernet2Header::from_slice(b).ok().map(|x| format!("{:?}", x.0));
            cmp(&mut d, "header_slice", &m, Ethernet2HeaderSlice::from_slice(b).map(|s| s.to_header()));
            cmp(&mut d, "read_from_slice", &m, Ethernet2Header::read_from_slice(b).map(|x| x.0));
        }
        "impl.dec.read_vlan" => {
            let m = SingleVlanHeader::from_slice(b).ok().map(|x| format!("{:?}", x.0));
            cmp(&mut d, "header_slice", &m, SingleVlanHeaderSlice::from_slice(b).map(|s| s.to_header()));
            cmp(&mut d, "read_from_slice", &m, SingleVlanHeader::read_from_slice(b).map(|x| x.0));
        }
        "impl.dec.read_sll" => {
            let m = LinuxSllHeader::from_slice(b).ok().map(|x| format!("{:?}", x.0));
            cmp(&mut d, "header_slice", &m, LinuxSllHeaderSlice::from_slice(b).map(|s| s.to_header()));
        }
        "impl.dec.read_macsec" => {
            let m = MacsecHeader::from_slice(b).ok().map(|x| format!("{:?}", x));
            cmp(&mut d, "header_slice", &m, MacsecHeaderSlice::from_slice(b).map(|s| s.to_header()));
        }
        "impl.dec.read_ipv4" => {
            let m = Ipv4Header::from_slice(b).ok().map(|x| format!("{:?}", x.0));
            cmp(&mut d, "header_slice", &m, Ipv4HeaderSlice::from_slice(b).map(|s| s.to_header()));
            cmp(&mut d, "read_from_slice", &m, Ipv4Header::read_from_slice(b).map(|x| x.0));
        }
        "impl.dec.read_ipv6" => {
            let m = Ipv6Header::from_slice(b).ok().map(|x| format!("{:?}", x.0));
            cmp(&mut d, "header_slice", &m, Ipv6HeaderSlice::from_slice(b).map(|s| s.to_header()));
            cmp(&mut d, "read_from_slice", &m, Ipv6Header::read_from_slice(b).map(|x| x.0));
        }
        "impl.dec.read_ah" => {
            let m = IpAuthHeader::from_slice(b).ok().map(|x| format!("{:?}", x.0));
            cmp(&mut d, "header_slice", &m, IpAuthHeaderSlice::from_slice(b).map(|s| s.to_header()));
        }
        "impl.dec.read_rawext" => {
            let m = Ipv6RawExtHeader::from_slice(b).ok().map(|x| format!("{:?}", x.0));
            cmp(&mut d, "header_slice", &m, Ipv6RawExtHeaderSlice::from_slice(b).map(|s| s.to_header()));
        }
        "impl.dec.read_frag" => {
            let m = Ipv6FragmentHeader::from_slice(b).ok().map(|x| format!("{:?}", x.0));
            cmp(&mut d, "header_slice", &m, Ipv6FragmentHeaderSlice::from_slice(b).map(|s| s.to_header()));
        }
        "impl.dec.read_udp" => {
            let m = UdpHeader::from_slice(b).ok().map(|x| format!("{:?}", x.0));
            cmp(&mut d, "header_slice", &m, UdpHeaderSlice::from_slice(b).map(|s| s.to_header()));
            cmp(&mut d, "read_from_slice", &m, UdpHeader::read_from_slice(b).map(|x| x.0));
        }
        "impl.dec.read_tcp" => {
            let m = TcpHeader::from_slice(b).ok().map(|x| format!("{:?}", x.0));
            cmp(&mut d, "header_slice", &m, TcpHeaderSlice::from_slice(b).map(|s| s.to_header()));
            cmp(&mut d, "read_from_slice", &m, TcpHeader::read_from_slice(b).map(|x| x.0));
        }
        "impl.dec.read_icmp4" => {
            let m = Icmpv4Header::from_slice(b).ok().map(|x| format!("{:?}", x.0));
            cmp(&mut d, "slice_header", &m, Icmpv4Slice::from_slice(b).map(|s| s.header()));
        }
        "impl.dec.read_icmp6" => {
            let m = Icmpv6Header::from_slice(b).ok().map(|x| format!("{:?}", x.0));
            cmp(&mut d, "slice_header", &m, Icmpv6Slice::from_slice(b).map(|s| s.header()));
        }
        "impl.dec.read_iph" => {
            let m = IpHeaders::from_slice(b).ok().map(|x| format!("{:?}", x.0));
            cmp(&mut d, "read_from_slice", &m, IpHeaders::read_from_slice(b).map(|x| x.0));
        }
        _ => {}
    }
    d
}

pub fn run_on(op: &str, arg: Option<u16>, b: &[u8]) -> Option<String> {
    let main = run_main(op, arg, b)?;
    let d = more_doors(op, b);
    Some(if d.is_empty() {
        main
    } else {
        format!("{}!doors-differ({})", main, d.join(";"))
    })
}

fn run_main(op: &str, arg: Option<u16>, b: &[u8]) -> Option<String> {
    Some(match (op, arg) {
        ("impl.dec.read_eth2", None) => both!(b, |b: &[u8]| Ethernet2Header::from_slice(b).map(|(h, rest)| (h, b.len() - rest.len())), Ethernet2Header::read),
        ("impl.dec.read_sll", None) => both!(b, |b: &[u8]| LinuxSllHeader::from_slice(b).map(|(h, rest)| (h, b.len() - rest.len())), LinuxSllHeader::read),
        ("impl.dec.read_vlan", None) => both!(b, |b: &[u8]| SingleVlanHeader::from_slice(b).map(|(h, rest)| (h, b.len() - rest.len())), SingleVlanHeader::read),
        ("impl.dec.read_macsec", None) => both!(
            b,
            |b: &[u8]| MacsecHeader::from_slice(b).map(|h| {
                let l = h.header_len();
                (h, l)
            }),
            MacsecHeader::read
        ),
        ("impl.dec.read_arp", None) => both!(
            b,
            |b: &[u8]| ArpPacket::from_slice(b).map(|p| {
                let l = p.packet_len();
                (p, l)
            }),
            ArpPacket::read
        ),
        ("impl.dec.read_ipv4", None) => both!(b, |b: &[u8]| Ipv4Header::from_slice(b).map(|(h, rest)| (h, b.len() - rest.len())), Ipv4Header::read),
        ("impl.dec.read_ipv6", None) => both!(b, |b: &[u8]| Ipv6Header::from_slice(b).map(|(h, rest)| (h, b.len() - rest.len())), Ipv6Header::read),
        ("impl.dec.read_ah", None) => both!(b, |b: &[u8]| IpAuthHeader::from_slice(b).map(|(h, rest)| (h, b.len() - rest.len())), IpAuthHeader::read),
        ("impl.dec.read_rawext", None) => both!(b, |b: &[u8]| Ipv6RawExtHeader::from_slice(b).map(|(h, rest)| (h, b.len() - rest.len())), Ipv6RawExtHeader::read),
        ("impl.dec.read_frag", None) => both!(b, |b: &[u8]| Ipv6FragmentHeader::from_slice(b).map(|(h, rest)| (h, b.len() - rest.len())), Ipv6FragmentHeader::read),
        ("impl.dec.read_udp", None) => both!(b, |b: &[u8]| UdpHeader::from_slice(b).map(|(h, rest)| (h, b.len() - rest.len())), UdpHeader::read),
        ("impl.dec.read_tcp", None) => both!(b, |b: &[u8]| TcpHeader::from_slice(b).map(|(h, rest)| (h, b.len() - rest.len())), TcpHeader::read),
        ("impl.dec.read_icmp4", None) => both!(b, |b: &[u8]| Icmpv4Header::from_slice(b).map(|(h, rest)| (h, b.len() - rest.len())), Icmpv4Header::read),
        ("impl.dec.read_icmp6", None) => both!(b, |b: &[u8]| Icmpv6Header::from_slice(b).map(|(h, rest)| (h, b.len() - rest.len())), Icmpv6Header::read),
        ("impl.dec.read_v4exts", Some(nh)) => both!(
            b,
            |b: &[u8]| Ipv4Extensions::from_slice(IpNumber(nh as u8), b).map(|(e, n, rest)| ((e, n), b.len() - rest.len())),
            |c: &mut Cursor<&[u8]>| Ipv4Extensions::read(c, IpNumber(nh as u8))
        ),
        ("impl.dec.read_v6exts", Some(nh)) => both!(
            b,
            |b: &[u8]| Ipv6Extensions::from_slice(IpNumber(nh as u8), b).map(|(e, n, rest)| ((e, n), b.len() - rest.len())),
            |c: &mut Cursor<&[u8]>| Ipv6Extensions::read(c, IpNumber(nh as u8))
        ),
        ("impl.dec.read_iph", None) => both!(
            b,
            |b: &[u8]| IpHeaders::from_slice(b).map(|(h, p)| ((h, p.ip_number), (p.payload.as_ptr() as usize) - (b.as_ptr() as usize))),
            IpHeaders::read
        ),
        // ---- the length-limited readers against decoding the slice cut at the limit: same value and
        //      consumed bytes, or the same error record (the reader carries the name of the limiting field
        //      and the offset of the first layer, the slice side gets them added)
        (_, Some(lim)) if op.starts_with("impl.dec.readlim_") => return readlim(op, usize::from(lim), b),
        _ => return None,
    })
}

fn readlim(op: &str, lim: usize, b: &[u8]) -> Option<String> {
    use etherparse::err::{Layer, LenError};
    use etherparse::io::LimitedReader;
    const SRC: LenSource = LenSource::Ipv6HeaderPayloadLen;
    const OFF: usize = 40;
    if lim > b.len() {
        return None;
    }
    // first byte of the argument: the ip number the chain starts with (for the chain readers)
    let nh = IpNumber(*b.first()?);
    let b = &b[1..];
    if lim > b.len() {
        return None;
    }
    let cut = &b[..lim];
    fn len_s(l: &LenError) -> String {
        let mut l = l.clone();
        if l.len_source == LenSource::Slice {
            l.len_source = SRC;
        }
        format!("err(len({:?}))", l.add_offset(OFF))
    }
    fn len_r(l: &LenError) -> String {
        format!("err(len({:?}))", l)
    }
    let mut r = LimitedReader::new(Cursor::new(b), lim, SRC, OFF, Layer::Ipv6Header);
    let (s, rd) = match op {
        "impl.dec.readlim_ah" => (
            match IpAuthHeader::from_slice(cut) {
                Ok((h, rest)) => s_ok(&h, cut.len() - rest.len()),
                Err(err::ip_auth::HeaderSliceError::Len(l)) => len_s(&l),
                Err(err::ip_auth::HeaderSliceError::Content(c)) => format!("err(content({:?}))", c),
            },
            match IpAuthHeader::read_limited(&mut r) {
                Ok(h) => s_ok(&h, r.read_len()),
                Err(err::ip_auth::HeaderLimitedReadError::Io(_)) => "err(io)".to_string(),
                Err(err::ip_auth::HeaderLimitedReadError::Len(l)) => len_r(&l),
                Err(err::ip_auth::HeaderLimitedReadError::Content(c)) => format!("err(content({:?}))", c),
            },
        ),
        "impl.dec.readlim_rawext" => (
            match Ipv6RawExtHeader::from_slice(cut) {
                Ok((h, rest)) => s_ok(&h, cut.len() - rest.len()),
                Err(l) => len_s(&l),
            },
            match Ipv6RawExtHeader::read_limited(&mut r) {
                Ok(h) => s_ok(&h, r.read_len()),
                Err(err::io::LimitedReadError::Io(_)) => "err(io)".to_string(),
                Err(err::io::LimitedReadError::Len(l)) => len_r(&l),
            },
        ),
        "impl.dec.readlim_frag" => (
            match Ipv6FragmentHeader::from_slice(cut) {
                Ok((h, rest)) => s_ok(&h, cut.len() - rest.len()),
                Err(l) => len_s(&l),
            },
            match Ipv6FragmentHeader::read_limited(&mut r) {
                Ok(h) => s_ok(&h, r.read_len()),
                Err(err::io::LimitedReadError::Io(_)) => "err(io)".to_string(),
                Err(err::io::LimitedReadError::Len(l)) => len_r(&l),
            },
        ),
        "impl.dec.readlim_v4exts" => (
            match Ipv4Extensions::from_slice(nh, cut) {
                Ok((e, n, rest)) => s_ok(&(e, n), cut.len() - rest.len()),
                Err(err::ip_auth::HeaderSliceError::Len(l)) => len_s(&l),
                Err(err::ip_auth::HeaderSliceError::Content(c)) => format!("err(content({:?}))", c),
            },
            match Ipv4Extensions::read_limited(&mut r, nh) {
                // consumed: everything read since the reader was created (layers are started on the way)
                Ok(v) => s_ok(&v, r.layer_offset() + r.read_len() - OFF),
                Err(err::ip_auth::HeaderLimitedReadError::Io(_)) => "err(io)".to_string(),
                Err(err::ip_auth::HeaderLimitedReadError::Len(l)) => len_r(&l),
                Err(err::ip_auth::HeaderLimitedReadError::Content(c)) => format!("err(content({:?}))", c),
            },
        ),
        "impl.dec.readlim_v6exts" => (
            match Ipv6Extensions::from_slice(nh, cut) {
                Ok((e, n, rest)) => s_ok(&(e, n), cut.len() - rest.len()),
                Err(err::ipv6_exts::HeaderSliceError::Len(l)) => len_s(&l),
                Err(err::ipv6_exts::HeaderSliceError::Content(c)) => format!("err(content({:?}))", c),
            },
            match Ipv6Extensions::read_limited(&mut r, nh) {
                Ok(v) => s_ok(&v, r.layer_offset() + r.read_len() - OFF),
                Err(err::ipv6_exts::HeaderLimitedReadError::Io(_)) => "err(io)".to_string(),
                Err(err::ipv6_exts::HeaderLimitedReadError::Len(l)) => len_r(&l),
                Err(err::ipv6_exts::HeaderLimitedReadError::Content(c)) => format!("err(content({:?}))", c),
            },
        ),
        _ => return None,
    };
    // the accessors of the reader itself
    let bad = r.max_len() + (r.layer_offset() - OFF) != lim || r.len_source() != SRC || format!("{:?}", r).is_empty();
    Some(format!("slice={}|read={}{}", s, rd, if bad { "!accessor-mismatch" } else { "" }))
}
