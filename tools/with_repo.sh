#!/bin/bash
# usage: tools/with_repo.sh <path to an etherparse checkout (repo root)> <command…>
# Points the harness of THIS /verif checkout at another tree for the duration of the command.
set -u
here="$(cd "$(dirname "$0")/.." && pwd)"
repo="$1"; shift
cp "$here/harness/Cargo.toml" "$here/harness/Cargo.toml.orig"
sed -i "s#path = \"/repo/etherparse\"#path = \"$repo/etherparse\"#" "$here/harness/Cargo.toml"
(cd "$here" && "$@"); rc=$?
mv "$here/harness/Cargo.toml.orig" "$here/harness/Cargo.toml"
exit $rc
