#!/bin/bash
# usage: tools/seedbatch.sh <worktree prefix, e.g. /tmp/seed2_c> <NN> [<NN> …]
# For every seed directory <prefix>NN/_out/CNN_*: confirm it in its scratch worktree (in parallel per worktree),
# then - serially - apply it to /repo, run the property's own quick check, undo it, and store it under /verif/seeded.
here="$(cd "$(dirname "$0")/.." && pwd)"
prefix="$1"; shift
for n in "$@"; do
  (
    for d in ${prefix}$n/_out/C${n}_*; do
      [ -f $d/patch.diff ] || continue
      python3 $here/tools/seedeval.py confirm $d ${prefix}$n > $d/confirm.log 2>&1
    done
  ) &
done
wait
for n in "$@"; do grep -h "CONFIRMED" ${prefix}$n/_out/C*/confirm.log; done
for n in "$@"; do
  for d in ${prefix}$n/_out/C${n}_*; do
    [ -f $d/patch.diff ] || continue
    id=$(basename $d)
    echo "== $id"
    python3 $here/tools/seedeval.py run $d C$n 2>&1 | tail -2
    python3 $here/tools/seedeval.py store $d $id > /dev/null
  done
done
git -C /repo status --short | head -3
