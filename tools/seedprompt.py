#!/usr/bin/env python3
"""tools/seedprompt.py Cxx <first_k> <worktree> : prompt for a fresh adversary sub-agent (property text + its
scratch worktree only; the earlier seeds of that property are named by place so that it goes elsewhere)."""
import json, sys, glob, os, re
root = os.path.dirname(os.path.dirname(os.path.abspath(__file__)))
pid, k0, wt = sys.argv[1], int(sys.argv[2]), sys.argv[3]
prop = next(p for p in map(json.loads, open(f"{root}/properties.jsonl")) if p["id"] == pid)
prev = []
for m in sorted(glob.glob(f"{root}/seeded/{pid}_*/meta.json")):
    j = json.load(open(m))
    files = ", ".join(os.path.basename(f) for f in j.get("files", []))
    what = re.split(r"(?<=[a-z\)])[:.] ", j.get("what", ""))[0][:170]
    prev.append(f"{files} ({what})")
ks = [k0, k0 + 1, k0 + 2]
q = prop.get("quantifier", {}).get("text", "")
print(f"""You are helping to evaluate a verification effort by playing the adversary. Work ONLY inside the scratch git worktree {wt} (a checkout of the Rust crate JulianSchmid/etherparse: zero-allocation parsing/slicing/building of Ethernet/VLAN/ARP/IPv4/IPv6/TCP/UDP/ICMP packets, plus IP defragmentation; workspace root with the crate in `etherparse/`). Do not read or write anything under /verif or /repo; no network is available (use `cargo ... --offline`).

Here is a semantic property the crate is supposed to have:

--- PROPERTY {pid}: {prop['title']} ---
{prop['statement']}
Quantified over: {q}
---

Your task: produce THREE different, realistic source changes ("mutations") to the crate, each of which BREAKS this property while the crate still compiles and its ENTIRE existing test suite still passes (`cd {wt} && cargo test --workspace --offline` — about 4 minutes; run it for every final candidate; doc tests included). Think of plausible maintainer mistakes or subtle regressions: an off-by-one in a bound, a check moved/dropped in one of several sibling implementations, a wrong constant in one branch, an offset computed from the wrong base, a fix applied to one copy but not its twin. Prefer changes that need something SPECIFIC to manifest — an unusual input, a particular combination of layers/fields, a multi-step sequence of operations, two cooperating sites that each look fine alone — NOT ones that any ordinary use would expose at once, and not ones the existing tests already catch. The three changes should be in different places / of different kinds.

For each change k = {ks[0]}, {ks[1]}, {ks[2]} create the directory {wt}/_out/{pid}_k/ containing:
  * patch.diff — `git diff` of the change against the clean worktree (only files under etherparse/src; one self-contained change per patch; it must apply with `git apply` to a clean checkout of the same commit),
  * demo.rs — a small stand-alone demonstration written as a Rust integration test file (it will be copied to etherparse/tests/demo_seed.rs and run with `cargo test -p etherparse --offline --test demo_seed`) using only the crate's public API (`use etherparse::*;`), with one or more #[test] functions that PASS on the unchanged crate and FAIL (assert or panic) with the change applied; it should state the property violation plainly in comments (what input, what is observed, what the property demands),
  * meta.json — {{"property": "{pid}", "files": [...], "what": "one-paragraph description of the change", "needs": "what specific input/sequence/combination is needed for the violation to manifest", "ran": ["commands you ran and their outcome: full suite passes with the change; demo fails with the change; demo passes without it"]}}.
Procedure per change: edit → `cargo build` → write demo → confirm the demo FAILS with the change → run the FULL suite with the change and confirm it passes (if an existing test fails, the change is not acceptable: pick another) → save `git diff` to patch.diff → `git checkout -- .` (and remove etherparse/tests/demo_seed.rs) → confirm the demo PASSES on the clean tree. Leave the worktree clean at the end (only the untracked _out directory remains). Do not commit anything.

Your final message: for each of the three changes, the file/function touched, what it breaks, what is needed to trigger it, and confirmation of the three runs (suite passes with change; demo fails with change; demo passes without).

{len(prev)} changes were already made by others in earlier rounds, in these places: {'; '.join(prev)}. Yours must be in DIFFERENT functions (preferably different files) and of different kinds than those. Prefer places that are easy to overlook: a second or third implementation of the same logic (reader vs slice vs struct variants, `*_raw` / `*_limited` / `*_lax` twins, enum wrappers that dispatch to the variants, conversion functions such as `to_header`, `From`/`TryFrom` impls, `Debug`/`Display` only if the property mentions them), behaviour on reserved bits or on values at the far end of a field's range, rarely used public functions, and multi-step sequences. Number your output directories {pid}_{ks[0]}, {pid}_{ks[1]}, {pid}_{ks[2]} as said above.""")
