#!/bin/bash
# usage: tools/sweep.sh [quick|thorough] Cxx... ; runs the registered check of each property in turn, prints rc + VIOLATION lines
tier=${1:-quick}; shift
cd "$(dirname "$0")/.."
for id in "$@"; do
  out=$(python3 tools/check.py "$id" "$tier" 2>&1); rc=$?
  echo "$id rc=$rc $(echo "$out" | grep -E 'VIOLATION|KNOWN-FINDING' | tr '\n' '|')"
done
