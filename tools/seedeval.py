#!/usr/bin/env python3
"""Evaluate a seeded change (a patch that breaks a property while compiling and passing the suite).

  seedeval.py confirm <seed_dir> <scratch_worktree>
      in the scratch worktree: patch applies; `cargo test --workspace --offline` passes with it;
      the demonstration (an integration test) FAILS with it and PASSES on the clean tree.
  seedeval.py run <seed_dir> <check> [<check> ...]
      apply the patch to /repo, run `tools/check.py <check> quick` for each check, undo the patch.
  seedeval.py store <seed_dir> <id>
      copy patch.diff, demo.rs, meta.json (+ confirm.json / result.json) to /verif/seeded/<id>/

Nothing is ever committed to /repo; `run` always restores the working tree (git checkout -- .).
"""
import json
import os
import re
import shutil
import subprocess
import sys
import time

VERIF = os.path.dirname(os.path.dirname(os.path.abspath(__file__)))
REPO = "/repo"
ENV = dict(os.environ, CARGO_NET_OFFLINE="true")


def sh(cmd, cwd=None, timeout=3600):
    t = time.time()
    p = subprocess.run(cmd, shell=True, executable="/bin/bash", cwd=cwd, env=ENV, stdout=subprocess.PIPE, stderr=subprocess.STDOUT,
                       timeout=timeout, text=True, errors="replace")
    return p.returncode, p.stdout, time.time() - t


def confirm(seed, wt):
    out = {"seed": seed, "worktree": wt, "steps": []}

    def step(name, cmd, want_zero):
        rc, o, dt = sh(cmd, cwd=wt)
        tail = "\n".join(o.strip().splitlines()[-6:])
        ok = (rc == 0) == want_zero
        out["steps"].append({"step": name, "cmd": cmd, "rc": rc, "as_expected": ok, "secs": round(dt, 1), "tail": tail})
        print(f"  [{name}] rc={rc} {'OK' if ok else 'UNEXPECTED'} ({dt:.0f}s)")
        return ok

    patch = os.path.join(seed, "patch.diff")
    demo = os.path.join(seed, "demo.rs")
    demo_dst = os.path.join(wt, "etherparse/tests/demo_seed.rs")
    sh("git checkout -- . && rm -f etherparse/tests/demo_seed.rs", cwd=wt)
    ok = step("apply", f"git apply {patch}", True)
    ok = ok and step("suite-with-change", "cargo test --workspace --no-fail-fast --offline 2>&1 | tail -40; exit ${PIPESTATUS[0]}", True)
    shutil.copy(demo, demo_dst)
    ok = step("demo-with-change", "cargo test -p etherparse --offline --test demo_seed 2>&1 | tail -30; exit ${PIPESTATUS[0]}", False) and ok
    sh("git checkout -- .", cwd=wt)
    ok = step("demo-on-clean-tree", "cargo test -p etherparse --offline --test demo_seed 2>&1 | tail -30; exit ${PIPESTATUS[0]}", True) and ok
    os.remove(demo_dst)
    out["confirmed"] = ok
    json.dump(out, open(os.path.join(seed, "confirm.json"), "w"), indent=1)
    print("CONFIRMED" if ok else "NOT CONFIRMED", seed)
    return 0 if ok else 1


def run(seed, checks):
    patch = os.path.join(seed, "patch.diff")
    rc, o, _ = sh("git status --porcelain", cwd=REPO)
    if o.strip():
        print("refusing: /repo working tree not clean:\n" + o)
        return 2
    res = {"seed": seed, "checks": {}}
    rc, o, _ = sh(f"git apply {patch}", cwd=REPO)
    if rc != 0:
        print("patch does not apply:", o)
        return 2
    try:
        for c in checks:
            rc, o, dt = sh(f"python3 tools/check.py {c} quick", cwd=VERIF, timeout=7200)
            viol = [l for l in o.splitlines() if l.startswith("VIOLATION")]
            replay = None
            m = re.search(r"replay=(\S+)", viol[0]) if viol else None
            detail = None
            if m and os.path.exists(os.path.join(VERIF, m.group(1))):
                try:
                    detail = open(os.path.join(VERIF, m.group(1))).read()[:3000]
                except Exception:
                    pass
            summ = [l for l in o.splitlines() if " corr-diffs=" in l and " oracle-fails=" in l]
            res["checks"][c] = {"rc": rc, "violation_lines": viol, "secs": round(dt, 1), "replay_head": detail,
                                "summary": summ[-1] if summ else "",
                                "tail": "\n".join(o.strip().splitlines()[-3:])}
            print(f"  {c}: rc={rc} {'DETECTED' if rc == 1 and viol else 'missed' if rc == 0 else 'ERROR'} ({dt:.0f}s)"
                  + (f"  {viol[0][:160]}" if viol else ""))
    finally:
        sh("git checkout -- .", cwd=REPO)
        # evidence/replay written while the patch was applied describe the patched tree: drop them
        sh("git checkout -- evidence 2>/dev/null", cwd=VERIF)
    json.dump(res, open(os.path.join(seed, "result.json"), "w"), indent=1)
    return 0


def store(seed, sid):
    dst = os.path.join(VERIF, "seeded", sid)
    os.makedirs(dst, exist_ok=True)
    for f in ("patch.diff", "demo.rs", "meta.json", "confirm.json", "result.json"):
        p = os.path.join(seed, f)
        if os.path.exists(p):
            shutil.copy(p, os.path.join(dst, f))
    print("stored", dst)
    return 0


if __name__ == "__main__":
    a = sys.argv[1:]
    if a[0] == "confirm":
        sys.exit(confirm(a[1], a[2]))
    if a[0] == "run":
        sys.exit(run(a[1], a[2:]))
    if a[0] == "store":
        sys.exit(store(a[1], a[2]))
    sys.exit(2)
