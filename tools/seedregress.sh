#!/bin/bash
# usage: tools/seedregress.sh [Cxx ...]   - re-runs every stored seed (of the given properties, default all) against its own
# property's quick check with the machinery as it is now; prints one line per seed; misses are listed at the end.
here="$(cd "$(dirname "$0")/.." && pwd)"
props="$@"
miss=""
for d in $(ls -d $here/seeded/C??_* | sort -V); do
  id=$(basename $d); p=${id%%_*}
  if [ -n "$props" ] && ! echo " $props " | grep -q " $p "; then continue; fi
  out=$(python3 $here/tools/seedeval.py run $d $p 2>&1 | tail -1)
  echo "$id $out" | cut -c1-120
  echo "$out" | grep -q DETECTED || miss="$miss $id"
done
echo "MISSED:$miss"
git -C /repo status --short | head -3
