#!/usr/bin/env python3
"""lists the stored seeds whose own check reported them through very few failing cases (detection that may depend on
the luck of one generated input): candidates for a more systematic generator"""
import glob, json, os, re
root = os.path.dirname(os.path.dirname(os.path.abspath(__file__)))
rows = []
for f in sorted(glob.glob(root + "/seeded/C*/result.json")):
    sid = os.path.basename(os.path.dirname(f))
    j = json.load(open(f))
    own = j.get("checks", {}).get(sid.split("_")[0])
    if not own:
        continue
    tail = own.get("summary") or own.get("tail", "")
    m = re.search(r"corr-diffs=(\d+) oracle-fails=(\d+)", tail)
    n = None
    mh = re.search(r'"count_same_oracle": (\d+)', own.get("replay_head", ""))
    if mh:
        n = int(mh.group(1))
    corr, orc = (int(m.group(1)), int(m.group(2))) if m else (None, None)
    nofail = "no-failing-input-found" in " ".join(own.get("violation_lines", []))
    rows.append((sid, own.get("rc"), corr, orc, n, nofail))
for r in rows:
    sid, rc, corr, orc, n, nofail = r
    weak = rc == 1 and ((corr or 0) + (orc or 0) <= 3)
    if rc != 1 or weak or nofail or (n is not None and n <= 3):
        print("%-8s rc=%s corr-diffs=%s oracle-fails=%s first-oracle-count=%s%s" % (sid, rc, corr, orc, n, " no-failing-input-found" if nofail else ""))
