"""C08, third part: the IPv6 extension chain struct `Ipv6Extensions` (one of the 25 serialisable types).  Its
operations, model and reference belong to C12 (`ext.write`, `ext.roundtrip`: write, then decode what was written
through `from_slice`, `read`, `read_limited` and `IpSlice::to_header`, all of which have to return the value);
C08 runs a sample of C12's value cases under C12's oracle, so that a change to one of the chain decoders or to the
writer is reported by the round-trip property itself."""
import random

from . import c12

ID = "C08"
RULE = (
    "Ipv6Extensions values from C12's generator (every presence set, next-header alphabet, chain orders): write, "
    "decode through from_slice / read / read_limited / IpSlice::to_header, compare with the value"
)
EXPLANATION = "theorems: Props/C12.lean (write_decode); correspondence: ext.* ops; oracle: C12's python reference walk"
ASSUMPTIONS = []


def generate(rng, tier):
    from ..core import Case
    # the Default values of the header types (values like any other) and conversions nothing else goes through
    yield Case(["impl.bf.defaults"], {"k": "defaults"})
    # the io::Read decoder of every header type next to the slice decoder, on well-formed headers in which one octet
    # after the other takes all 256 values (bits no serialiser produces): decoding accepted bytes has to give the same
    # value through both (C06's operations)
    from . import c06
    for c in c06.reader_byte_sweeps(random.Random(rng.randrange(1 << 30)), tier):
        yield Case(list(c.lines), {"k": "rsweep"})
    r2 = random.Random(rng.randrange(1 << 30))
    n = 0
    for c in c12.generate(r2, "quick"):
        if c.meta.get("k") != "main":
            continue
        n += 1
        # all chains with four or more headers (where the decoders differ most), a sample of the shorter ones
        k = c.meta.get("exts", "").count("=") if isinstance(c.meta.get("exts"), str) else 0
        if tier == "quick" and n % 5 and len(c.meta.get("exts", "")) < 60:
            continue
        yield c


def oracle(c):
    if c.meta.get("k") == "rsweep":
        from . import c06
        out = []
        c06.reader_sweep_oracle(c, out, "decoders-differ:")
        return out
    if c.meta.get("k") == "defaults":
        return [] if c.impl[0] == "ok" else [("default-value-does-not-round-trip", {"impl": (c.impl[0] or "")[:300]})]
    return c12.oracle(c)


def is_trivial(c):
    if c.meta.get("k") in ("defaults", "rsweep"):
        return False
    return c12.is_trivial(c) if hasattr(c12, "is_trivial") else False
