"""C02 - decoders are total: Ok or Err for every input, never a panic or a hang."""
from ..core import Case
from .. import decsupport as D
from ..gen import hx
from . import c01

ID = "C02"
RULE = (
    "the C01 input stream (structured, perturbed, noise, all truncations) through every decoding door; each call under "
    "catch_unwind with overflow checks on, Debug formatting of every result, iterators driven with a step bound; "
    "non-trivial = distinct input accepted by at least one door"
)
EXPLANATION = (
    "theorems: EpModel/Props/C02.lean (termination of every walker by a strictly decreasing measure - accepted by Lean without "
    "fuel; bounds on the number of items an iterator yields; the conversions that unwrap/expect cannot fail on validated "
    "slices); correspondence: all dec.* ops; oracle: no panic / abort / runaway iteration on the implementation"
)
ASSUMPTIONS = ["derive(Debug) bodies are exercised, not modelled", "allocation failure is out of scope"]


def generate(rng, tier):
    n = 9000 if tier == "quick" else 250000
    tb = 40 if tier == "quick" else 1000
    for start, et, data, meta in D.base_inputs(rng, n, tb):
        yield c01.build(meta)


is_trivial = c01.is_trivial
rebuild = c01.build


def oracle(c):
    out = []
    for line, o in zip(c.lines, c.impl):
        if o is None:
            out.append(("no-output", {"line": line[:200]}))
            continue
        if o == "panic" or "panic" in o:
            out.append(("panic", {"line": line[:300], "impl": o[:300]}))
        if "runaway" in o:
            out.append(("unbounded-iteration", {"line": line[:300], "impl": o[:300]}))
        if "fault(" in o and not o.startswith("ok("):
            out.append(("abort", {"line": line[:300], "impl": o[:300]}))
    return out
