"""C02 - decoders are total: Ok or Err for every input, never a panic or a hang."""
from ..core import Case
from .. import decsupport as D
from ..gen import hx
from . import c01
import random

ID = "C02"
RULE = (
    "the C01 input stream (structured, perturbed, noise, all truncations) through every decoding door; each call under "
    "catch_unwind with overflow checks on, Debug formatting of every result, iterators driven with a step bound; "
    "non-trivial = distinct input accepted by at least one door"
)
EXPLANATION = (
    "theorems: EpModel/Props/C02.lean (termination of every walker by a strictly decreasing measure - accepted by Lean without "
    "fuel; bounds on the number of items an iterator yields; the conversions that unwrap/expect cannot fail on validated "
    "slices); correspondence: all dec.* ops; oracle: no panic / abort / runaway iteration on the implementation"
)
ASSUMPTIONS = ["derive(Debug) bodies are exercised, not modelled", "allocation failure is out of scope"]


# the iterators and payload decoders outside the whole-packet doors: NDP options, TCP options, IGMPv3
# group records, ICMPv6 payload views.  Their operations (and generators) belong to C13 / C17; C02 runs
# a sample of them with its own oracle (no panic, no abort, no iteration beyond the step bound, and the
# iterator stays exhausted after an error - the harness calls next() twice more after the end).
_ITER_OPS = {"view.ndp_opts": 5, "view.ndp_opt": 1, "view.icmp6_payload": 6, "view.igmp": 4, "view.igmp_record": 2,
             "opt.iter": 9}


def _iterator_cases(rng, tier):
    from . import c13, c17
    seen = {}
    step = 1 if tier == "thorough" else None
    for mod in (c17, c13):
        r2 = random.Random(rng.randrange(1 << 30))
        for c in mod.generate(r2, "quick"):
            op = c.lines[0].split("\t", 1)[0]
            k = _ITER_OPS.get(op)
            if k is None:
                continue
            seen[op] = seen.get(op, 0) + 1
            if step is None and seen[op] % k:
                continue
            lines = [l for l in c.lines if not l.startswith(("spec.", "impl."))]
            yield Case(lines, {"iter": op, "d": c.lines[0].split("\t")[-1]})


def _reader_and_skip_cases(rng, tier):
    """the `io::Read` doors of every header type (C06's operations: `read`, the `*HeaderSlice` and deprecated
    `read_from_slice` twins, the length-limited readers) and the IPv6 extension skipping functions in their
    reader and slice variants (C16's operations, every first next-header value): entry points like the
    others, run here under the no-panic oracle"""
    from . import c06, c16

    n = 2500 if tier == "quick" else 60000
    for start, et, data, meta in D.base_inputs(random.Random(rng.randrange(1 << 30)), n, 10 if tier == "quick" else 300):
        m2 = dict(meta)
        m2["k3"] = "read"
        c = c06.build(m2)
        if c is not None:
            yield Case(c.lines, {"iter": "read", "d": hx(data)})
    for c in c06.reader_byte_sweeps(random.Random(rng.randrange(1 << 30)), tier):
        yield Case(c.lines, {"iter": "read-sweep", "d": "00000000"})
    for c in D.readlim_cases(random.Random(rng.randrange(1 << 30)), 600 if tier == "quick" else 20000):
        yield Case(c.lines, {"iter": "readlim", "d": c.lines[0].split("\t")[-1]})
    r2 = random.Random(rng.randrange(1 << 30))
    for i, c in enumerate(c16.gen_skip_cases(r2, "quick")):
        if tier == "quick" and c.meta.get("dlen", 0) > 24 and i % 3:
            continue
        # without failure injection in front of the end: the reader sees the whole data or its end
        lines = [l for l in c.lines if int(l.split("\t")[3]) >= len(l.split("\t")[2]) // 2]
        if lines:
            yield Case(lines, {"iter": "skip", "d": c.meta.get("full", "")})


def generate(rng, tier):
    n = 9000 if tier == "quick" else 250000
    tb = 40 if tier == "quick" else 1000
    for start, et, data, meta in D.base_inputs(rng, n, tb):
        yield c01.build(meta)
    yield from _iterator_cases(rng, tier)
    yield from _reader_and_skip_cases(rng, tier)
    # Debug / Display / name tables of the number types (ether types, ip numbers, ARP hardware ids, NDP option
    # types, layers) rendered for every value; the lists of IPv6 extension header numbers compared
    yield Case(["impl.bf.fmt_tables"], {"iter": "fmt", "d": "00000000"})


def is_trivial(c):
    if "iter" in c.meta:
        return len(c.meta.get("d", "")) < 4
    return c01.is_trivial(c)


def rebuild(meta):
    if "iter" in meta:
        return None
    return c01.build(meta)


def oracle(c):
    out = []
    for line, o in zip(c.lines, c.impl):
        if line.startswith("spec."):
            continue
        if o is None:
            out.append(("no-output", {"line": line[:200]}))
            continue
        if line == "impl.bf.fmt_tables" and o != "ok(rendered)":
            out.append(("rendering-of-number-types", {"impl": o[:300]}))
        if o == "panic" or "panic" in o:
            out.append(("panic", {"line": line[:300], "impl": o[:300]}))
        if "runaway" in o:
            out.append(("unbounded-iteration", {"line": line[:300], "impl": o[:300]}))
        if "fault(" in o and not o.startswith("ok("):
            out.append(("abort", {"line": line[:300], "impl": o[:300]}))
    return out


def search(rng, corr_failures, run_cases):
    import sys

    return D.search_decode(sys.modules[__name__], rng, corr_failures, run_cases)
