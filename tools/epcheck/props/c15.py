"""C15 - bit-field types hold only in-range values and never bleed into neighbours."""
from ..core import Case as _Case
from ..gen import hx, rbytes


def Case(lines, meta):
    """every case carries the total length of its op lines: the generic shrinker of core cuts hex-looking
    arguments (decimal numbers included) while the oracle works from the meta data, so a case whose lines no
    longer match its meta data is not judged (the cases are single operations and need no shrinking)."""
    meta["L"] = sum(len(l) for l in lines)
    return _Case(lines, meta)

ID = "C15"
RULE = (
    "bf.try_new/try_from: every value of the argument type for the 8 and 16 bit based types (all in-range values and everything "
    "above up to the type maximum), flow label dense sample (thorough: all 2^20 + u32 edges); per header and field: every value "
    "of the field (dense sample for fields wider than 13 bits) encoded against all-zero / all-one / random neighbours, plus the "
    "values just above the range through the checked constructors; decoders on field sweeps, on every value of every header byte "
    "and on random / truncated bytes; non-trivial = distinct op lines whose input is not the empty byte string"
)
EXPLANATION = (
    "theorems: constructors accept exactly v < 2^bits, decoded fields are in range, encoders follow the RFC layout table so that a "
    "field change touches only that field's bits, reserved bits are 0, decode(encode h) = h (EpModel/Props/C15.lean); "
    "correspondence: the nine newtypes and six headers vs EpModel.Model.BitFields; oracle: python reference bit extraction / "
    "assembly from RFC layout tables written in python, byte diff 'only the bits of the field changed', Lean Spec layout table "
    "(spec.bf.insert) applied to the reference encoding"
)
ASSUMPTIONS = [
    "values reach the headers only through the checked constructors (new_unchecked / from_u8_unchecked with an out-of-range value is a violated unsafe precondition and outside the property)",
    "MembershipQueryWithSourcesHeader::set_flags takes a raw u8 and keeps its low 4 bits (documented masking, not a bounded type)",
]

# ------------------------------------------------------------------------------------------------
# layout tables, written from the format diagrams (name, byte offset, bit offset from the msb, width)

VLAN = [("pcp", 0, 0, 3), ("dei", 0, 3, 1), ("vid", 0, 4, 12), ("ether_type", 2, 0, 16)]
IPV4 = [
    ("version", 0, 0, 4), ("ihl", 0, 4, 4), ("dscp", 1, 0, 6), ("ecn", 1, 6, 2), ("total_len", 2, 0, 16),
    ("identification", 4, 0, 16), ("reserved", 6, 0, 1), ("df", 6, 1, 1), ("mf", 6, 2, 1), ("frag_off", 6, 3, 13),
    ("ttl", 8, 0, 8), ("protocol", 9, 0, 8), ("checksum", 10, 0, 16), ("src", 12, 0, 32), ("dst", 16, 0, 32),
]
IPV6 = [
    ("version", 0, 0, 4), ("traffic_class", 0, 4, 8), ("flow_label", 1, 4, 20), ("payload_len", 4, 0, 16),
    ("next_header", 6, 0, 8), ("hop_limit", 7, 0, 8), ("src", 8, 0, 128), ("dst", 24, 0, 128),
]
TC = [("dscp", 0, 0, 6), ("ecn", 0, 6, 2)]
FRAG = [("next_header", 0, 0, 8), ("reserved", 1, 0, 8), ("frag_off", 2, 0, 13), ("res", 3, 5, 2), ("m", 3, 7, 1), ("identification", 4, 0, 32)]
IGMP = [
    ("type", 0, 0, 8), ("max_resp_code", 1, 0, 8), ("checksum", 2, 0, 16), ("group", 4, 0, 32), ("flags", 8, 0, 4),
    ("s", 8, 4, 1), ("qrv", 8, 5, 3), ("qqic", 9, 0, 8), ("num_sources", 10, 0, 16),
]
IGMP8 = [("flags", 0, 0, 4), ("s", 0, 4, 1), ("qrv", 0, 5, 3)]


def macsec_table(sc, unmod):
    t = [("v", 0, 0, 1), ("es", 0, 1, 1), ("sc", 0, 2, 1), ("scb", 0, 3, 1), ("e", 0, 4, 1), ("c", 0, 5, 1), ("an", 0, 6, 2),
         ("sl_reserved", 1, 0, 2), ("short_len", 1, 2, 6), ("pn", 2, 0, 32)]
    if sc:
        t.append(("sci", 6, 0, 64))
    if unmod:
        t.append(("ether_type", 14 if sc else 6, 0, 16))
    return t


def t_extract(b, f):
    n = int.from_bytes(b, "big")
    total = len(b) * 8
    first = f[1] * 8 + f[2]
    return (n >> (total - first - f[3])) & ((1 << f[3]) - 1)


def t_mask(nbytes, f):
    total = nbytes * 8
    first = f[1] * 8 + f[2]
    return ((1 << f[3]) - 1) << (total - first - f[3])


def t_fields(b, table):
    return {f[0]: t_extract(b, f) for f in table}


def t_assemble(nbytes, table, vals):
    n = 0
    for f in table:
        v = vals[f[0]]
        assert 0 <= v < (1 << f[3]), (f, v)
        n |= v << (nbytes * 8 - (f[1] * 8 + f[2]) - f[3])
    return n.to_bytes(nbytes, "big")


def field_of(table, name):
    for f in table:
        if f[0] == name:
            return f
    return None


def lenerr(req, n, layer):
    return "err(len(req=%d,len=%d,src=Slice,layer=%s,off=0))" % (req, n, layer)


def toobig(v, mx, vt):
    return "err(actual=%d,max=%d,vt=%s)" % (v, mx, vt)


# ------------------------------------------------------------------------------------------------
# bounded types: name -> (bits, width of the Rust argument type, ValueType name)

TYPES = {
    "vlan_id": (12, 16, "VlanId"),
    "vlan_pcp": (3, 8, "VlanPcp"),
    "dscp": (6, 8, "IpDscp"),
    "ecn": (2, 8, "IpEcn"),
    "frag_off": (13, 16, "IpFragmentOffset"),
    "flow_label": (20, 32, "Ipv6FlowLabel"),
    "macsec_an": (2, 8, "MacsecAn"),
    "macsec_sl": (6, 8, "MacsecShortLen"),
    "qrv": (3, 8, "IgmpQrv"),
}
ECN_NAMES = ["NotEct", "Ect1", "Ect0", "CongestionExperienced"]


def expect_bounded(t, v):
    bits, _, vt = TYPES[t]
    if v < (1 << bits):
        return "ok(%d,%s)" % (v, ECN_NAMES[v]) if t == "ecn" else "ok(%d)" % v
    return toobig(v, (1 << bits) - 1, vt)


# ------------------------------------------------------------------------------------------------
# the headers: reference encoders / decoders in python (values are dicts of plain ints / bytes)


class Vlan:
    name = "vlan"
    checked = [("pcp", "vlan_pcp"), ("vid", "vlan_id")]
    argw = {"pcp": 8, "dei": 1, "vid": 16, "ether_type": 16}

    @staticmethod
    def table(v):
        return "vlan", VLAN

    @staticmethod
    def enc_line(v):
        return "bf.vlan_enc\t%d\t%d\t%d\t%d" % (v["pcp"], v["dei"], v["vid"], v["ether_type"])

    @staticmethod
    def ref(v):
        return t_assemble(4, VLAN, v)

    @staticmethod
    def expect_ok(v):
        return "ok(%s)" % hx(Vlan.ref(v))

    @staticmethod
    def zeros():
        return {"pcp": 0, "dei": 0, "vid": 0, "ether_type": 0}

    @staticmethod
    def ones():
        return {"pcp": 7, "dei": 1, "vid": 4095, "ether_type": 0xFFFF}

    @staticmethod
    def rand(rng):
        return {"pcp": rng.randrange(8), "dei": rng.randrange(2), "vid": rng.randrange(4096), "ether_type": rng.randrange(65536)}

    @staticmethod
    def dec_expect(b):
        if len(b) < 4:
            return lenerr(4, len(b), "VlanHeader")
        f = t_fields(b[:4], VLAN)
        return "ok(pcp=%d,dei=%d,vid=%d,et=%d,rest=(4,%d))" % (f["pcp"], f["dei"], f["vid"], f["ether_type"], len(b) - 4)


class Ip4:
    name = "ipv4"
    checked = [("dscp", "dscp"), ("ecn", "ecn"), ("frag_off", "frag_off")]
    argw = {"dscp": 8, "ecn": 8, "total_len": 16, "identification": 16, "df": 1, "mf": 1, "frag_off": 16, "ttl": 8, "protocol": 8,
            "checksum": 16, "src": 32, "dst": 32}

    @staticmethod
    def table(v):
        return "ipv4", IPV4

    @staticmethod
    def enc_line(v):
        return "bf.ip4_enc\t%d\t%d\t%d\t%d\t%d\t%d\t%d\t%d\t%d\t%d\t%08x\t%08x\t%s" % (
            v["dscp"], v["ecn"], v["total_len"], v["identification"], v["df"], v["mf"], v["frag_off"], v["ttl"], v["protocol"],
            v["checksum"], v["src"], v["dst"], hx(bytes.fromhex(v["options"])))

    @staticmethod
    def ref(v):
        opts = bytes.fromhex(v["options"])
        vals = dict(v)
        vals.update({"version": 4, "ihl": 5 + len(opts) // 4, "reserved": 0})
        return t_assemble(20, IPV4, vals) + opts

    @staticmethod
    def expect_ok(v):
        r = Ip4.ref(v)
        return "ok(bytes=%s,raw=%s,ihl=%d,len=%d)" % (hx(r), hx(r), len(r) // 4, len(r))

    @staticmethod
    def zeros():
        return {"dscp": 0, "ecn": 0, "total_len": 0, "identification": 0, "df": 0, "mf": 0, "frag_off": 0, "ttl": 0, "protocol": 0,
                "checksum": 0, "src": 0, "dst": 0, "options": ""}

    @staticmethod
    def ones():
        return {"dscp": 63, "ecn": 3, "total_len": 0xFFFF, "identification": 0xFFFF, "df": 1, "mf": 1, "frag_off": 8191, "ttl": 255,
                "protocol": 255, "checksum": 0xFFFF, "src": 2**32 - 1, "dst": 2**32 - 1, "options": "ff" * 40}

    @staticmethod
    def rand(rng):
        return {"dscp": rng.randrange(64), "ecn": rng.randrange(4), "total_len": rng.randrange(65536), "identification": rng.randrange(65536),
                "df": rng.randrange(2), "mf": rng.randrange(2), "frag_off": rng.randrange(8192), "ttl": rng.randrange(256),
                "protocol": rng.randrange(256), "checksum": rng.randrange(65536), "src": rng.randrange(2**32), "dst": rng.randrange(2**32),
                "options": rbytes(rng, 4 * rng.randrange(11)).hex()}

    @staticmethod
    def _fields(b, ihl):
        f = t_fields(b[:20], IPV4)
        return "dscp=%d,ecn=%d,total_len=%d,id=%d,df=%d,mf=%d,fo=%d,ttl=%d,proto=%d,cks=%d,src=%s,dst=%s,opts=%s,ihl=%d" % (
            f["dscp"], f["ecn"], f["total_len"], f["identification"], f["df"], f["mf"], f["frag_off"], f["ttl"], f["protocol"],
            f["checksum"], hx(b[12:16]), hx(b[16:20]), hx(b[20:ihl * 4]), ihl)

    @staticmethod
    def dec_expect(b):
        n = len(b)
        if n < 20:
            return lenerr(20, n, "Ipv4Header")
        ver, ihl = b[0] >> 4, b[0] & 15
        if ver != 4:
            return "err(ip4.UnexpectedVersion(%d))" % ver
        if ihl < 5:
            return "err(ip4.HeaderLengthSmallerThanHeader(%d))" % ihl
        if n < ihl * 4:
            return lenerr(ihl * 4, n, "Ipv4Header")
        return "ok(%s,rest=(%d,%d))" % (Ip4._fields(b, ihl), ihl * 4, n - ihl * 4)

    @staticmethod
    def read_expect(b):
        n = len(b)
        if n < 1:
            return "err(io)"
        ver, ihl = b[0] >> 4, b[0] & 15
        if ver != 4:
            return "err(ip4.UnexpectedVersion(%d))" % ver
        if n < 20:
            return "err(io)"
        if ihl < 5:
            return "err(ip4.HeaderLengthSmallerThanHeader(%d))" % ihl
        if n < ihl * 4:
            return "err(io)"
        return "ok(%s)" % Ip4._fields(b, ihl)


class Ip6:
    name = "ipv6"
    checked = [("flow_label", "flow_label")]
    argw = {"traffic_class": 8, "flow_label": 32, "payload_len": 16, "next_header": 8, "hop_limit": 8, "src": 128, "dst": 128}

    @staticmethod
    def table(v):
        return "ipv6", IPV6

    @staticmethod
    def enc_line(v):
        return "bf.ip6_enc\t%d\t%d\t%d\t%d\t%d\t%032x\t%032x" % (
            v["traffic_class"], v["flow_label"], v["payload_len"], v["next_header"], v["hop_limit"], v["src"], v["dst"])

    @staticmethod
    def ref(v):
        vals = dict(v)
        vals["version"] = 6
        return t_assemble(40, IPV6, vals)

    @staticmethod
    def expect_ok(v):
        return "ok(%s)" % hx(Ip6.ref(v))

    @staticmethod
    def zeros():
        return {"traffic_class": 0, "flow_label": 0, "payload_len": 0, "next_header": 0, "hop_limit": 0, "src": 0, "dst": 0}

    @staticmethod
    def ones():
        return {"traffic_class": 255, "flow_label": 2**20 - 1, "payload_len": 0xFFFF, "next_header": 255, "hop_limit": 255,
                "src": 2**128 - 1, "dst": 2**128 - 1}

    @staticmethod
    def rand(rng):
        return {"traffic_class": rng.randrange(256), "flow_label": rng.randrange(2**20), "payload_len": rng.randrange(65536),
                "next_header": rng.randrange(256), "hop_limit": rng.randrange(256), "src": rng.randrange(2**128), "dst": rng.randrange(2**128)}

    @staticmethod
    def _fields(b):
        f = t_fields(b[:40], IPV6)
        tc = f["traffic_class"]
        d = t_fields(bytes([tc]), TC)
        return "tc=%d,dscp=%d,ecn=%d,fl=%d,plen=%d,nh=%d,hop=%d,src=%s,dst=%s" % (
            tc, d["dscp"], d["ecn"], f["flow_label"], f["payload_len"], f["next_header"], f["hop_limit"], hx(b[8:24]), hx(b[24:40]))

    @staticmethod
    def dec_expect(b):
        n = len(b)
        if n < 40:
            return lenerr(40, n, "Ipv6Header")
        if b[0] >> 4 != 6:
            return "err(ip6.UnexpectedVersion(%d))" % (b[0] >> 4)
        return "ok(%s,rest=(40,%d))" % (Ip6._fields(b), n - 40)

    @staticmethod
    def read_expect(b):
        n = len(b)
        if n < 1:
            return "err(io)"
        if b[0] >> 4 != 6:
            return "err(ip6.UnexpectedVersion(%d))" % (b[0] >> 4)
        if n < 40:
            return "err(io)"
        return "ok(%s)" % Ip6._fields(b)


class Frag:
    name = "frag"
    checked = [("frag_off", "frag_off")]
    argw = {"next_header": 8, "frag_off": 16, "m": 1, "identification": 32}

    @staticmethod
    def table(v):
        return "frag", FRAG

    @staticmethod
    def enc_line(v):
        return "bf.frag_enc\t%d\t%d\t%d\t%d" % (v["next_header"], v["frag_off"], v["m"], v["identification"])

    @staticmethod
    def ref(v):
        vals = dict(v)
        vals.update({"reserved": 0, "res": 0})
        return t_assemble(8, FRAG, vals)

    @staticmethod
    def expect_ok(v):
        return "ok(%s)" % hx(Frag.ref(v))

    @staticmethod
    def zeros():
        return {"next_header": 0, "frag_off": 0, "m": 0, "identification": 0}

    @staticmethod
    def ones():
        return {"next_header": 255, "frag_off": 8191, "m": 1, "identification": 2**32 - 1}

    @staticmethod
    def rand(rng):
        return {"next_header": rng.randrange(256), "frag_off": rng.randrange(8192), "m": rng.randrange(2), "identification": rng.randrange(2**32)}

    @staticmethod
    def dec_expect(b):
        n = len(b)
        if n < 8:
            return lenerr(8, n, "Ipv6FragHeader")
        f = t_fields(b[:8], FRAG)
        return "ok(nh=%d,fo=%d,mf=%d,id=%d,rest=(8,%d))" % (f["next_header"], f["frag_off"], f["m"], f["identification"], n - 8)


PTYPES = {"unmod": (0, 0), "mod": (0, 1), "enc": (1, 1), "encunmod": (1, 0)}  # (e, c)


class Macsec:
    name = "macsec"
    checked = [("an", "macsec_an"), ("short_len", "macsec_sl")]
    argw = {"ether_type": 16, "es": 1, "scb": 1, "an": 8, "short_len": 8, "pn": 32, "sci": 64}

    @staticmethod
    def table(v):
        sc, un = v["sci"] is not None, v["ptype"] == "unmod"
        return "macsec%d%d" % (sc, un), macsec_table(sc, un)

    @staticmethod
    def enc_line(v):
        return "bf.macsec_enc\t%s\t%d\t%d\t%d\t%d\t%d\t%d\t%s" % (
            v["ptype"], v["ether_type"], v["es"], v["scb"], v["an"], v["short_len"], v["pn"], "-" if v["sci"] is None else "%d" % v["sci"])

    @staticmethod
    def ref(v):
        _, t = Macsec.table(v)
        e, c = PTYPES[v["ptype"]]
        vals = dict(v)
        vals.update({"v": 0, "sc": int(v["sci"] is not None), "e": e, "c": c, "sl_reserved": 0})
        n = 6 + (8 if v["sci"] is not None else 0) + (2 if v["ptype"] == "unmod" else 0)
        return t_assemble(n, t, vals)

    @staticmethod
    def expect_ok(v):
        r = Macsec.ref(v)
        return "ok(%s,hlen=%d)" % (hx(r), len(r))

    @staticmethod
    def zeros():
        return {"ptype": "unmod", "ether_type": 0, "es": 0, "scb": 0, "an": 0, "short_len": 0, "pn": 0, "sci": None}

    @staticmethod
    def ones():
        return {"ptype": "unmod", "ether_type": 0xFFFF, "es": 1, "scb": 1, "an": 3, "short_len": 63, "pn": 2**32 - 1, "sci": 2**64 - 1}

    @staticmethod
    def rand(rng):
        return {"ptype": rng.choice(sorted(PTYPES)), "ether_type": rng.randrange(65536), "es": rng.randrange(2), "scb": rng.randrange(2),
                "an": rng.randrange(4), "short_len": rng.randrange(64), "pn": rng.randrange(2**32),
                "sci": rng.choice([None, rng.randrange(2**64)])}

    @staticmethod
    def dec_expect(b):
        n = len(b)
        if n < 6:
            return lenerr(6, n, "MacsecHeader")
        t0 = t_fields(b[:6], macsec_table(False, False))
        if t0["v"]:
            return "err(macsec.UnexpectedVersion)"
        unmod = t0["e"] == 0 and t0["c"] == 0
        if unmod and t0["short_len"] == 1:
            return "err(macsec.InvalidUnmodifiedShortLen)"
        req = 6 + (2 if unmod else 0) + (8 if t0["sc"] else 0)
        if n < req:
            return lenerr(req, n, "MacsecHeader")
        f = t_fields(b[:req], macsec_table(bool(t0["sc"]), unmod))
        if unmod:
            pt = "unmod(%d)" % f["ether_type"]
        else:
            pt = {(0, 1): "mod", (1, 1): "enc", (1, 0): "encunmod"}[(f["e"], f["c"])]
        return "ok(ptype=%s,es=%d,scb=%d,an=%d,sl=%d,pn=%d,sci=%s,hlen=%d)" % (
            pt, f["es"], f["scb"], f["an"], f["short_len"], f["pn"], "some(%d)" % f["sci"] if t0["sc"] else "none", req)


class Igmp:
    name = "igmp"

    @staticmethod
    def enc_line(v):
        return "bf.igmp_enc\t%d\t%d\t%08x\t%d\t%d\t%d" % (v["max_resp_code"], v["checksum"], v["group"], v["raw8"], v["qqic"], v["num_sources"])

    @staticmethod
    def ref(v):
        vals = dict(v)
        vals["type"] = 0x11
        vals.update(t_fields(bytes([v["raw8"]]), IGMP8))
        return t_assemble(12, IGMP, vals)

    @staticmethod
    def rand(rng):
        return {"max_resp_code": rng.randrange(256), "checksum": rng.randrange(65536), "group": rng.randrange(2**32), "raw8": rng.randrange(256),
                "qqic": rng.randrange(256), "num_sources": rng.randrange(65536)}

    @staticmethod
    def dec_expect(b):
        n = len(b)
        if n < 8:
            return lenerr(8, n, "Igmp")
        if b[0] != 0x11:
            return "ok(other)"
        if n == 8:
            return "ok(other)"
        if n < 12:
            return lenerr(12, n, "Igmp")
        f = t_fields(b[:12], IGMP)
        return "ok(query(mrc=%d,cks=%d,group=%s,raw=%d,flags=%d,s=%d,qrv=%d,qqic=%d,nsrc=%d,rest=(12,%d)))" % (
            f["max_resp_code"], f["checksum"], hx(b[4:8]), b[8], f["flags"], f["s"], f["qrv"], f["qqic"], f["num_sources"], n - 12)


HDRS = {h.name: h for h in (Vlan, Ip4, Ip6, Frag, Macsec)}
DECS = {
    "bf.vlan_dec": Vlan.dec_expect, "bf.ip4_dec": Ip4.dec_expect, "bf.ip4_read": Ip4.read_expect, "bf.ip6_dec": Ip6.dec_expect,
    "bf.ip6_read": Ip6.read_expect, "bf.frag_dec": Frag.dec_expect, "bf.macsec_dec": Macsec.dec_expect, "bf.igmp_dec": Igmp.dec_expect,
}


def expect_enc(h, v):
    """expected output of the encoder op for values v: the error of the first checked constructor that
    rejects, else ok(reference encoding)."""
    for fname, tname in h.checked:
        bits, _, vt = TYPES[tname]
        if v[fname] >= (1 << bits):
            return toobig(v[fname], (1 << bits) - 1, vt)
    return h.expect_ok(v)


# ------------------------------------------------------------------------------------------------
# generation


def sweep(rng, bits, tier, dense_limit=13):
    """values of a `bits` wide field: all of them up to 13 bits (thorough: 20), else edges + sample."""
    if bits <= dense_limit:
        return list(range(1 << bits))
    m = (1 << bits) - 1
    vals = {0, 1, 2, m, m - 1, m >> 1, (m >> 1) + 1}
    for k in range(bits):
        vals.update({1 << k, (1 << k) - 1, m ^ (1 << k)})
    nrand = 200 if tier == "quick" else 3000
    for _ in range(nrand):
        vals.add(rng.randrange(m + 1))
    return sorted(vals)


def above(rng, bits, argw, tier):
    """out-of-range attempts: everything above the range for 8 bit arguments, the first ones, powers of two and a sample else."""
    lo = 1 << bits
    hi = (1 << argw) - 1
    if argw <= 8:
        return list(range(lo, hi + 1))
    vals = set(range(lo, lo + 40)) | {hi, hi - 1}
    for k in range(bits, argw):
        vals.update({1 << k, (1 << k) + 1, (1 << (k + 1)) - 1})
    for _ in range(60 if tier == "quick" else 1000):
        vals.add(rng.randrange(lo, hi + 1))
    return sorted(v for v in vals if lo <= v <= hi)


def iso_cases(rng, tier, h, field, values, bases, with_spec=True):
    for bi, base in enumerate(bases):
        tname, table = h.table(base)
        f = field_of(table, field)
        for v in values:
            ch = dict(base)
            ch[field] = v
            lines = [h.enc_line(base), h.enc_line(ch)]
            if with_spec and f is not None and v < (1 << f[3]):
                lines.append("spec.bf.insert\t%s\t%s\t%s\t%d" % (tname, field, hx(h.ref(base)), v))
            yield Case(lines, {"k": "iso", "hdr": h.name, "field": field, "base": base, "v": v})


def generate(rng, tier):
    thorough = tier == "thorough"
    # ---- A. checked constructors
    for t, (bits, argw, _) in sorted(TYPES.items()):
        if argw <= 16:
            vals = range(1 << argw)
        elif thorough:
            edges = {2**32 - 1, 2**32 - 2, 2**31, 2**31 - 1, 2**24, 2**21, 2**20 + 1}
            vals = list(range((1 << 20) + 4096)) + sorted(edges) + [rng.randrange(2**20, 2**32) for _ in range(20000)]
        else:
            vs = set(range(4096)) | set(range((1 << 20) - 4096, (1 << 20) + 4096)) | {2**32 - 1, 2**32 - 2, 2**31, 2**31 - 1, 2**24, 2**21}
            for k in range(33):
                vs.update({(1 << k) - 1, (1 << k) % 2**32, ((1 << k) + 1) % 2**32})
            for _ in range(3000):
                vs.add(rng.randrange(2**20))
                vs.add(rng.randrange(2**20, 2**32))
            vals = sorted(vs)
        for v in vals:
            yield Case(["bf.try_new\t%s\t%d" % (t, v), "bf.try_from\t%s\t%d" % (t, v)], {"k": "new", "t": t, "v": v})
    # the one setter that computes a bounded value from a length (`MacsecHeader::set_payload_len`, shared with
    # C14): the short length it stores has to be a 6 bit value - the announced length, or 0 when that does not fit
    from . import c14
    for ptype in c14.MACSEC_PTYPES:
        for sci in (False, True):
            hdr = c14.macsec_hdr(rng, ptype, sci)
            for n in list(range(0, 70)) + [126, 127, 128, 129, 191, 192, 254, 255, 256, 257, 319, 320, 65535, 65536]:
                yield Case(["set.macsec.set_payload_len\t%s\t%d" % (hx(hdr), n)], {"k": "macsec_spl", "hdr": hx(hdr), "n": n})
    # the two decoders of every header that packs bit fields (slice and io::Read): each octet of a well-formed header
    # swept over all 256 values - both have to read the same fields out of the same bits (C06's operations)
    from . import c06
    import random as _random
    for c in c06.reader_byte_sweeps(_random.Random(rng.randrange(1 << 30)), tier):
        if c.meta.get("sweep") in ("vlan", "macsec", "ipv4", "ipv6", "frag", "iph", "tcp"):
            yield Case(list(c.lines), {"k": "rsweep"})
    # the public constants of the bounded types (ZERO / MAX / value tables / RFC code points): each has to be
    # the in-range value its name says
    yield Case(["impl.bf.consts"], {"k": "consts"})
    for n in list(range(0, 300)) + [2**8, 2**8 + 63, 2**16, 2**16 + 1, 2**32, 2**32 + 5, 2**63, 2**64 - 1, 2**64 - 193]:
        yield Case(["bf.sl_from_len\t%d" % n], {"k": "from_len", "n": n})
    for v in range(1 << 16) if thorough else list(range(8192 + 64)) + [2**14, 2**15, 65535, 65528]:
        yield Case(["bf.fo_byte_offset\t%d" % v], {"k": "byte_offset", "v": v})

    # ---- B. encoders: every field swept against fixed neighbours
    for h in (Vlan, Ip4, Ip6, Frag, Macsec):
        nrand = 2 if not thorough else 6
        bases = [h.zeros(), h.ones()] + [h.rand(rng) for _ in range(nrand)]
        if h is Macsec:
            # every arrangement (SCI present or not, ether type present or not) as zero / one neighbours
            for pt in sorted(PTYPES):
                for sci in (None, 0, 2**64 - 1):
                    for proto in (h.zeros(), h.ones()):
                        b = dict(proto)
                        b["ptype"] = pt
                        b["sci"] = sci
                        if b not in bases:
                            bases.append(b)
        checked = dict(h.checked)
        for field, argw in sorted(h.argw.items()):
            table = h.table(h.ones())[1]
            f = field_of(table, field)
            bits = f[3]
            dense = 13
            if thorough and bits <= 20:
                dense = 20
            vals = sweep(rng, bits, tier, dense)
            bs = bases
            if h is Macsec and field == "sci":
                bs = [b for b in bases if b["sci"] is not None]
            if h is Macsec and field == "ether_type":
                bs = [b for b in bases if b["ptype"] == "unmod"]
            if len(vals) > 20000:
                # the 2^20 sweep (thorough): zero and one neighbours only, no spec line
                for c in iso_cases(rng, tier, h, field, vals, bs[:2], with_spec=False):
                    yield c
            else:
                for c in iso_cases(rng, tier, h, field, vals, bs):
                    yield c
            if field in checked and argw > bits:
                for c in iso_cases(rng, tier, h, field, above(rng, bits, argw, tier), bs[:4]):
                    yield c
        # the IPv4 option area against every neighbour
        if h is Ip4:
            for base in bases:
                for n in range(0, 44, 4):
                    for style in ("zero", "ff", None):
                        ch = dict(base)
                        ch["options"] = rbytes(rng, n, style).hex()
                        yield Case([h.enc_line(base), h.enc_line(ch)], {"k": "iso", "hdr": h.name, "field": "options", "base": base, "v": 0, "ch": ch})
        if h is Macsec:
            for base in bases:
                for pt in sorted(PTYPES):
                    for sci in (None, 0, 1, 2**64 - 1, rng.randrange(2**64)):
                        ch = dict(base)
                        ch["ptype"] = pt
                        ch["sci"] = sci
                        yield Case([h.enc_line(ch)], {"k": "enc", "hdr": h.name, "vals": ch})
    # IGMPv3 query: to_bytes and the setters on raw_byte_8
    for raw in range(256):
        for _ in range(2 if not thorough else 8):
            v = Igmp.rand(rng)
            v["raw8"] = raw
            yield Case([Igmp.enc_line(v)], {"k": "igmp_enc", "vals": v})
        qv = range(256) if thorough else list(range(16)) + [31, 63, 64, 127, 128, 248, 255]
        fv = range(256) if thorough else list(range(34)) + [63, 64, 127, 128, 240, 255]
        for v in qv:
            yield Case(["bf.igmp_set\t%d\tqrv\t%d" % (raw, v)], {"k": "igmp_set", "raw": raw, "which": "qrv", "v": v})
        for v in fv:
            yield Case(["bf.igmp_set\t%d\tflags\t%d" % (raw, v)], {"k": "igmp_set", "raw": raw, "which": "flags", "v": v})
        for v in (0, 1):
            yield Case(["bf.igmp_set\t%d\ts\t%d" % (raw, v)], {"k": "igmp_set", "raw": raw, "which": "s", "v": v})
        # Ipv6Header::set_dscp / set_ecn on every traffic class value
        dv = range(256) if thorough else list(range(70)) + [127, 128, 192, 255]
        ev = range(256) if thorough else list(range(8)) + [127, 128, 252, 255]
        for v in dv:
            yield Case(["bf.ip6_tc\t%d\tdscp\t%d" % (raw, v)], {"k": "tc_set", "tc": raw, "which": "dscp", "v": v})
        for v in ev:
            yield Case(["bf.ip6_tc\t%d\tecn\t%d" % (raw, v)], {"k": "tc_set", "tc": raw, "which": "ecn", "v": v})

    # ---- C. decoders
    def dec(op, b):
        return Case(["%s\t%s" % (op, hx(b))], {"k": "dec", "op": op, "hex": hx(b)})

    specs = [("bf.vlan_dec", Vlan, 4, ["bf.vlan_from_bytes"]), ("bf.ip4_dec", Ip4, 20, ["bf.ip4_read"]), ("bf.ip6_dec", Ip6, 40, ["bf.ip6_read"]),
             ("bf.frag_dec", Frag, 8, []), ("bf.macsec_dec", Macsec, 16, []), ("bf.igmp_dec", Igmp, 12, [])]
    for op, h, hlen, extra in specs:
        ops = [op] + [e for e in extra if e != "bf.vlan_from_bytes"]
        # every value of every header byte against zero / one / random other bytes
        nbyte = min(hlen, 12 if h is Ip6 else hlen)
        backgrounds = [bytes(hlen), bytes([0xFF]) * hlen, rbytes(rng, hlen, None)]
        if h is Ip4:
            backgrounds = [b"\x45" + bytes(19), b"\x4f" + bytes([0xFF]) * 59, b"\x46" + rbytes(rng, 23, None)]
        if h is Ip6:
            backgrounds = [b"\x60" + bytes(39), b"\x6f" + bytes([0xFF]) * 39, b"\x60" + rbytes(rng, 39, None)]
        if h is Igmp:
            backgrounds = [b"\x11" + bytes(11), b"\x11" + bytes([0xFF]) * 11, b"\x11" + rbytes(rng, 15, None)]
        for bg in backgrounds:
            for i in range(nbyte):
                for x in range(256):
                    b = bytearray(bg)
                    b[i] = x
                    for o in ops:
                        yield dec(o, bytes(b))
                    if h is Vlan:
                        yield Case(["bf.vlan_from_bytes\t%s" % hx(bytes(b))], {"k": "vlan_from_bytes", "hex": hx(bytes(b))})
        # reference encodings of random field values, complete and cut at every length, with trailing bytes
        for _ in range(60 if not thorough else 600):
            v = h.rand(rng)
            r = h.ref(v)
            full = r + rbytes(rng, rng.randrange(0, 6))
            for o in ops:
                yield dec(o, full)
            for cut in range(len(r)):
                for o in ops:
                    yield dec(o, r[:cut])
        # noise
        for _ in range(1500 if not thorough else 20000):
            n = rng.choice([rng.randrange(0, hlen + 4), rng.randrange(0, 70), hlen, hlen + 1])
            b = bytearray(rbytes(rng, n))
            if n and rng.random() < 0.6:
                if h is Ip4:
                    b[0] = 0x40 | rng.choice([5, 5, 6, 15, rng.randrange(16)])
                if h is Ip6:
                    b[0] = 0x60 | (b[0] & 15)
                if h is Igmp:
                    b[0] = 0x11
                if h is Macsec:
                    b[0] &= 0x7F
            for o in ops:
                yield dec(o, bytes(b))


def is_trivial(c):
    return c.meta.get("k") == "dec" and c.meta.get("hex") == "-"


# ------------------------------------------------------------------------------------------------
# oracle

# widths: IEEE 802.1Q (PCP 3, VID 12), RFC 2474 (DSCP 6), RFC 3168 (ECN 2: Not-ECT 00, ECT(1) 01, ECT(0) 10, CE 11),
# RFC 791 (fragment offset 13), RFC 8200 (flow label 20), IEEE 802.1AE (AN 2, SL 6), RFC 3376 (QRV 3);
# DSCP code points: RFC 2474 (CSn = 8n), RFC 2597 (AFxy = 8x + 2y), RFC 3246 (EF 46), RFC 5865 (VOICE-ADMIT 44),
# RFC 8622 (LE 1)
CONSTS = {
    "Qrv::ZERO": 0, "Qrv::MAX": 7, "Qrv::MAX_U8": 7,
    "VlanPcp::ZERO": 0, "VlanPcp::MAX_U8": 7, "VlanId::ZERO": 0, "VlanId::MAX_U16": 4095,
    "IpDscp::ZERO": 0, "IpDscp::MAX": 63, "IpDscp::MAX_U8": 63, "IpDscp::EF": 46, "IpDscp::VOICE_ADMIT": 44, "IpDscp::LOWER_EFFORT": 1,
    "IpEcn::ZERO": 0, "IpEcn::ONE": 1, "IpEcn::TWO": 2, "IpEcn::THREE": 3, "IpEcn::MAX_U8": 3,
    "IpEcn::NotEct": 0, "IpEcn::Ect1": 1, "IpEcn::Ect0": 2, "IpEcn::CongestionExperienced": 3,
    "IpFragOffset::ZERO": 0, "IpFragOffset::MAX_U16": 8191, "Ipv6FlowLabel::ZERO": 0, "Ipv6FlowLabel::MAX_U32": (1 << 20) - 1,
    "MacsecAn::ZERO": 0, "MacsecAn::MAX_U8": 3, "MacsecShortLen::ZERO": 0, "MacsecShortLen::MAX_U8": 63,
}
CONSTS.update({"Qrv::VALUES[%d]" % i: i for i in range(8)})
CONSTS.update({"IpDscp::CS%d" % i: 8 * i for i in range(8)})
CONSTS.update({"IpDscp::AF%d%d" % (x, y): 8 * x + 2 * y for x in (1, 2, 3, 4) for y in (1, 2, 3)})


def _okhex(s):
    """bytes inside ok(<hex>...) or None."""
    if not s or not s.startswith("ok("):
        return None
    body = s[3:-1]
    if body.startswith("bytes="):
        body = body[6:]
    body = body.split(",", 1)[0]
    return b"" if body == "-" else bytes.fromhex(body)


def oracle(c):
    out = []
    k = c.meta.get("k")
    if sum(len(l) for l in c.lines) != c.meta.get("L"):
        return out
    try:
        if k == "new":
            want = expect_bounded(c.meta["t"], c.meta["v"])
            for i in (0, 1):
                if c.impl[i] != want:
                    out.append(("range-accept", {"line": c.lines[i], "got": c.impl[i], "want": want}))
                    break
        elif k == "rsweep":
            from . import c06
            for line, o in zip(c.lines, c.impl):
                if o and o.startswith("slice=") and "|read=" in o:
                    s_, r_ = o[6:].split("|read=", 1)
                    arg = line.split("\t")[-1]
                    data = bytes.fromhex(arg) if arg != "-" else b""
                    if line.startswith("impl.dec.read_iph") and len(data) >= 6 and data[0] >> 4 == 6 and data[4] == 0 and data[5] == 0:
                        continue
                    tmp = []
                    c06.check_reader(line.split("\t", 1)[0], s_, r_, tmp)
                    for n, d in tmp:
                        out.append(("decoders-read-different-fields:" + n, dict(d, line=line[:200])))
        elif k == "macsec_spl":
            o = c.impl[0] or ""
            hdr = bytes.fromhex(c.meta["hdr"])
            n = c.meta["n"] + (2 if (hdr[0] & 0x0C) == 0 else 0)
            want = n if n <= 63 else 0
            import re as _re
            m = _re.search(r"hdr=([0-9a-f]+);sl=(\d+);", o)
            if not m or int(m.group(2)) != want or int(m.group(2)) > 63 or bytes.fromhex(m.group(1))[1] != want:
                out.append(("value-out-of-range" if m and int(m.group(2)) > 63 else "range-accept", {"line": c.lines[0], "got": o[:200], "want_short_len": want}))
        elif k == "consts":
            got = dict(x.split("=", 1) for x in (c.impl[0] or "").split(",") if "=" in x)
            for name, want in sorted(CONSTS.items()):
                if got.get(name) != str(want):
                    out.append(("constant-out-of-range-or-misnamed", {"constant": name, "got": got.get(name), "want": want}))
                    break
        elif k == "from_len":
            n = c.meta["n"]
            want = str(n if n <= 63 else 0)
            if c.impl[0] != want:
                out.append(("range-accept", {"line": c.lines[0], "got": c.impl[0], "want": want}))
        elif k == "byte_offset":
            v = c.meta["v"]
            want = str(v * 8) if v < 8192 else toobig(v, 8191, "IpFragmentOffset")
            if c.impl[0] != want:
                out.append(("range-accept", {"line": c.lines[0], "got": c.impl[0], "want": want}))
        elif k == "iso":
            h = HDRS[c.meta["hdr"]]
            base = c.meta["base"]
            field = c.meta["field"]
            ch = c.meta.get("ch")
            if ch is None:
                ch = dict(base)
                ch[field] = c.meta["v"]
            want0, want1 = expect_enc(h, base), expect_enc(h, ch)
            if c.impl[0] != want0 or c.impl[1] != want1:
                out.append(("ref-encode", {"lines": c.lines[:2], "got": c.impl[:2], "want": [want0, want1]}))
            b0, b1 = _okhex(c.impl[0]), _okhex(c.impl[1])
            if want1.startswith("ok(") and b0 is not None and b1 is not None and field != "options":
                _, table = h.table(ch)
                f = field_of(table, field)
                if len(b0) != len(b1):
                    out.append(("byte-diff", {"why": "length changed", "got": c.impl[:2]}))
                else:
                    diff = int.from_bytes(b0, "big") ^ int.from_bytes(b1, "big")
                    if diff & ~t_mask(len(b1), f):
                        out.append(("byte-diff", {"why": "bits outside the field changed", "field": field, "got": c.impl[:2]}))
                    elif t_extract(b1, f) != c.meta["v"]:
                        out.append(("byte-diff", {"why": "field does not hold the value", "field": field, "got": c.impl[:2]}))
            if want1.startswith("ok(") and field == "options" and b0 is not None and b1 is not None:
                # only the IHL nibble and the option area may differ
                if b0[1:20] != b1[1:20] or (b0[0] ^ b1[0]) & 0xF0 or b1[20:] != bytes.fromhex(ch["options"]):
                    out.append(("byte-diff", {"why": "option change touched the fixed part", "got": c.impl[:2]}))
            if len(c.lines) > 2:
                if c.model[2] is None or c.model[2] == "bad-op":
                    out.append(("spec-insert", {"why": "no Spec result", "line": c.lines[2]}))
                elif b1 is None or hx(b1) != c.model[2]:
                    out.append(("spec-insert", {"line": c.lines[2], "impl": c.impl[1], "spec": c.model[2]}))
        elif k == "enc":
            h = HDRS[c.meta["hdr"]]
            want = expect_enc(h, c.meta["vals"])
            if c.impl[0] != want:
                out.append(("ref-encode", {"line": c.lines[0], "got": c.impl[0], "want": want}))
        elif k == "igmp_enc":
            want = hx(Igmp.ref(c.meta["vals"]))
            if c.impl[0] != want:
                out.append(("ref-encode", {"line": c.lines[0], "got": c.impl[0], "want": want}))
        elif k in ("igmp_set", "tc_set"):
            if k == "igmp_set":
                raw, table, which, v = c.meta["raw"], IGMP8, c.meta["which"], c.meta["v"]
                limit = {"qrv": ("qrv", None), "flags": (None, 16), "s": (None, 2)}[which]
            else:
                raw, table, which, v = c.meta["tc"], TC, c.meta["which"], c.meta["v"]
                limit = (which, None)
            if limit[0] is not None and v >= (1 << TYPES[limit[0]][0]):
                want = toobig(v, (1 << TYPES[limit[0]][0]) - 1, TYPES[limit[0]][2])
            else:
                if limit[1] is not None:
                    v %= limit[1]  # set_flags keeps the low four bits of its u8 argument
                vals = t_fields(bytes([raw]), table)
                vals[which] = v
                new = t_assemble(1, table, vals)[0]
                if k == "igmp_set":
                    want = "ok(raw=%d,flags=%d,s=%d,qrv=%d)" % (new, vals["flags"], vals["s"], vals["qrv"])
                else:
                    want = "ok(tc=%d,dscp=%d,ecn=%d)" % (new, vals["dscp"], vals["ecn"])
            if c.impl[0] != want:
                out.append(("byte-diff", {"line": c.lines[0], "got": c.impl[0], "want": want}))
        elif k == "dec":
            b = bytes.fromhex(c.meta["hex"]) if c.meta["hex"] != "-" else b""
            want = DECS[c.meta["op"]](b)
            if c.impl[0] != want:
                out.append(("ref-decode", {"line": c.lines[0], "got": c.impl[0], "want": want}))
        elif k == "vlan_from_bytes":
            b = bytes.fromhex(c.meta["hex"])
            f = t_fields(b, VLAN)
            want = "pcp=%d,dei=%d,vid=%d,et=%d" % (f["pcp"], f["dei"], f["vid"], f["ether_type"])
            if c.impl[0] != want:
                out.append(("ref-decode", {"line": c.lines[0], "got": c.impl[0], "want": want}))
    except (ValueError, IndexError, TypeError, AttributeError, KeyError, AssertionError) as e:
        out.append(("malformed-impl-output", {"impl": c.impl, "exc": repr(e)}))
    return out
