"""C13 - TCP options encode and decode faithfully; iteration is bounded."""
import itertools
import re

from ..core import Case, Failure
from ..gen import hx

ID = "C13"
RULE = (
    "opt.* operations. (a) element lists of all six kinds (0-3 extra SACK blocks, all hole patterns, edge values) with total "
    "size 0..48 around the 40 byte limit: try_from_elements, TcpHeader::set_options + the three option iterators, iteration of the "
    "reference encoding; (b) raw option areas: every byte string of length <= 4 (thorough: <= 5, and 6 over a smaller alphabet) over the "
    "alphabet of interesting kind/length bytes {0,1,2,3,4,5,8,9,10,18,26,34,40,255}; (c) random areas of 0..40 (some up to 60) bytes built from "
    "valid options with perturbed length/kind bytes, END + tail, truncation, and noise: TcpOptionsIterator, re-encoding of the yielded "
    "elements, try_from_slice / set_options_raw. non-trivial = distinct case whose input is not empty and does not start with END"
)
EXPLANATION = (
    "theorems: encode/iterate inverse, NotEnoughSpace(required), length rule, tiling of every byte string, truthful errors, exhaustion, "
    "step bound (EpModel/Props/C13.lean); correspondence: tcp_options.rs + tcp_options_iterator.rs vs EpModel.Model.TcpOptions; "
    "oracle: python reference of the RFC 9293 / 7323 / 2018 option formats (tiling, truthful error fields, reference encoding) and the "
    "re-encoding round trip on the implementation"
)
ASSUMPTIONS = [
    "TcpHeader/TcpHeaderSlice/TcpSlice are only used as doors to the same option area (their codec is property C08)",
]

# ------------------------------------------------------------------------------------------------
# reference: option formats of RFC 9293 3.1 (END, NOP, MSS), RFC 7323 (WS, TS), RFC 2018 (SACK-permitted, SACK)

FIXED_LEN = {2: 4, 3: 3, 4: 2, 8: 10}
SACK_LENS = (10, 18, 26, 34)
KNOWN = (0, 1, 2, 3, 4, 5, 8)


def be(n, k):
    return int(n).to_bytes(k, "big")


def norm(e):
    if e[0] == "sack":
        present = [s for s in e[2] if s is not None]
        return ("sack", e[1], tuple(present + [None] * (3 - len(present))))
    return e


def ref_wire(e):
    k = e[0]
    if k == "nop":
        return bytes([1])
    if k == "mss":
        return bytes([2, 4]) + be(e[1], 2)
    if k == "ws":
        return bytes([3, 3, e[1]])
    if k == "sackp":
        return bytes([4, 2])
    if k == "ts":
        return bytes([8, 10]) + be(e[1], 4) + be(e[2], 4)
    if k == "sack":
        blocks = [e[1]] + [s for s in e[2] if s is not None]
        return bytes([5, 2 + 8 * len(blocks)]) + b"".join(be(a, 4) + be(b, 4) for a, b in blocks)
    raise ValueError(k)


def ref_encode(es):
    """-> bytes (padded with END to a multiple of four) or ('space', required)"""
    w = b"".join(ref_wire(e) for e in es)
    if len(w) > 40:
        return ("space", len(w))
    return w + bytes((-len(w)) % 4)


def ref_parse_at(b, off):
    """what stands at offset off (off < len(b)):
    ('end',) | ('ok', elem, n) | ('short', kind, needed) | ('badlen', kind, lenbyte) | ('unknown', kind)"""
    k = b[off]
    avail = len(b) - off
    if k == 0:
        return ("end",)
    if k == 1:
        return ("ok", ("nop",), 1)
    if k not in KNOWN:
        return ("unknown", k)
    if k in FIXED_LEN:
        n = FIXED_LEN[k]
        if avail >= 2 and b[off + 1] != n:
            # the length byte is there and wrong; if the option is also cut short both faults are real
            if avail < n:
                return ("short-or-badlen", k, n, b[off + 1])
            return ("badlen", k, b[off + 1])
        if avail < n:
            return ("short", k, n)
        v = b[off + 2 : off + n]
        if k == 2:
            e = ("mss", int.from_bytes(v, "big"))
        elif k == 3:
            e = ("ws", v[0])
        elif k == 4:
            e = ("sackp",)
        else:
            e = ("ts", int.from_bytes(v[:4], "big"), int.from_bytes(v[4:], "big"))
        return ("ok", e, n)
    # SACK
    if avail < 2:
        return ("short", k, 2)
    n = b[off + 1]
    if n not in SACK_LENS:
        return ("badlen", k, n)
    if avail < n:
        return ("short", k, n)
    blocks = []
    for i in range(off + 2, off + n, 8):
        blocks.append((int.from_bytes(b[i : i + 4], "big"), int.from_bytes(b[i + 4 : i + 8], "big")))
    rest = blocks[1:] + [None] * (4 - len(blocks))
    return ("ok", ("sack", blocks[0], tuple(rest)), n)


# ------------------------------------------------------------------------------------------------
# text forms


def slot_text(s):
    return "_" if s is None else "%d-%d" % s


def elem_text(e):
    k = e[0]
    if k in ("nop", "sackp"):
        return k
    if k in ("mss", "ws"):
        return "%s:%d" % (k, e[1])
    if k == "ts":
        return "ts:%d:%d" % (e[1], e[2])
    return "sack:%s;%s" % (slot_text(e[1]), ";".join(slot_text(s) for s in e[2]))


def elems_text(es):
    return ",".join(elem_text(e) for e in es) if es else "-"


def parse_pair(s):
    a, b = s.split("-")
    return (int(a), int(b))


def parse_elem(s):
    if s in ("nop", "sackp"):
        return (s,)
    f = s.split(":")
    if f[0] in ("mss", "ws"):
        return (f[0], int(f[1]))
    if f[0] == "ts":
        return ("ts", int(f[1]), int(f[2]))
    if f[0] == "sack":
        p = f[1].split(";")
        if len(p) != 4:
            raise ValueError(s)
        return ("sack", parse_pair(p[0]), tuple(None if x == "_" else parse_pair(x) for x in p[1:]))
    raise ValueError(s)


def split_top(s, sep=","):
    out, depth, cur = [], 0, []
    for ch in s:
        if ch in "([":
            depth += 1
        elif ch in ")]":
            depth -= 1
        if ch == sep and depth == 0:
            out.append("".join(cur))
            cur = []
        else:
            cur.append(ch)
    out.append("".join(cur))
    return out


def fields(s):
    """'a=1,b=(x,y),c' -> dict (bare words map to True)"""
    d = {}
    for part in split_top(s):
        if "=" in part and not part.startswith("("):
            k, v = part.split("=", 1)
            d[k] = v
        else:
            d[part] = True
    return d


WIN = re.compile(r"^\((\d+),(\d+)\)$")


def parse_win(s):
    m = WIN.match(s)
    if not m:
        raise ValueError("window %r" % s)
    return (int(m.group(1)), int(m.group(2)))


ERR = re.compile(r"^err\((eos|size|unknown)\((.*)\)\)$")


def parse_drive(s):
    """'items=[..],stop=(o,l),after=[none,none]' -> (items, stop, after); item = (kind, value, window)"""
    d = fields(s)
    if "runaway" in d or "items" not in d or "stop" not in d or "after" not in d:
        raise ValueError("drive %r" % s)
    inner = d["items"]
    if not (inner.startswith("[") and inner.endswith("]")):
        raise ValueError(s)
    items = []
    for it in split_top(inner[1:-1]) if inner != "[]" else []:
        txt, w = it.rsplit("@", 1)
        m = ERR.match(txt)
        if m:
            ef = dict((k, int(v)) for k, v in (x.split("=") for x in m.group(2).split(",")))
            items.append(("err", (m.group(1), ef), parse_win(w)))
        else:
            items.append(("ok", parse_elem(txt), parse_win(w)))
    return items, parse_win(d["stop"]), d["after"]


ENC = re.compile(r"^ok\(([0-9a-f]+|-),len=(\d+),doff=(\d+)\)$")
SPACE = re.compile(r"^err\(space=(\d+)\)$")


def parse_enc(s):
    m = ENC.match(s)
    if m:
        h = m.group(1)
        return ("ok", bytes.fromhex(h) if h != "-" else b"", int(m.group(2)), int(m.group(3)))
    m = SPACE.match(s)
    if m:
        return ("space", int(m.group(1)))
    raise ValueError("encode result %r" % s)


def unhex(h):
    return b"" if h == "-" else bytes.fromhex(h)


# ------------------------------------------------------------------------------------------------
# oracles


def check_drive(b, s, out, tag):
    """tiling / truthful errors / exhaustion / bound of one iterator run over the bytes b.
    returns the list of yielded elements and the number of tiled bytes."""
    items, stop, after = parse_drive(s)
    n = len(b)
    off = 0
    oks = []
    err_seen = False
    for idx, (kind, val, w) in enumerate(items):
        if err_seen:
            out.append(("exhaustion", {"where": tag, "why": "item after an error", "impl": s}))
            break
        if off >= n:
            out.append(("tiling", {"where": tag, "why": "item yielded at the end of the area", "impl": s}))
            break
        ref = ref_parse_at(b, off)
        if kind == "ok":
            if ref[0] != "ok" or ref[1] != val:
                out.append(("tiling", {"where": tag, "offset": off, "yielded": elem_text(val), "reference": repr(ref), "impl": s}))
                break
            wire = ref_wire(val)
            if val != norm(val) or b[off : off + len(wire)] != wire or len(wire) != ref[2]:
                out.append(("tiling", {"where": tag, "offset": off, "why": "wire form of the yielded element is not what stands in the area", "impl": s}))
                break
            off += len(wire)
            oks.append(val)
            if w != (off, n - off):
                out.append(("tiling", {"where": tag, "offset": off, "why": "rest() after the element is not the remaining area", "window": list(w), "impl": s}))
                break
        else:
            err_seen = True
            ek, ef = val
            avail = n - off
            good = False
            if ek == "unknown":
                good = ref[0] == "unknown" and ef == {"id": b[off]}
            elif ek == "size":
                good = ref[0] in ("badlen", "short-or-badlen") and avail >= 2 and ef == {"id": b[off], "size": b[off + 1]}
            elif ek == "eos":
                if ref[0] == "short":
                    good = ef == {"id": b[off], "exp": ref[2], "act": avail} and avail < ref[2]
                elif ref[0] == "short-or-badlen":
                    good = ef == {"id": b[off], "exp": ref[2], "act": avail} and avail < ref[2]
            if not good:
                out.append(("error-fields", {"where": tag, "offset": off, "error": [ek, ef], "reference": repr(ref), "remaining": avail, "impl": s}))
            if w != (n, 0):
                out.append(("exhaustion", {"where": tag, "why": "rest() after an error is not empty at the end", "impl": s}))
    else:
        if not err_seen and off < n and b[off] != 0:
            out.append(("tiling", {"where": tag, "offset": off, "why": "iteration stopped although no END / end of area", "impl": s}))
    if stop != (n, 0):
        out.append(("exhaustion", {"where": tag, "why": "state after None is not the empty slice at the end", "impl": s}))
    if after != "[none,none]":
        out.append(("exhaustion", {"where": tag, "why": "iterator yields again after None", "impl": s}))
    if len(items) > n:
        out.append(("bound", {"where": tag, "items": len(items), "len": n}))
    return oks, off


def check_header(res, want_opts, out, tag):
    """ok(opts=..,doff=..,hlen=..,wire=..,it=(..),sl=(opts=..,..),ts=(opts=..,..)) against the expected option area."""
    if not (res.startswith("ok(") and res.endswith(")")):
        out.append(("header-door", {"where": tag, "impl": res, "want": hx(want_opts)}))
        return None
    d = fields(res[3:-1])
    n = len(want_opts)
    ok = d.get("opts") == hx(want_opts) and d.get("wire") == hx(want_opts) and d.get("doff") == str(5 + n // 4) and d.get("hlen") == str(20 + n)
    if not ok:
        out.append(("header-door", {"where": tag, "impl": res, "want": hx(want_opts)}))
        return None
    first = None
    for key in ("it", "sl", "ts"):
        v = d.get(key, "")
        if not (isinstance(v, str) and v.startswith("(") and v.endswith(")")):
            out.append(("header-door", {"where": tag, "impl": res, "why": key}))
            return None
        v = v[1:-1]
        if key != "it":
            pre = "opts=%s," % hx(want_opts)
            if not v.startswith(pre):
                out.append(("header-door", {"where": tag, "why": "%s sees another option area" % key, "impl": res}))
                return None
            v = v[len(pre) :]
        if first is None:
            first = v
        elif v != first:
            out.append(("header-door", {"where": tag, "why": "%s iterates differently" % key, "impl": res}))
            return None
    return first


def _builder_option_cases(rng, tier):
    """the PacketBuilder's options()/options_raw() steps (element lists incl. the empty one and lists that do not
    fit, raw areas), on C10's configurations and judged by C10's reference builder; the harness precedes every
    configured options call by another one, which must leave no trace"""
    import random as _random
    from . import c10

    r2 = _random.Random(rng.randrange(1 << 30))
    n = 0
    for c in c10.generate(r2, "quick"):
        cfg = c.meta.get("cfg_text", "")
        tcph = "tcph:" in cfg  # a pre-built TcpHeader (with its options) handed to `tcp_header()`
        if ("/tcp:" not in cfg and not tcph) or (cfg.endswith("|-") and not tcph) or c.meta.get("payload", "").startswith("len:"):
            continue
        n += 1
        # the empty raw area / the empty element list (an options call that has to CLEAR what an earlier call
        # set) are always taken, whatever the sample size
        empty = cfg.endswith("|raw=-") or cfg.endswith("|el=-")
        if tier == "quick" and n > 400 and not empty:
            continue
        c.meta["k"] = "builder"
        yield c


def oracle(c):
    out = []
    k = c.meta.get("k")
    if k == "builder":
        from . import c10

        return c10.oracle(c)
    try:
        for o in c.impl:
            if o is None or o == "panic" or o == "bad-op" or o.startswith("fault(") or "!" in o or "runaway" in o:
                out.append(("no-panic-no-runaway", {"impl": c.impl}))
                return out
        if k == "elems":
            # inputs are taken from the op lines (the generic shrinker edits lines, not meta);
            # a case whose lines do not belong together is not a case
            t = c.lines[0].split("\t")[1]
            es = [] if t == "-" else [parse_elem(x) for x in t.split(",")]
            ref = ref_encode(es)
            want_lines = elems_case(es).lines
            if c.lines != want_lines:
                return []
            enc = parse_enc(c.impl[0])
            if isinstance(ref, tuple):
                if enc != ("space", ref[1]):
                    out.append(("too-big", {"required": ref[1], "impl": c.impl[0]}))
                if c.impl[1] != "err(space=%d)" % ref[1]:
                    out.append(("too-big", {"required": ref[1], "impl": c.impl[1], "door": "set_options"}))
            else:
                if enc[0] != "ok" or enc[1] != ref or enc[2] != len(ref) or enc[3] != 5 + len(ref) // 4:
                    out.append(("reference-encoding", {"want": hx(ref), "impl": c.impl[0]}))
                elif len(ref) % 4 or len(ref) > 40:
                    out.append(("encode-len", {"impl": c.impl[0]}))
                drv = check_header(c.impl[1], ref, out, "set_options")
                want = [norm(e) for e in es]
                if drv is not None:
                    oks, off = check_drive(ref, drv, out, "set_options")
                    items, _, _ = parse_drive(drv)
                    if oks != want or len(items) != len(want):
                        out.append(("encode-iter", {"elements": elems_text(es), "yielded": drv}))
                # iteration of the reference encoding
                oks, off = check_drive(ref, c.impl[2], out, "iter(reference encoding)")
                items, _, _ = parse_drive(c.impl[2])
                if oks != want or len(items) != len(want):
                    out.append(("encode-iter", {"elements": elems_text(es), "yielded": c.impl[2]}))
        elif k == "raw":
            h = c.lines[0].split("\t")[1]
            if any(l.split("\t")[1] != h for l in c.lines):
                return []
            b = unhex(h)
            oks, tiled = check_drive(b, c.impl[0], out, "iter")
            # re-encoding what was yielded reproduces the tiled prefix (+ END padding)
            m = re.match(r"^n=(\d+),(.*)$", c.impl[1])
            enc = parse_enc(m.group(2))
            if int(m.group(1)) != len(oks):
                out.append(("re-encode", {"why": "number of elements", "impl": c.impl[1]}))
            elif tiled > 40:
                if enc != ("space", tiled):
                    out.append(("re-encode", {"why": "tiled prefix longer than 40", "tiled": tiled, "impl": c.impl[1]}))
            else:
                want = b[:tiled] + bytes((-tiled) % 4)
                if enc[0] != "ok" or enc[1] != want or enc[2] != len(want):
                    out.append(("re-encode", {"want": hx(want), "impl": c.impl[1]}))
            # try_from_slice / set_options_raw
            if len(c.impl) > 2:
                enc = parse_enc(c.impl[2])
                if len(b) > 40:
                    if enc != ("space", len(b)) or c.impl[3] != "err(space=%d)" % len(b):
                        out.append(("too-big", {"required": len(b), "impl": c.impl[2:4], "door": "try_from_slice"}))
                else:
                    want = b + bytes((-len(b)) % 4)
                    if enc[0] != "ok" or enc[1] != want or enc[2] != len(want) or enc[3] != 5 + len(want) // 4:
                        out.append(("raw-padding", {"want": hx(want), "impl": c.impl[2]}))
                    drv = check_header(c.impl[3], want, out, "set_options_raw")
                    if drv is not None:
                        check_drive(want, drv, out, "set_options_raw")
    except (ValueError, IndexError, TypeError, AttributeError, KeyError) as e:
        out.append(("malformed-impl-output", {"impl": c.impl, "exc": repr(e)}))
    return out


_T = "EpModel.Props.C13."
_HINT = {
    "tiling": ["iter_tiles", "step_spec"],
    "error-fields": ["iter_tiles", "step_spec"],
    "exhaustion": ["iter_exhausted", "iter_tiles"],
    "bound": ["iter_bound"],
    "no-panic-no-runaway": ["iter_bound", "iter_exhausted", "encode_total"],
    "too-big": ["too_big", "raw_too_big"],
    "reference-encoding": ["encode_len", "encode_iter"],
    "encode-len": ["encode_len"],
    "encode-iter": ["encode_iter"],
    "re-encode": ["iter_tiles", "encode_len"],
    "raw-padding": ["raw_pad"],
    "header-door": ["encode_iter", "raw_pad"],
}


def THEOREM_HINT(name):
    return [_T + x for x in _HINT.get(name, ["iter_tiles", "encode_iter"])]


def extra_coverage(cases):
    """what the generated areas actually reached: outcome of the iterator per error kind and option kind,
    number of elements yielded before the stop, encoder outcomes per size"""
    stops = {}
    depth = {}
    enc = {"ok": 0, "space": 0}
    sizes = set()
    for c in cases:
        o = c.impl[0]
        if o is None:
            continue
        if c.meta.get("k") == "raw":
            m = re.search(r"err\((eos|size|unknown)\(id=(\d+)", o)
            if m:
                key = "%s(kind=%s)" % (m.group(1), m.group(2) if m.group(1) != "unknown" else "*")
            else:
                key = "end-or-exhausted"
            stops[key] = stops.get(key, 0) + 1
            n = o.count("@") - (1 if m else 0)
            depth[n] = depth.get(n, 0) + 1
        else:
            if o.startswith("ok("):
                enc["ok"] += 1
                mm = re.search(r"len=(\d+)", o)
                if mm:
                    sizes.add(int(mm.group(1)))
            elif o.startswith("err(space="):
                enc["space"] += 1
                sizes.add(int(o[10:-1]))
    return {
        "iterator_stop_reasons": dict(sorted(stops.items())),
        "elements_before_stop_histogram": {str(k): v for k, v in sorted(depth.items())},
        "encoder_outcomes": enc,
        "encoder_sizes_seen": sorted(sizes),
    }


def is_trivial(c):
    d = c.lines[0].split("\t")[1]
    return d == "-" or (c.meta.get("k") == "raw" and d.startswith("00"))


# ------------------------------------------------------------------------------------------------
# generators

U32_EDGE = [0, 1, 255, 256, 65535, 65536, 0x7FFFFFFF, 0x80000000, 0xFFFFFFFE, 0xFFFFFFFF, 0x01020304, 0x00000500, 0x08000000]
U16_EDGE = [0, 1, 255, 256, 536, 1400, 1460, 0x7FFF, 0x8000, 0xFFFE, 0xFFFF, 0x0101, 0x0500]
U8_EDGE = [0, 1, 2, 5, 7, 8, 14, 15, 127, 128, 254, 255]
ALPHABET = [0, 1, 2, 3, 4, 5, 8, 9, 10, 18, 26, 34, 40, 255]
ALPHABET_SMALL = [0, 1, 2, 4, 5, 8, 10, 255]


def r32(rng):
    return rng.choice(U32_EDGE) if rng.random() < 0.4 else rng.randrange(2**32)


def rpair(rng):
    return (r32(rng), r32(rng))


def relem(rng, kind=None, maxsize=None):
    kind = kind or rng.choice(["nop", "mss", "ws", "sackp", "sack", "ts", "sack"])
    if kind == "nop":
        return ("nop",)
    if kind == "mss":
        return ("mss", rng.choice(U16_EDGE) if rng.random() < 0.4 else rng.randrange(65536))
    if kind == "ws":
        return ("ws", rng.choice(U8_EDGE) if rng.random() < 0.4 else rng.randrange(256))
    if kind == "sackp":
        return ("sackp",)
    if kind == "ts":
        return ("ts", r32(rng), r32(rng))
    slots = tuple(rpair(rng) if rng.random() < 0.5 else None for _ in range(3))
    return ("sack", rpair(rng), slots)


def elems_of_size(rng, target):
    """random element list whose reference size is exactly target"""
    es = []
    size = 0
    tries = 0
    while size < target and tries < 200:
        tries += 1
        e = relem(rng)
        n = len(ref_wire(e))
        if size + n <= target:
            es.append(e)
            size += n
    while size < target:
        es.append(("nop",))
        size += 1
    rng.shuffle(es)
    return es


def elems_case(es):
    ref = ref_encode(es)
    t = elems_text(es)
    lines = ["opt.encode\t" + t, "opt.hdr_elems\t" + t]
    if not isinstance(ref, tuple):
        lines.append("opt.iter\t" + hx(ref))
    return Case(lines, {"k": "elems"})


def raw_case(b, doors=True):
    h = hx(b)
    lines = ["opt.iter\t" + h, "opt.reenc\t" + h]
    if doors:
        lines += ["opt.raw\t" + h, "opt.hdr_raw\t" + h]
    return Case(lines, {"k": "raw"})


def perturbed_area(rng):
    """a raw area built from valid options, then damaged"""
    n_target = rng.randrange(0, 41)
    parts = []
    total = 0
    while total < n_target:
        e = relem(rng)
        w = ref_wire(e)
        if total + len(w) > n_target and rng.random() < 0.7:
            if rng.random() < 0.5:
                break
            e = ("nop",)
            w = ref_wire(e)
        parts.append(bytearray(w))
        total += len(w)
    style = rng.random()
    if parts and style < 0.55:
        # perturb the length (or kind) byte of one or two options
        for _ in range(rng.choice([1, 1, 2])):
            p = rng.choice(parts)
            if len(p) >= 2 and rng.random() < 0.8:
                d = rng.choice([-9, -8, -2, -1, 1, 2, 8, 9, "zero", "max", "sack", "one"])
                if d == "zero":
                    p[1] = 0
                elif d == "max":
                    p[1] = 255
                elif d == "one":
                    p[1] = 1
                elif d == "sack":
                    p[1] = rng.choice(SACK_LENS + (2, 3, 4, 42))
                else:
                    p[1] = (p[1] + d) % 256
            else:
                p[0] = rng.choice([0, 1, 2, 3, 4, 5, 6, 7, 8, 9, 30, 254, 255, rng.randrange(256)])
    b = b"".join(bytes(p) for p in parts)
    if 0.55 <= style < 0.7:
        # END followed by a tail that must not be looked at
        cut = rng.randrange(0, len(parts) + 1)
        b = b"".join(bytes(p) for p in parts[:cut]) + b"\0" + b"".join(bytes(p) for p in parts[cut:])
    if rng.random() < 0.5 and b:
        b = b[: rng.randrange(0, len(b) + 1)]
    if rng.random() < 0.15:
        b = b + bytes(rng.randrange(256) for _ in range(rng.randrange(1, 6)))
    if style >= 0.95:
        b = bytes(rng.choice(ALPHABET + [rng.randrange(256)]) for _ in range(rng.randrange(0, 41)))
    limit = 60 if rng.random() < 0.05 else 40
    return b[:limit]


def generate(rng, tier):
    yield from _generate(rng, tier)
    yield from _builder_option_cases(rng, tier)


def _generate(rng, tier):
    quick = tier == "quick"
    # ---- (a) element lists --------------------------------------------------------------------
    yield elems_case([])
    for kind in ("nop", "mss", "ws", "sackp", "ts"):
        for _ in range(12):
            yield elems_case([relem(rng, kind)])
    # every hole pattern of the SACK blocks, alone and followed by another element
    for pat in itertools.product([False, True], repeat=3):
        for _ in range(6):
            e = ("sack", rpair(rng), tuple(rpair(rng) if p else None for p in pat))
            yield elems_case([e])
            yield elems_case([("nop",), e, relem(rng, rng.choice(["mss", "ws", "nop", "sackp"]))])
    # n-fold repetitions of every kind across the limit
    for kind, n in (("nop", 48), ("mss", 12), ("ws", 15), ("sackp", 22), ("ts", 5), ("sack", 5)):
        for i in range(1, n + 1):
            yield elems_case([relem(rng, kind) for _ in range(i)])
    # more than 40 ELEMENTS (not only more than 40 bytes): mostly Noop with a few larger ones, so that the number of
    # elements and the number of bytes they need differ
    for n in list(range(38, 64)) + [80, 120]:
        for _ in range(3 if quick else 20):
            es = [("nop",)] * n + [relem(rng, rng.choice(["mss", "ws", "sackp", "ts", "sack"])) for _ in range(rng.choice([1, 1, 2, 3]))]
            rng.shuffle(es)
            yield elems_case(es)
    per_size = 40 if quick else 600
    for target in range(0, 49):
        for _ in range(per_size):
            yield elems_case(elems_of_size(rng, target))
    for _ in range(200 if quick else 5000):
        yield elems_case(elems_of_size(rng, rng.randrange(41, 120)))
    # ---- (b) exhaustive small raw areas -------------------------------------------------------
    maxlen = 4 if quick else 5
    for n in range(0, maxlen + 1):
        for t in itertools.product(ALPHABET, repeat=n):
            yield raw_case(bytes(t), doors=(n <= 3 or not quick or t[0] != 0))
    if not quick:
        for t in itertools.product(ALPHABET_SMALL, repeat=6):
            if t[0] != 0:
                yield raw_case(bytes(t), doors=False)
    # every truncation and every single length-byte value of a full-size valid area
    base = [("mss", 1460), ("nop",), ("ws", 7), ("sackp",), ("ts", 0x01020304, 0xFFFFFFFF), ("sack", (1, 2), ((3, 4), None, None)), ("nop",), ("nop",)]
    bb = b"".join(ref_wire(e) for e in base)
    assert len(bb) == 40
    for cut in range(0, 41):
        yield raw_case(bb[:cut])
    offs = []
    o = 0
    for e in base:
        offs.append(o)
        o += len(ref_wire(e))
    for o in offs:
        if bb[o] != 1:
            for v in range(256) if not quick else list(range(0, 44)) + [127, 128, 254, 255]:
                x = bytearray(bb)
                x[o + 1] = v
                yield raw_case(bytes(x))
    # a SACK option of every valid length at every truncation, and every length byte
    for nb in range(1, 5):
        sk = bytes([5, 2 + 8 * nb]) + bytes(range(16, 16 + 8 * nb))
        for cut in range(0, len(sk) + 1):
            yield raw_case(sk[:cut])
            yield raw_case(b"\x01" + sk[:cut])
        for v in range(256):
            yield raw_case(bytes([5, v]) + sk[2:], doors=False)
    # every kind byte in front of a plausible body
    for kbyte in range(256):
        for body in (b"", bytes([2]), bytes([3, 1]), bytes([4, 1, 2]), bytes([10, 1, 2, 3, 4, 5, 6, 7, 8]), bytes([kbyte])):
            yield raw_case(bytes([kbyte]) + body, doors=False)
    # ---- (c) random perturbed areas -----------------------------------------------------------
    for _ in range(20000 if quick else 300000):
        yield raw_case(perturbed_area(rng))
    # areas that do not fit
    for n in range(41, 50):
        yield raw_case(bytes(rng.choice([1, 1, 0, 4, 2]) for _ in range(n)))


# ------------------------------------------------------------------------------------------------
# neighbourhood search after a correspondence difference


def search(rng, corr_failures, run_cases):
    cands = []
    seen = set()
    for f in corr_failures[:30]:
        c = f.case
        if c.meta.get("k") == "raw":
            b = unhex(c.lines[0].split("\t")[1])
            vs = [b[:i] for i in range(len(b) + 1)]
            for i in range(len(b)):
                for v in ALPHABET:
                    x = bytearray(b)
                    x[i] = v
                    vs.append(bytes(x))
            for v in vs:
                if v not in seen:
                    seen.add(v)
                    cands.append(raw_case(v))
        elif c.meta.get("k") == "elems":
            t = c.lines[0].split("\t")[1]
            es = [] if t == "-" else [parse_elem(x) for x in t.split(",")]
            for i in range(len(es) + 1):
                for v in (es[:i], es[i:], es[:i] + [("nop",)] + es[i:], es[:i] + es[i + 1 :]):
                    t = elems_text(v)
                    if t not in seen:
                        seen.add(t)
                        cands.append(elems_case(list(v)))
        if len(cands) > 40000:
            break
    if not cands:
        return None
    run_cases(cands)
    for c in cands:
        fs = oracle(c)
        if fs:
            name, detail = fs[0]
            return Failure("oracle", name, c, detail)
    return None
