"""C07 - length and content errors describe the real fault."""
import re

from ..core import Case
from .. import decsupport as D
from ..gen import hx

ID = "C07"
RULE = (
    "structured packets with perturbed length fields, trailing bytes and cuts (faults mostly behind VLAN/MACsec/IP/extension "
    "headers) through the four packet families at their start point; every Err and every lax stop error is compared with the "
    "Spec fault of the same input; non-trivial = distinct input for which at least one door reports an error"
)
EXPLANATION = (
    "theorems: EpModel/Props/C07.lean; correspondence: whole-packet dec.* ops; oracle: the implementation's error record "
    "(layer, layer_start_offset, len, required_len, len_source, content value) against Spec.decode's own fault location"
)
ASSUMPTIONS = ["when a unit has two faults at once (e.g. bad IHL and cut header) either may be reported"]


def build(meta):
    start, et, data = meta["start"], meta["et"], D.meta_bytes(meta)
    suf, pre = D.entry_suffix(start, et)
    h = hx(data)
    lines = [D.spec_line(start, et, data), D.spec_line(start, et, data, lax=True)]
    if start == "sll":
        lines += ["dec.sp_sll\t" + h, "dec.lph_sll\t" + h]
    else:
        lines += ["dec.%s_%s\t%s%s" % (f, suf, pre, h) for f in ("sp", "ph", "lsp", "lph")]
    if start == "ip" and data:
        # the IP boundary doors (slice and struct, strict and lax, dispatching and version specific): their
        # errors and stop errors describe the same bytes; compared with the Spec fault where it lies in the IP layer
        v = {4: "v4", 6: "v6"}.get(data[0] >> 4)
        ops = ["ip_slice", "lax_ip_slice", "iph", "iph_lax"]
        if v:
            sfx = "ipv4" if v == "v4" else "ipv6"
            ops += [sfx + "_slice", "lax_" + sfx + "_slice", "iph_" + v, "iph_" + v + "_lax"]
        lines += ["dec.%s\t%s" % (o, h) for o in ops]
        # the reader door of the IP headers: where an IP length field (not the end of the data) cuts an extension
        # header short, its length error has to be the slice decoder's (layer, offset, available bytes, source)
        lines.append("impl.dec.read_iph\t" + h)
    return Case(lines, meta)


rebuild = build


def generate(rng, tier):
    n = 14000 if tier == "quick" else 400000
    tb = 60 if tier == "quick" else 1500
    for start, et, data, meta in D.base_inputs(rng, n, tb):
        yield build(meta)
    # the error records of the length-limited readers
    yield from D.readlim_cases(rng, 1500 if tier == "quick" else 40000)
    # known-finding class inputs (F9/F12) so that the KNOWN-FINDING lines are exercised every run
    arp = bytes.fromhex("0001080006040001") + bytes(10)
    yield build({"start": "et", "et": 0x0806, "data": hx(arp), "notes": ["F9"]})
    ms = bytes.fromhex("0014000000010800") + bytes(5)
    yield build({"start": "et", "et": 0x88E5, "data": hx(ms), "notes": ["F12"]})
    # the witnesses of Props/C07.lean `full_statement_false_arp` / `_macsec`, replayed on the crate
    yield build({"start": "et", "et": 0x0806, "data": "0001080006040001", "notes": ["F9-lean-witness"]})
    yield build({"start": "et", "et": 0x88E5,
                 "data": "202800000001010203040506070800010203040506070809", "notes": ["F12-lean-witness"]})


def is_trivial(c):
    if "readlim" in c.meta:
        return not any("err(" in (o or "") for o in c.impl)
    return not any(("err(" in (o or "") or "stop=(" in (o or "")) for o in c.impl[2:])


IP_DOORS = {"dec." + o for o in ("ip_slice", "lax_ip_slice", "iph", "iph_lax", "ipv4_slice", "lax_ipv4_slice", "iph_v4", "iph_v4_lax",
                                "ipv6_slice", "lax_ipv6_slice", "iph_v6", "iph_v6_lax")}
IP_UNITS = {"ipAny", "ipv4Header", "ipv4Packet", "ipv6Header", "ipv6Packet", "auth", "hopByHop", "destOpts", "route", "fragHeader"}
STOP_RE = re.compile(r"stop=\((.*),(\w+)\)\)$")


def oracle(c):
    out = []
    if "readlim" in c.meta:
        # the error record of a length-limited reader against the one of the slice decoder (whose records are
        # compared with the Spec fault above / in Props/C07.lean) on the slice cut at the limit
        D.readlim_oracle(c, out)
        return out
    data = bytes.fromhex(c.meta["data"]) if c.meta["data"] != "-" else b""
    spec_strict = c.model[0]
    spec_lax = c.model[1]
    fs = D.parse_fault(spec_strict) if spec_strict and spec_strict.startswith("err(") else None
    fl = None
    if spec_lax and ";fault=fault(" in spec_lax:
        fl = D.parse_fault(spec_lax[spec_lax.rindex(";fault=") :])
    for line, o in zip(c.lines[2:], c.impl[2:]):
        if o is None:
            continue
        op = line.split("\t", 1)[0]
        lax = op.startswith("dec.l")
        if op == "impl.dec.read_iph":
            if o.startswith("slice=") and "|read=" in o:
                from . import c06
                s_, r_ = o[6:].split("|read=", 1)
                if s_.startswith("err(") and r_.startswith("err(") and c06.err_class(s_) == "len":
                    tmp = []
                    c06.check_reader(op, s_, r_.replace("!accessor-mismatch", ""), tmp)
                    out.extend((n, dict(d, op=op)) for n, d in tmp)
            continue
        if op in IP_DOORS:
            lax = "lax" in op
            f = (fl if lax else fs) or (fs if lax else None)
            if f is not None and f["unit"] not in IP_UNITS:
                # the fault lies behind the IP layer: these doors do not look there
                if o.startswith("err(") or (lax and STOP_RE.search(o)):
                    out.append(("ip-door-error-for-transport-fault", {"op": op, "impl": o[-300:], "spec": f}))
                continue
            if o.startswith("err("):
                for name, det in D.error_vs_fault(o[4:-1], f, data):
                    det["op"] = op
                    out.append((name, det))
            elif lax:
                m = STOP_RE.search(o)
                if m:
                    for name, det in D.error_vs_fault(m.group(1), fl, data):
                        det["op"] = op
                        out.append((name, det))
            continue
        if o.startswith("err("):
            f = fl if lax else fs
            if lax and f is None:
                f = fs
            for name, det in D.error_vs_fault(o[4:-1], f, data):
                det["op"] = op
                out.append((name, det))
        elif lax and o.startswith("ok("):
            m = STOP_RE.search(o)
            if m:
                for name, det in D.error_vs_fault(m.group(1), fl, data):
                    det["op"] = op
                    out.append((name, det))
                # the layer the stop error is attached to
                if fl is not None:
                    want = D.UNIT_STOP_LAYER.get(fl["unit"])
                    if fl["unit"] in ("ipv4Packet", "ipv6Packet", "macsecPacket", "udpPayload"):
                        want = None
                    if want and m.group(2) != want and not (fl["unit"] == "icmp4" and m.group(2) == "Icmpv4"):
                        out.append(("stop-error-on-wrong-layer", {"op": op, "impl": o[-200:], "spec": fl}))
    return out


def search(rng, corr_failures, run_cases):
    import sys

    return D.search_decode(sys.modules[__name__], rng, corr_failures, run_cases)
