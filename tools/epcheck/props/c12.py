"""C12 - extension-header chain bookkeeping is self-consistent."""
import itertools
import re

from ..core import Case
from ..gen import hx, rbytes

ID = "C12"
RULE = (
    "ext.* operations on Ipv6Extensions/Ipv4Extensions values given as text. EXHAUSTIVE in both tiers: all 2^6 presence "
    "sets of (hop-by-hop, destination options, routing, final destination options, fragment, auth) -- 48 are representable "
    "(final destination options lives inside Ipv6RoutingExtensions), the other 16 are checked to be rejected as bad-op -- "
    "x every next_header combination over {0,60,43,44,51,17,59,255} in the present slots (complete for <=3 present headers; "
    "for 4..6: every permutation of the present headers linked as a consistent chain x every final number x correct and "
    "wrong first numbers, every single-link corruption of those chains, plus random combinations) x every first header of "
    "the alphabet; random payload/ICV sizes and fragment fields. Per case: next_header, write, header_len, write->from_slice "
    "round trip with a random tail. Further streams: set_next_headers->walk->write for every presence set x final number "
    "(all 256 numbers for the full set and in the thorough tier for all sets), IpHeaders/NetHeaders ether type, "
    "Ipv4Extensions (auth x all 256 first numbers), from_slice and from_slice_lax on python-composed chains (ordered or not, duplicated, "
    "hop-by-hop misplaced, perturbed length bytes, every truncation) and on noise. non-trivial = at least one header present "
    "or a non-empty byte string"
)
EXPLANATION = (
    "theorems: EpModel/Props/C12.lean (walkers agree for every struct, linking then walking, write length, write->decode, "
    "inconsistent chains are errors, ether type); correspondence: ipv6_exts.rs / ipv4_exts.rs / ip_headers.rs / "
    "net_headers.rs vs EpModel.Model.Ipv6Exts/Ipv4Exts; oracle (implementation outputs only): write ok <=> next_header ok, "
    "no panic, len(written) = header_len = python reference length, written bytes are exactly the present headers "
    "(python encoder) forming a linked chain from first to the walk result, from_slice(written ++ tail) returns the same "
    "struct, number and tail, set_next_headers(n) walks to n and serialises in the RFC 8200 order given by "
    "EpModel.Spec.Rfc8200Order (Lean driver), unreferenced / misplaced headers give the error naming a present header, "
    "ether type = 0x0800/0x86DD by version, from_slice rest window = header_len, from_slice_lax agrees with from_slice"
)
ASSUMPTIONS = [
    "the writer never fails (Vec<u8>); I/O faults are property C16",
    "round trip oracle applies when the walk result is not one of the five numbers the decoder consumes (0,60,43,44,51); "
    "the property restricts the final number to non extension header values",
]

ALPHA = [0, 60, 43, 44, 51, 17, 59, 255]
WALKED = {0, 60, 43, 44, 51}
# IANA "IPv6 Extension Header Types" (what IpNumber::is_ipv6_ext_header_value lists)
EXT_NUMS = {0, 43, 44, 50, 51, 60, 135, 139, 140, 253, 254}
SLOTS = ["hop", "dest", "route", "final", "frag", "auth"]
SLOT_NUM = {"hop": 0, "dest": 60, "route": 43, "final": 60, "frag": 44, "auth": 51}
RFC8200 = ["hop", "dest", "route", "frag", "auth", "final"]  # python copy; the Lean Spec is asked too


# ------------------------------------------------------------------------------------------
# textual values and the python reference encoder of single headers


def fmt_slot(kind, h):
    if h is None:
        return "-"
    if kind == "frag":
        return "%d:%d:%d:%d" % (h["nh"], h["off"], 1 if h["more"] else 0, h["id"])
    if kind == "auth":
        return "%d:%d:%d:%s" % (h["nh"], h["spi"], h["seq"], hx(h["icv"]))
    return "%d:%s" % (h["nh"], hx(h["pl"]))


def fmt_exts(e):
    return ",".join(fmt_slot(k, e.get(k)) for k in SLOTS)


def _unhex(s):
    return b"" if s == "-" else bytes.fromhex(s)


def parse_slot(kind, s):
    if s == "-":
        return None
    p = s.split(":")
    if kind == "frag":
        return {"nh": int(p[0]), "off": int(p[1]), "more": p[2] == "1", "id": int(p[3])}
    if kind == "auth":
        return {"nh": int(p[0]), "spi": int(p[1]), "seq": int(p[2]), "icv": _unhex(p[3])}
    return {"nh": int(p[0]), "pl": _unhex(p[1])}


def parse_exts(s):
    p = s.split(",")
    if len(p) != 6:
        raise ValueError("exts")
    return {k: parse_slot(k, x) for k, x in zip(SLOTS, p)}


def enc_slot(kind, h):
    """wire image of one header (RFC 8200 4.3-4.6, RFC 4302 2)."""
    if kind == "frag":
        w = (h["off"] << 3) | (1 if h["more"] else 0)
        return bytes([h["nh"], 0, w >> 8, w & 0xFF]) + h["id"].to_bytes(4, "big")
    if kind == "auth":
        return bytes([h["nh"], len(h["icv"]) // 4 + 1, 0, 0]) + h["spi"].to_bytes(4, "big") + h["seq"].to_bytes(4, "big") + h["icv"]
    return bytes([h["nh"], (len(h["pl"]) - 6) // 8]) + h["pl"]


def rand_slot(rng, kind, nh, big=False):
    if kind == "frag":
        return {"nh": nh, "off": rng.choice([0, 0, 1, 5, 8191, rng.randrange(8192)]), "more": rng.random() < 0.5, "id": rng.choice([0, 1, 2**32 - 1, rng.randrange(2**32)])}
    if kind == "auth":
        n = rng.choice([0, 0, 4, 4, 8, 12, 16]) if not big else rng.choice([0, 4, 252, 1012, 1016])
        return {"nh": nh, "spi": rng.choice([0, 1, 2**32 - 1, rng.randrange(2**32)]), "seq": rng.choice([0, 2**32 - 1, rng.randrange(2**32)]), "icv": rbytes(rng, n)}
    n = rng.choice([6, 6, 6, 6, 14, 14, 22, 30]) if not big else rng.choice([6, 254, 262, 2038, 2046])
    return {"nh": nh, "pl": rbytes(rng, n)}


def presence_sets():
    """all 64 presence vectors; (vector, representable)"""
    for bits in itertools.product([0, 1], repeat=6):
        pres = [k for k, b in zip(SLOTS, bits) if b]
        yield pres, not ("final" in pres and "route" not in pres)


def pres_str(pres):
    return "".join("1" if k in pres else "0" for k in SLOTS)


# ------------------------------------------------------------------------------------------
# generation


def _main_case(rng, pres, nhs, first, big=False):
    e = {k: rand_slot(rng, k, nh, big) for k, nh in zip(pres, nhs)}
    es = fmt_exts(e)
    tail = rbytes(rng, rng.choice([0, 0, 1, 3, 8, 13]))
    lines = [
        "ext.next_header\t%s\t%d" % (es, first),
        "ext.write\t%s\t%d" % (es, first),
        "ext.header_len\t%s" % es,
        "ext.roundtrip\t%s\t%d\t%s" % (es, first, hx(tail)),
    ]
    return Case(lines, {"k": "main", "exts": es, "first": first, "tail": hx(tail)})


def _chain_nhs(pres, perm, last):
    """next_header values (in slot order of pres) that link the headers in the order perm -> last"""
    nh = {}
    for i, k in enumerate(perm):
        nh[k] = SLOT_NUM[perm[i + 1]] if i + 1 < len(perm) else last
    return [nh[k] for k in pres]


def generate(rng, tier):
    quick = tier == "quick"
    sets = list(presence_sets())

    # --- stream 0: the 16 unrepresentable presence sets are rejected by both sides
    for pres, ok in sets:
        if not ok:
            e = {k: rand_slot(rng, k, 17) for k in pres}
            yield Case(["ext.next_header\t%s\t17" % fmt_exts(e)], {"k": "unrepresentable"})

    # --- stream 1: presence x next_header alphabet x first (exhaustive for <= 3 present headers)
    for pres, ok in sets:
        if not ok:
            continue
        k = len(pres)
        if k <= 3:
            for nhs in itertools.product(ALPHA, repeat=k):
                for first in ALPHA:
                    yield _main_case(rng, pres, nhs, first)
        else:
            perms = list(itertools.permutations(pres))
            if quick and k == 5:
                perms = rng.sample(perms, 40)
            if quick and k == 6:
                perms = rng.sample(perms, 100)
            for perm in perms:
                good_first = SLOT_NUM[perm[0]]
                for last in ALPHA:
                    nhs = _chain_nhs(pres, perm, last)
                    firsts = [good_first, rng.choice(ALPHA)] if quick else [good_first] + rng.sample(ALPHA, 2)
                    for first in firsts:
                        yield _main_case(rng, pres, nhs, first)
                # every single-link corruption of the chain ending in 17
                base = _chain_nhs(pres, perm, 17)
                for i in range(k):
                    for v in ALPHA:
                        if v != base[i] and (not quick or rng.random() < 0.35):
                            nhs = list(base)
                            nhs[i] = v
                            yield _main_case(rng, pres, nhs, good_first)
            for _ in range(600 if quick else 20000):
                nhs = [rng.choice(ALPHA) for _ in pres]
                yield _main_case(rng, pres, nhs, rng.choice(ALPHA))
    # consistent chains in every order, for every presence set (the write-ok side), some with big payloads
    for pres, ok in sets:
        if not ok or not pres:
            continue
        perms = list(itertools.permutations(pres))
        if quick and len(perms) > 60:
            perms = rng.sample(perms, 60)
        for perm in perms:
            for last in ALPHA + [6, 50, 135, 253]:
                yield _main_case(rng, pres, _chain_nhs(pres, perm, last), SLOT_NUM[perm[0]], big=rng.random() < 0.1)
    # other numbers (ESP, mobility, ... and random) in random slots, big payloads
    for _ in range(1500 if quick else 40000):
        pres, ok = rng.choice(sets)
        if not ok:
            continue
        pool = ALPHA + [50, 135, 139, 140, 253, 254, 6, 1, 58, rng.randrange(256)]
        nhs = [rng.choice(pool) for _ in pres]
        yield _main_case(rng, pres, nhs, rng.choice(pool), big=rng.random() < 0.15)

    # --- stream 2: set_next_headers -> next_header / write; RFC 8200 order from the Lean Spec
    for pres, ok in sets:
        if not ok:
            continue
        lasts = list(range(256)) if (not quick or len(pres) == 6 or len(pres) == 0) else ALPHA + [50, 135, 139, 140, 253, 254, 6, rng.randrange(256)]
        for n in lasts:
            e = {k: rand_slot(rng, k, rng.choice(ALPHA)) for k in pres}
            es = fmt_exts(e)
            yield Case(
                ["ext.link_walk\t%s\t%d" % (es, n), "ext.set_next\t%s\t%d" % (es, n), "spec.ext.order\t%s" % pres_str(pres)],
                {"k": "link", "exts": es, "n": n, "pres": pres},
            )
            # --- stream 3: ether type of the IP version (IpHeaders / NetHeaders)
            if n in ALPHA or rng.random() < 0.05:
                yield Case(
                    ["ext.ip_set_next\tv6\t%s\t%d" % (es, n), "ext.net_set_next\tv6\t%s\t%d" % (es, n), "ext.set_next\t%s\t%d" % (es, n)],
                    {"k": "ether", "v": 6, "exts": es, "n": n},
                )
                first = rng.choice(ALPHA)
                yield Case(
                    ["ext.ip_next_header\tv6\t%s\t%d" % (es, first), "ext.next_header\t%s\t%d" % (es, first)],
                    {"k": "ipnext", "v": 6},
                )
        e = {k: rand_slot(rng, k, rng.choice(ALPHA)) for k in pres}
        yield Case(["ext.is_frag\t%s" % fmt_exts(e)], {"k": "isfrag", "exts": fmt_exts(e)})
    yield Case(["ext.net_set_next\tarp\t-\t17"], {"k": "arp"})

    # --- stream 4: Ipv4Extensions (single auth header)
    for present in (False, True):
        for nh in ALPHA + [6, 50]:
            for first in range(256):
                a = rand_slot(rng, "auth", nh, big=rng.random() < 0.05) if present else None
                s = fmt_slot("auth", a)
                tail = rbytes(rng, rng.choice([0, 1, 8]))
                yield Case(
                    ["ext.v4.next_header\t%s\t%d" % (s, first), "ext.v4.write\t%s\t%d" % (s, first), "ext.v4.header_len\t%s" % s,
                     "ext.v4.roundtrip\t%s\t%d\t%s" % (s, first, hx(tail))],
                    {"k": "v4main", "auth": s, "first": first, "tail": hx(tail)},
                )
                if first % 8 == 0:
                    yield Case(
                        ["ext.v4.link_walk\t%s\t%d" % (s, first), "ext.v4.set_next\t%s\t%d" % (s, first),
                         "ext.ip_set_next\tv4\t%s\t%d" % (s, first), "ext.net_set_next\tv4\t%s\t%d" % (s, first),
                         "ext.ip_next_header\tv4\t%s\t%d" % (s, first), "ext.v4.next_header\t%s\t%d" % (s, first)],
                        {"k": "v4link", "auth": s, "n": first},
                    )

    # --- stream 5: from_slice on composed chains (structured, mostly valid) and on noise (malformed)
    kinds = ["hop", "dest", "route", "frag", "auth"]
    for it in range(900 if quick else 12000):
        m = rng.choice([0, 1, 1, 2, 2, 3, 3, 4, 5, 6, 7, 8])
        if rng.random() < 0.5:
            seq = [k for k in ["hop", "dest", "route", "frag", "auth", "dest"] if rng.random() < 0.6][:m] if m else []
        else:
            seq = [rng.choice(kinds) for _ in range(m)]
        last = rng.choice(ALPHA + [6, 50, rng.randrange(256)])
        data = b""
        for i, k in enumerate(seq):
            nh = SLOT_NUM[seq[i + 1]] if i + 1 < len(seq) else last
            if rng.random() < 0.08:
                nh = rng.choice(ALPHA)
            b = bytearray(enc_slot("dest" if k in ("hop", "route") else k, rand_slot(rng, "dest" if k in ("hop", "route") else k, nh, big=rng.random() < 0.03)))
            r = rng.random()
            if r < 0.06:
                b[1] = rng.choice([0, 1, 2, 0xFF, (b[1] + 1) & 0xFF, (b[1] - 1) & 0xFF])
            elif r < 0.09 and k == "frag":
                b[1] = 0xFF
                b[3] |= 6
            elif r < 0.12 and k == "auth":
                b[2] = 0xAB
            data += bytes(b)
        data += rbytes(rng, rng.choice([0, 0, 1, 7, 8, 20]))
        first = SLOT_NUM[seq[0]] if seq and rng.random() < 0.9 else rng.choice(ALPHA)
        yield Case(["ext.from_slice\t%d\t%s" % (first, hx(data)), "ext.from_slice_lax\t%d\t%s" % (first, hx(data))], {"k": "slice", "stream": "structured"})
        if it % (6 if quick else 3) == 0 and len(data) <= 120:
            for cut in range(len(data)):
                yield Case(["ext.from_slice\t%d\t%s" % (first, hx(data[:cut])), "ext.from_slice_lax\t%d\t%s" % (first, hx(data[:cut]))], {"k": "slice", "stream": "structured-truncated"})
        if it % 4 == 0:
            yield Case(["ext.v4.from_slice\t%d\t%s" % (rng.choice([51, 51, first]), hx(data[: rng.randrange(len(data) + 1)]))], {"k": "slice", "stream": "structured-v4"})
    for _ in range(1500 if quick else 30000):
        n = rng.choice([0, 1, 7, 8, 9, 11, 12, 13, 16, 24, rng.randrange(0, 80)])
        data = bytearray(rbytes(rng, n))
        if n >= 2 and rng.random() < 0.7:
            data[0] = rng.choice(ALPHA)
            data[1] = rng.choice([0, 0, 1, 2, 3, 0xFF])
        f0 = rng.choice(ALPHA)
        yield Case(["ext.from_slice\t%d\t%s" % (f0, hx(data)), "ext.from_slice_lax\t%d\t%s" % (f0, hx(data))], {"k": "slice", "stream": "malformed"})
        yield Case(["ext.v4.from_slice\t%d\t%s" % (rng.choice([51, 51, 0, 17]), hx(data))], {"k": "slice", "stream": "malformed-v4"})
    yield from _builder_chain_cases(rng, tier)


def _builder_chain_cases(rng, tier):
    """the PacketBuilder's linking of an extension chain (`.ip(IpHeaders::Ipv6(h, exts))` / `::Ipv4(h, exts)` with stale
    next-header values in the stored headers), through all three finishers (`write`, `write_to_vec`, `write_to_slice`
    - compared inside the harness) and every final step: C10's configurations, judged by C10's reference builder"""
    import random as _random
    from . import c10

    r2 = _random.Random(rng.randrange(1 << 30))
    n = 0
    for c in c10.generate(r2, "quick"):
        cfg = c.meta.get("cfg_text", "")
        if "ip6:" not in cfg and "ip4:" not in cfg:
            continue
        if c.meta.get("payload", "").startswith("len:"):
            continue
        n += 1
        if tier == "quick" and n > 1200 and n % 4:
            continue
        c.meta["k"] = "builder"
        yield c


def is_trivial(c):
    if c.meta.get("k") == "builder":
        return False
    k = c.meta.get("k")
    if k in ("main", "link", "ether", "isfrag"):
        return c.meta.get("exts") == "-,-,-,-,-,-"
    if k in ("v4main", "v4link"):
        return c.meta.get("auth") == "-"
    if k == "slice":
        return c.lines[0].endswith("\t-")
    return k in ("unrepresentable", "arp")


# ------------------------------------------------------------------------------------------
# oracle (implementation outputs only; python reference encoder; Lean Spec for the order)

_OK = re.compile(r"^ok\((.*)\)$")
_FS = re.compile(r"^ok\((.*),next=(\d+),rest=\((\d+),(\d+)\),header_len=(\d+)\)$")
_LAX = re.compile(r"^\((.*),next=(\d+),rest=\((\d+),(\d+)\),header_len=(\d+),err=(.*)\)$")
_WERR = re.compile(r"^err\((HopByHopNotAtStart|ExtNotReferenced\((\d+)\)),written=([0-9a-f-]+)\)$")
_NERR = re.compile(r"^err\((HopByHopNotAtStart|ExtNotReferenced\((\d+)\))\)$")


def _bad(s):
    return s is None or s == "panic" or s.startswith("fault(") or s == "bad-op" or s.startswith("io(")


def _split_chain(out, e):
    """all ways to split `out` into the wire images of the present headers of e (each used once):
    list of kind orders (several when two headers have identical images)."""
    imgs = [(k, enc_slot(k, h)) for k, h in e.items() if h is not None]
    res = []

    def rec(pos, left, acc):
        if len(res) >= 64:
            return
        if not left:
            if pos == len(out):
                res.append(list(acc))
            return
        for i, (k, img) in enumerate(left):
            if out[pos:pos + len(img)] == img:
                rec(pos + len(img), left[:i] + left[i + 1:], acc + [k])

    rec(0, imgs, [])
    return res


def _walks(first, order, e, last):
    """declarative walk (Spec.Ext.Walk): first names order[0], each header names its successor, the last names `last`"""
    cur = first
    for k in order:
        if cur != SLOT_NUM[k]:
            return False
        cur = e[k]["nh"]
    return cur == last


def _oracle_main(c, out):
    nh, wr, hl, rt = c.impl
    e = parse_exts(c.meta["exts"])
    first = c.meta["first"]
    tail = _unhex(c.lines[3].split("\t")[3])  # from the line: the shrinker may have cut it
    for s in c.impl:
        if _bad(s):
            out.append(("no-panic", {"impl": c.impl}))
            return
    walk_ok = nh.startswith("ok(")
    write_ok = wr.startswith("ok(")
    if walk_ok != write_ok:
        out.append(("write-iff-walk", {"next_header": nh, "write": wr[:80]}))
        return
    present = [k for k in SLOTS if e[k] is not None]
    ref_len = sum(len(enc_slot(k, e[k])) for k in present)
    if int(hl) != ref_len:
        out.append(("header-len-ref", {"header_len": hl, "reference": ref_len}))
    nums = [first] + [e[k]["nh"] for k in present]
    unref = [k for k in present if SLOT_NUM[k] not in nums]
    if write_ok:
        w = _unhex(_OK.match(wr).group(1))
        n = int(_OK.match(nh).group(1))
        if len(w) != int(hl):
            out.append(("write-len", {"written": len(w), "header_len": hl}))
        orders = _split_chain(w, e)
        if not orders:
            out.append(("no-silent-drop", {"written": w.hex(), "present": present}))
        elif not any(_walks(first, order, e, n) for order in orders):
            out.append(("written-chain-not-linked", {"orders": orders[:4], "first": first, "result": n}))
        if unref or (e["hop"] is not None and first != 0):
            out.append(("inconsistent-is-error", {"unreferenced": unref, "first": first, "next_header": nh}))
        if n not in WALKED:
            want = "ok(%s,next=%d,rest=(%d,%d),header_len=%d)" % (c.meta["exts"], n, len(w), len(tail), len(w))
            if rt != want:
                out.append(("write-decode", {"got": rt[:300], "want": want[:300]}))
    else:
        m1, m2 = _NERR.match(nh), _WERR.match(wr)
        if not m1 or not m2:
            out.append(("malformed-impl-output", {"impl": c.impl}))
            return
        if rt != "none":
            out.append(("malformed-impl-output", {"impl": c.impl}))
        for m in (m1, m2):
            if m.group(1) == "HopByHopNotAtStart":
                if e["hop"] is None:
                    out.append(("error-names-absent-header", {"err": m.group(0)}))
            else:
                num = int(m.group(2))
                if not any(SLOT_NUM[k] == num for k in present):
                    out.append(("error-names-absent-header", {"err": m.group(0), "present": present}))
        # nothing may be reported as written that is not a header of the struct
        w = _unhex(m2.group(3))
        sub = {k: (e[k] if e[k] is not None else None) for k in SLOTS}
        ok_prefix = False
        for r in range(len(present) + 1):
            for comb in itertools.permutations(present, r):
                if b"".join(enc_slot(k, sub[k]) for k in comb) == w:
                    ok_prefix = True
                    break
            if ok_prefix:
                break
        if not ok_prefix:
            out.append(("partial-write-not-headers", {"written": w.hex()}))


def _oracle_link(c, out):
    lw, sn, _ = c.impl
    if _bad(lw) or _bad(sn):
        out.append(("no-panic", {"impl": c.impl}))
        return
    m = re.match(r"^first=(\d+) (\S+) walk=(\S+) write=(\S+)$", lw)
    m2 = re.match(r"^first=(\d+) (\S+)$", sn)
    if not m or not m2:
        out.append(("malformed-impl-output", {"impl": c.impl}))
        return
    first, es2, walk, wr = int(m.group(1)), m.group(2), m.group(3), m.group(4)
    if (int(m2.group(1)), m2.group(2)) != (first, es2):
        out.append(("set-next-not-deterministic", {"impl": c.impl}))
    n = c.meta["n"]
    e0 = parse_exts(c.meta["exts"])
    e1 = parse_exts(es2)
    # same set: only next_header fields may change
    for k in SLOTS:
        a, b = e0[k], e1[k]
        if (a is None) != (b is None) or (a is not None and {x: v for x, v in a.items() if x != "nh"} != {x: v for x, v in b.items() if x != "nh"}):
            out.append(("set-next-changed-set", {"slot": k, "before": c.meta["exts"][:200], "after": es2[:200]}))
            return
    if "panic" in walk or "panic" in wr:
        out.append(("no-panic", {"impl": c.impl}))
        return
    if n in EXT_NUMS:
        return
    if walk != "ok(%d)" % n:
        out.append(("link-then-walk", {"walk": walk, "n": n}))
        return
    # order: from the Lean Spec (spec.ext.order) and cross-checked with the python copy
    spec = c.model[2]
    order = None
    if spec and spec.startswith("["):
        order = [x.split(":")[0] for x in spec[1:-1].split(",") if x]
    pyorder = [k for k in RFC8200 if k in c.meta["pres"]]
    if order is None:
        order = pyorder
    elif order != pyorder:
        out.append(("spec-order-differs-from-python-copy", {"spec": spec, "python": pyorder}))
    want = b"".join(enc_slot(k, e1[k]) for k in order)
    mw = _OK.match(wr)
    if not mw or _unhex(mw.group(1)) != want:
        out.append(("rfc8200-order", {"write": wr[:300], "want": want.hex()[:300], "order": order}))
        return
    if not _walks(first, order, e1, n):
        out.append(("rfc8200-links", {"first": first, "exts": es2[:300], "order": order}))


def _oracle_ether(c, out):
    want = 2048 if c.meta["v"] == 4 else 34525
    a, b, sn = c.impl
    if _bad(a) or _bad(b) or _bad(sn):
        out.append(("no-panic", {"impl": c.impl}))
        return
    if a != "ether=%d %s" % (want, sn):
        out.append(("ether-type-of-version", {"op": "IpHeaders::set_next_headers", "got": a[:200], "want": ("ether=%d %s" % (want, sn))[:200]}))
    if b != "ok(ether=%d) %s" % (want, sn):
        out.append(("ether-type-of-version", {"op": "NetHeaders::try_set_next_headers", "got": b[:200], "want": ("ok(ether=%d) %s" % (want, sn))[:200]}))


def _oracle_v4main(c, out):
    nh, wr, hl, rt = c.impl
    for s in c.impl:
        if _bad(s):
            out.append(("no-panic", {"impl": c.impl}))
            return
    a = parse_slot("auth", c.meta["auth"])
    first = c.meta["first"]
    tail = _unhex(c.lines[3].split("\t")[3])
    walk_ok, write_ok = nh.startswith("ok("), wr.startswith("ok(")
    if walk_ok != write_ok:
        out.append(("write-iff-walk", {"next_header": nh, "write": wr[:80]}))
        return
    img = enc_slot("auth", a) if a else b""
    if int(hl) != len(img):
        out.append(("header-len-ref", {"header_len": hl, "reference": len(img)}))
    if write_ok:
        w = _unhex(_OK.match(wr).group(1))
        n = int(_OK.match(nh).group(1))
        if len(w) != int(hl):
            out.append(("write-len", {"written": len(w), "header_len": hl}))
        if w != img:
            out.append(("no-silent-drop", {"written": w.hex(), "want": img.hex()}))
        if a is not None and first != 51:
            out.append(("inconsistent-is-error", {"first": first}))
        if n != (a["nh"] if a else first):
            out.append(("written-chain-not-linked", {"result": n}))
        want = "ok(%s,next=%d,rest=(%d,%d),header_len=%d)" % (c.meta["auth"], n, len(w), len(tail), len(w))
        if (a is not None or first != 51) and rt != want:
            out.append(("write-decode", {"got": rt[:300], "want": want[:300]}))
    else:
        if a is None or nh != "err(ExtNotReferenced(51))" or wr != "err(ExtNotReferenced(51),written=-)" or rt != "none":
            out.append(("error-names-absent-header", {"impl": c.impl}))


def _oracle_v4link(c, out):
    lw, sn, ip, net, ipn, n4 = c.impl
    for s in c.impl:
        if _bad(s):
            out.append(("no-panic", {"impl": c.impl}))
            return
    n = c.meta["n"]
    a = parse_slot("auth", c.meta["auth"])
    m = re.match(r"^first=(\d+) (\S+) walk=(\S+) write=(\S+)$", lw)
    if not m or sn != "first=%s %s" % (m.group(1), m.group(2)):
        out.append(("malformed-impl-output", {"impl": c.impl}))
        return
    a1 = parse_slot("auth", m.group(2))
    if (a is None) != (a1 is None) or (a is not None and dict(a, nh=0) != dict(a1, nh=0)):
        out.append(("set-next-changed-set", {"before": c.meta["auth"], "after": m.group(2)}))
        return
    if m.group(3) != "ok(%d)" % n:
        out.append(("link-then-walk", {"walk": m.group(3), "n": n}))
    want = enc_slot("auth", a1) if a1 else b""
    mw = _OK.match(m.group(4))
    if not mw or _unhex(mw.group(1)) != want or int(m.group(1)) != (51 if a1 else n) or (a1 is not None and a1["nh"] != n):
        out.append(("rfc8200-order", {"write": m.group(4)[:200], "want": want.hex()[:200]}))
    if ip != "ether=2048 %s" % sn:
        out.append(("ether-type-of-version", {"op": "IpHeaders::set_next_headers", "got": ip[:200]}))
    if net != "ok(ether=2048) %s" % sn:
        out.append(("ether-type-of-version", {"op": "NetHeaders::try_set_next_headers", "got": net[:200]}))
    # IpHeaders::next_header wraps Ipv4Extensions::next_header
    if (ipn.startswith("ok(") != n4.startswith("ok(")) or (n4.startswith("ok(") and ipn != n4) or (n4.startswith("err(") and ipn != "err(Ipv4Exts(%s))" % n4[4:-1]):
        out.append(("ip-next-header-wraps", {"ip": ipn, "exts": n4}))


def _oracle_slice(c, out):
    r = c.impl[0]
    if _bad(r):
        out.append(("no-panic", {"impl": c.impl, "line": c.lines[0][:200]}))
        return
    h = c.lines[0].split("\t")[2]
    n = 0 if h == "-" else len(h) // 2
    m = _FS.match(r)
    if m:
        off, ln, hl = int(m.group(3)), int(m.group(4)), int(m.group(5))
        if off + ln != n or hl != off:
            out.append(("decode-window", {"got": r[-80:], "input_len": n}))
    elif not r.startswith("err("):
        out.append(("malformed-impl-output", {"impl": c.impl}))
    if len(c.lines) > 1 and c.lines[0].split("\t")[1:] == c.lines[1].split("\t")[1:]:
        # (the second condition: a shrinking step that cuts only one of the two inputs is not a candidate)
        # from_slice_lax on the same input: same struct / number / rest when strict succeeds, the
        # strict error (plus a layer) next to a decoded prefix when strict fails
        lx = c.impl[1]
        if _bad(lx):
            out.append(("no-panic", {"impl": c.impl, "line": c.lines[1][:200]}))
            return
        ml = _LAX.match(lx)
        if not ml:
            out.append(("malformed-impl-output", {"impl": c.impl}))
            return
        off, ln, hl = int(ml.group(3)), int(ml.group(4)), int(ml.group(5))
        if off + ln != n or hl != off:
            out.append(("decode-window", {"got": lx[-120:], "input_len": n}))
        if m:
            if ml.group(6) != "none" or (ml.group(1), ml.group(2), ml.group(3), ml.group(4)) != (m.group(1), m.group(2), m.group(3), m.group(4)):
                out.append(("lax-extends-strict", {"strict": r[-160:], "lax": lx[-160:]}))
        else:
            if not ml.group(6).startswith("some(" + r[4:-1] + ","):
                out.append(("lax-extends-strict", {"strict": r[-160:], "lax": lx[-160:]}))


def oracle(c):
    out = []
    k = c.meta.get("k")
    for line, o in zip(c.lines, c.impl):
        if o and "!decoders-differ" in o:
            # Ipv6Extensions::read / read_limited / IpSlice::to_header against Ipv6Extensions::from_slice
            out.append(("sibling-decoders-differ", {"line": line[:300], "impl": o[:500]}))
    if out:
        return out
    if k == "builder":
        from . import c10
        return c10.oracle(c)
    try:
        if k == "main":
            _oracle_main(c, out)
        elif k == "link":
            _oracle_link(c, out)
        elif k == "ether":
            _oracle_ether(c, out)
        elif k == "v4main":
            _oracle_v4main(c, out)
        elif k == "v4link":
            _oracle_v4link(c, out)
        elif k == "slice":
            _oracle_slice(c, out)
        elif k == "ipnext":
            ipn, n6 = c.impl
            if _bad(ipn) or _bad(n6):
                out.append(("no-panic", {"impl": c.impl}))
            elif (n6.startswith("ok(") and ipn != n6) or (n6.startswith("err(") and ipn != "err(Ipv6Exts(%s))" % n6[4:-1]):
                out.append(("ip-next-header-wraps", {"ip": ipn, "exts": n6}))
        elif k == "isfrag":
            e = parse_exts(c.meta["exts"])
            f = e["frag"]
            want = "true" if (f is not None and (f["more"] or f["off"] != 0)) else "false"
            if c.impl[0] != want:
                out.append(("is-fragmenting-payload", {"got": c.impl[0], "want": want}))
        elif k == "unrepresentable":
            if c.impl[0] != "bad-op":
                out.append(("malformed-impl-output", {"impl": c.impl}))
        elif k == "arp":
            if c.impl[0] != "err(ArpHeader)":
                out.append(("arp-set-next", {"impl": c.impl}))
    except (ValueError, IndexError, TypeError, AttributeError, KeyError) as ex:
        out.append(("malformed-impl-output", {"impl": [str(x)[:200] for x in c.impl], "exception": repr(ex)}))
    return out


def extra_coverage(cases):
    """histograms for the evidence file: how the explored cases split"""
    h = {"write_ok": 0, "write_err_not_referenced": 0, "write_err_hop_not_at_start": 0, "roundtrip_checked": 0,
         "decode_ok": 0, "decode_err_len": 0, "decode_err_content": 0}
    by_stream = {}
    by_present = {}
    for c in cases:
        k = c.meta.get("k")
        by_stream[c.meta.get("stream", k)] = by_stream.get(c.meta.get("stream", k), 0) + 1
        if k == "main":
            wr = c.impl[1] or ""
            if wr.startswith("ok("):
                h["write_ok"] += 1
                if c.impl[3] and c.impl[3].startswith("ok("):
                    h["roundtrip_checked"] += 1
            elif "HopByHopNotAtStart" in wr:
                h["write_err_hop_not_at_start"] += 1
            elif "ExtNotReferenced" in wr:
                h["write_err_not_referenced"] += 1
            n = 6 - c.meta["exts"].split(",").count("-")
            by_present[n] = by_present.get(n, 0) + 1
        elif k == "slice":
            r = c.impl[0] or ""
            if r.startswith("ok("):
                h["decode_ok"] += 1
            elif r.startswith("err(len"):
                h["decode_err_len"] += 1
            elif r.startswith("err(content"):
                h["decode_err_content"] += 1
    return {"c12_outcomes": h, "c12_streams": by_stream, "c12_main_cases_by_present_headers": {str(k): v for k, v in sorted(by_present.items())}}


_HINT = {
    "write-iff-walk": ["write_iff_walk", "walkers_never_panic"],
    "no-panic": ["walkers_never_panic", "write_iff_walk"],
    "write-len": ["write_len"],
    "header-len-ref": ["write_len"],
    "write-decode": ["write_decode"],
    "no-silent-drop": ["walk_ok_is_linked_permutation"],
    "written-chain-not-linked": ["walk_ok_is_linked_permutation"],
    "inconsistent-is-error": ["inconsistent_is_error"],
    "error-names-absent-header": ["error_names_present_header"],
    "link-then-walk": ["link_then_walk"],
    "rfc8200-order": ["link_then_walk"],
    "rfc8200-links": ["link_then_walk"],
    "ether-type-of-version": ["ether_type_of_version"],
    "lax-extends-strict": ["lax_extends_strict"],
    "decode-window": ["from_slice_window"],
}


def THEOREM_HINT(name):
    return ["EpModel.Props.C12." + t for t in _HINT.get(name, [])]
