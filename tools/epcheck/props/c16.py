"""C16 - I/O faults and short buffers surface as errors without partial garbage."""
import re

from ..core import Case
from ..gen import hx, rbytes, edge_int
from . import c08_link as L
from . import c08_net as N
from . import c10 as B

ID = "C16"
RULE = (
    "io.* operations: per header type ~50 values (quick) x EVERY failure position k in 0..=len+1 of a writer that accepts "
    "exactly k bytes (a third of the link / transport values also through LinkHeader::write / TransportHeader::write), "
    "every output slice capacity 0..=len+1 (+canary), per reader type ~50 byte strings x every failure "
    "position of the reader, 2000 LimitedReader sessions (random op sequences over primitive and composite reads), "
    "7 convenience PacketBuilder paths x every k / capacity; "
    "io.skip.ext / io.skip.all (Ipv6Header::skip_header_extension / skip_all_header_extensions on a Read + Seek reader): "
    "220 chains (quick) of 1-4 skippable extension headers (0, 43, 44, 51, 60, 135, 139, 140; arbitrary length bytes, fragment "
    "header first / last, chains that go on behind the data) x EVERY failure position k in 0..=len+1 x EVERY truncation of the "
    "data, plus all 256 first next-header values on short data x every k; "
    "io.skip.ext.sf / io.skip.all.sf (the same two functions over a reader whose j-th seek call fails with an injected error "
    "and does not move): 220 further chains (quick) x seek-failure index j in {0, 1, 2, 3} x read-failure positions k around "
    "every call boundary of the loop (header start, behind the first read, last byte, header end, +-1) and k >= len / k = 2^20 "
    "(only the seek fails) x truncations of the data at those boundaries, plus all 256 first next-header values on short data "
    "x every k x every j; "
    "build.failw / build.slicebuf (C10's configuration grammar = every builder path): ~520 small-payload configurations (quick) "
    "over start (ethernet2 | linux_sll | none) x VLAN (none | single_vlan | double_vlan | vlan(Single) | vlan(Double)) x net "
    "(ipv4() | ipv6() | ip(IpHeaders::Ipv4 with options [+AH]) | ip(IpHeaders::Ipv6 + extension header sets) | arp) x final "
    "step (udp | tcp | tcp+options | tcp_header | icmpv4 / icmpv6 constructors | raw write with an ip number), ICMPv6-in-IPv4 "
    "and over-long payloads (the builder's own errors) included, x EVERY writer failure position k in 0..=len+1 and EVERY "
    "slice capacity 0..=size+1 (+9), sampled around the layer boundaries above 140 bytes; "
    "non-trivial = distinct case whose complete encoding / input has at least 2 bytes (sessions: at least 2 ops)"
)
EXPLANATION = (
    "theorems: failing_writer / parts_flatten / slice_writer / builder_slice / failing_reader / limited_reader / "
    "skip_header_extension(_ok_iff) / skip_all_ok / skip_all_complete / skip_all_error / skip_ext_sf_unreached / "
    "skip_ext_sf_reached / skip_ext_sf_ok_iff / skip_all_sf_free / skip_all_sf_seek_calls / skip_all_sf_unreached / "
    "skip_all_sf_reached / skip_all_sf_ok / skip_all_sf_error (reader whose j-th seek fails) / gbuilder_space_required / "
    "gbuilder_slice_buffer / gbuilder_failing_writer / gbuilder_write_failing_ok_iff "
    "(EpModel/Props/C16.lean) over the part-sequence and read-program models of EpModel/Model/Io.lean, the Read + Seek skip model "
    "EpModel/Model/IoSkip.lean and the general builder model of C10 (EpModel/Model/Builder.lean + BuilderIo.lean); correspondence: "
    "every write/write_raw/write_to_slice/read/read_limited of the header types, Ipv4Extensions, Ipv6Extensions, IpHeaders, "
    "LimitedReader, the two reader-side skip functions and every PacketBuilder path (write into a failing writer, write_to_slice "
    "into a canary buffer) run against an instrumented writer/reader/canary buffer; oracle on the "
    "implementation's outputs: written bytes are a prefix of the implementation's own complete encoding (and of a python "
    "reference encoding where one exists), never success below the complete length, error is the injected one, no call "
    "after the failure, canary intact, space error = complete length, reader never Ok below the needed length and never "
    "consumes more than k, LimitedReader pulls <= max_len and keeps read_len <= max_len; skip: a python walk over the RFC "
    "header lengths says whether every byte of the skipped header(s) lies in front of the failure position / end of data - "
    "Ok(next header, position behind the headers) iff it does, otherwise the injected error / UnexpectedEof; failing seek: a "
    "python reference reader + the calls of the two functions in the order of the code (fragment: read 1, seek 6, read 1; "
    "authentication: read 2, seek len*4+5, read 1; others: read 2, seek len*8+5, read 1; every `?` returns at once) gives "
    "result, final position and number of seek calls - the implementation must report exactly that, err(seek) whenever the "
    "failing seek is reached, no call after the first failure (post=0), and Ok only where the RFC walk finds complete headers, "
    "one seek call per header and the failing index behind them; the call-order reference without seek failure is "
    "cross-checked against the RFC walk on every line; builder: C10's "
    "python reference builder gives the complete encoding, its length and the builder's own error - written is a prefix of it, "
    "success only at full length, cap < length gives exactly Space(length) with only a prefix (the crate: nothing) written, "
    "cap >= length gives the complete encoding and nothing behind it"
)
ASSUMPTIONS = [
    "the failing reader/writer fails permanently once its budget is used up (std::io::Read::read_exact leaves the state unspecified after an error)",
    "x86-64, std feature; values are built through the crate's public constructors",
]

FILL = 0x5A
BIG = 1 << 20


# ----------------------------------------------------------------------------------------------
# helpers


def unhex(s):
    return b"" if s == "-" else bytes.fromhex(s)


def ks_for(rng, n, marks=()):
    """every failure position 0..=n+1 (sampled around the marks when the value is long)."""
    if n <= 140:
        return list(range(0, n + 2))
    s = set([0, 1, 2, 3, n - 1, n, n + 1])
    for m in marks:
        for d in (-1, 0, 1):
            if 0 <= m + d <= n + 1:
                s.add(m + d)
    for _ in range(24):
        s.add(rng.randrange(0, n + 2))
    return sorted(s)


def net_value(rng, t, i, small=True):
    """a representable value of a C08 net type (field dict)."""
    while True:
        f = N.gen_value(rng, t, i)
        if N.wf(t, f) is not None:
            continue
        if small and t == "auth" and len(unhex(f["icv"])) > 48 and rng.random() < 0.9:
            f["icv"] = hx(rbytes(rng, rng.randrange(0, 12) * 4))
        if small and t == "rawext" and len(unhex(f["payload"])) > 62 and rng.random() < 0.9:
            f["payload"] = hx(rbytes(rng, 6 + 8 * rng.randrange(0, 6)))
        return f


def net_args(t, f):
    return [str(f[k]) for k in N.FIELD_ORDER[t]]


def net_csv(t, f):
    return ",".join(net_args(t, f))


def link_value(rng, t):
    while True:
        v = t.gen(rng)
        if not t.constructible(v):
            continue
        if t.name == "arp" and t.hlen(v) > 120 and rng.random() < 0.9:
            continue
        return v


# ----------------------------------------------------------------------------------------------
# write cases


def write_case(op, args, ks, meta, prefix="io.write."):
    lines = ["%s%s\t%s\t%d" % (prefix, op, "\t".join(args), k) for k in ks]
    lines.append("%s%s\t%s\t%d" % (prefix, op, "\t".join(args), BIG))
    m = {"kind": "write", "op": op, "ks": list(ks) + [BIG]}
    m.update(meta)
    return Case(lines, m)


EXT_NUM = {"hbh": 0, "dst": 60, "rt": 43, "frag": 44, "auth": 51, "fdst": 60}
EXT_TYPE = {"hbh": "rawext", "dst": "rawext", "rt": "rawext", "frag": "ipv6frag", "auth": "auth", "fdst": "rawext"}
EXT_ORDER = ["hbh", "dst", "rt", "frag", "auth", "fdst"]


def gen_exts(rng, i, upper=None):
    """(first, {kind: fields}, chain order or None when deliberately broken, expected final result)"""
    present = [k for k in EXT_ORDER if rng.random() < 0.45]
    if "fdst" in present and "rt" not in present:
        present.remove("fdst")
    if i % 9 == 0:
        present = []
    if i % 9 == 1:
        present = list(EXT_ORDER)
    vals = {k: net_value(rng, EXT_TYPE[k], i) for k in present}
    # a valid chain order: hbh first; dst before rt; fdst behind rt; otherwise free
    rest = [k for k in present if k != "hbh"]
    for _ in range(20):
        rng.shuffle(rest)
        ok = True
        if "rt" in rest:
            if "dst" in rest and rest.index("dst") > rest.index("rt"):
                ok = False
            if "fdst" in rest and rest.index("fdst") < rest.index("rt"):
                ok = False
        elif "fdst" in rest:
            ok = False
        if ok:
            break
    else:
        rest = [k for k in EXT_ORDER if k in rest]
    order = (["hbh"] if "hbh" in present else []) + rest
    if upper is None:
        upper = rng.choice([17, 6, 58, 59, 1, 255, 4, 41])
    nums = [EXT_NUM[k] for k in order] + [upper]
    for idx, k in enumerate(order):
        vals[k]["nh"] = nums[idx + 1]
    first = nums[0]
    final = "ok"
    r = rng.random()
    if r < 0.3 and order:
        # break the chain somewhere: the result is whatever the implementation says; the oracle only
        # relates the failing-writer runs to the unlimited run
        how = rng.randrange(6)
        final = None
        if how == 0:
            first = rng.choice([0, 60, 43, 44, 51, 17])
        elif how == 1:
            vals[rng.choice(order)]["nh"] = rng.choice([0, 60, 43, 44, 51, 17])
        elif how == 2 and len(order) > 1:
            a, b = rng.sample(order, 2)
            vals[a]["nh"], vals[b]["nh"] = vals[b]["nh"], vals[a]["nh"]
        elif how == 3:
            vals[order[-1]]["nh"] = 0
        elif how == 4 and "hbh" in order and len(order) > 1:
            # hop-by-hop referenced from the end of the chain instead of the start
            first = EXT_NUM[order[1]]
            vals[order[-1]]["nh"] = 0
        else:
            first = upper
        order = None
    return first, vals, order, final


def exts_args(vals):
    return [net_csv(EXT_TYPE[k], vals[k]) if k in vals else "none" for k in EXT_ORDER]


def exts_ref(vals, order):
    return b"".join(N.ref_encode(EXT_TYPE[k], vals[k]) for k in order)


WRAPPED = {"eth2": "link.eth2", "sll": "link.sll", "udp": "tp.udp", "tcp": "tp.tcp", "icmpv4": "tp.icmpv4", "icmpv6": "tp.icmpv6"}


def gen_write_cases(rng, tier):
    nval = 60 if tier == "quick" else 600
    # link / transport types of the C08 link half: one write_all (TCP: two)
    for name in ("eth2", "vlan", "sll", "macsec", "arp", "udp", "tcp", "icmpv4", "icmpv6"):
        t = L.BY_NAME[name]
        for i in range(nval):
            v = link_value(rng, t)
            n = t.hlen(v)
            yield write_case(name, t.args(v), ks_for(rng, n, (20,)), {"len": n, "final": "ok"})
            if name in WRAPPED and i % 3 == 0:
                # the same value through the enum wrapper (LinkHeader::write / TransportHeader::write)
                yield write_case(WRAPPED[name], t.args(v), ks_for(rng, n, (20,)), {"len": n, "final": "ok"})
    # net types: python reference encoding available
    for t in ("ipv6", "ipv6frag", "auth", "rawext"):
        for i in range(nval):
            f = net_value(rng, t, i, small=(i % 25 != 7))
            ref = N.ref_encode(t, f)
            marks = {"auth": (12,), "rawext": (2,)}.get(t, ())
            yield write_case(t, net_args(t, f), ks_for(rng, len(ref), marks), {"len": len(ref), "final": "ok", "ref": hx(ref)})
    for i in range(nval):
        f = net_value(rng, "ipv4", i)
        ref_raw = N.ref_encode("ipv4", f)
        ref_ck = N.ref_encode("ipv4", f, ck=N.ipv4_ref_checksum(f))
        ks = ks_for(rng, len(ref_raw), (20,))
        yield write_case("ipv4", net_args("ipv4", f), ks, {"len": len(ref_raw), "final": "ok", "ref": hx(ref_ck)})
        yield write_case("ipv4raw", net_args("ipv4", f), ks, {"len": len(ref_raw), "final": "ok", "ref": hx(ref_raw)})
    # Ipv4Extensions
    for i in range(nval):
        auth = net_value(rng, "auth", i) if i % 5 else None
        start = 51 if (auth is not None) == (i % 7 != 0) else rng.choice([0, 6, 17, 50, 52, 255])
        args = [str(start), "none" if auth is None else net_csv("auth", auth)]
        if auth is None:
            ref, final = b"", "ok"
        elif start == 51:
            ref, final = N.ref_encode("auth", auth), "ok"
        else:
            ref, final = b"", "err(notreferenced(51))"
        yield write_case("ipv4exts", args, ks_for(rng, len(ref), (12,)), {"len": len(ref), "final": final, "ref": hx(ref)})
    # Ipv6Extensions
    for i in range(nval * 2):
        first, vals, order, final = gen_exts(rng, i)
        upper_len = sum(len(N.ref_encode(EXT_TYPE[k], vals[k])) for k in vals)
        meta = {"final": final}
        if order is not None:
            ref = exts_ref(vals, order)
            meta.update({"len": len(ref), "ref": hx(ref)})
        yield write_case("ipv6exts", [str(first)] + exts_args(vals), ks_for(rng, upper_len), meta)
    # IpHeaders
    for i in range(nval):
        if i % 2 == 0:
            auth = net_value(rng, "auth", i) if i % 3 else None
            f = net_value(rng, "ipv4", i)
            f["proto"] = 51 if (auth is not None) == (i % 8 != 0) else rng.choice([6, 17, 1])
            href = N.ref_encode("ipv4", f, ck=N.ipv4_ref_checksum(f))
            if auth is None:
                ref, final = href, "ok"
            elif f["proto"] == 51:
                ref, final = href + N.ref_encode("auth", auth), "ok"
            else:
                ref, final = href, "err(notreferenced(51))"
            args = ["v4", net_csv("ipv4", f), "none" if auth is None else net_csv("auth", auth)]
            yield write_case("ipheaders", args, ks_for(rng, len(ref), (20, len(href), len(href) + 12)), {"len": len(ref), "final": final, "ref": hx(ref)})
        else:
            first, vals, order, final = gen_exts(rng, i)
            f = net_value(rng, "ipv6", i)
            f["nh"] = first
            href = N.ref_encode("ipv6", f)
            upper_len = 40 + sum(len(N.ref_encode(EXT_TYPE[k], vals[k])) for k in vals)
            meta = {"final": final}
            if order is not None:
                ref = href + exts_ref(vals, order)
                meta.update({"len": len(ref), "ref": hx(ref)})
            yield write_case("ipheaders", ["v6", net_csv("ipv6", f)] + exts_args(vals), ks_for(rng, upper_len, (40,)), meta)


_W = re.compile(r"^(.*);w=([0-9a-f]+|-);post=(\d+)$")


def oracle_write(c, out):
    rows = []
    for o in c.impl:
        m = _W.match(o or "")
        if not m:
            out.append(("write-no-panic", {"impl": o}))
            return
        rows.append((m.group(1), unhex(m.group(2)), int(m.group(3))))
    final, full, _ = rows[-1]
    if final == "err(io)":
        out.append(("write-unlimited-fails", {"impl": c.impl[-1]}))
        return
    want_final = c.meta.get("final")
    if want_final is not None and final != want_final:
        out.append(("write-result", {"got": final, "want": want_final}))
    if "len" in c.meta and len(full) != c.meta["len"]:
        out.append(("write-complete-length", {"got": len(full), "want": c.meta["len"]}))
    if "ref" in c.meta and full != unhex(c.meta["ref"]):
        out.append(("write-reference-encoding", {"got": hx(full), "want": c.meta["ref"]}))
    n = len(full)
    for k, (res, w, post) in zip(c.meta["ks"], rows):
        if post != 0:
            out.append(("write-call-after-error", {"k": k, "post": post, "impl": res}))
            return
        if w != full[: min(k, n)]:
            out.append(("write-prefix", {"k": k, "written": hx(w), "complete": hx(full)}))
            return
        if k < n:
            if res != "err(io)":
                out.append(("write-error-reported", {"k": k, "len": n, "got": res}))
                return
        elif res != final:
            out.append(("write-success-at-len", {"k": k, "len": n, "got": res, "want": final}))
            return


# ----------------------------------------------------------------------------------------------
# slice cases


def slice_case(op, args, n, caps):
    lines = ["io.wslice.%s\t%s\t%d" % (op, "\t".join(args), cap) for cap in caps]
    lines.append("io.write.%s\t%s\t%d" % (op, "\t".join(args), BIG))
    return Case(lines, {"kind": "slice", "op": op, "caps": list(caps), "len": n})


def gen_slice_cases(rng, tier):
    nval = 50 if tier == "quick" else 500
    for name, n in (("eth2", 14), ("sll", 16)):
        t = L.BY_NAME[name]
        for i in range(nval):
            v = link_value(rng, t)
            caps = list(range(0, n + 2)) + [n + 7, 64, rng.randrange(n, 200)]
            yield slice_case(name, t.args(v), n, caps)


_S = re.compile(r"^(.*);buf=([0-9a-f]+|-);canary=(\w+)$")
_SPACE = re.compile(r"^err\(space\(req=(\d+),len=(\d+),layer=(\w+),off=(\d+)\)\)$")


def oracle_slice(c, out):
    m = _W.match(c.impl[-1] or "")
    if not m or m.group(1) != "ok":
        out.append(("slice-reference-write", {"impl": c.impl[-1]}))
        return
    full = unhex(m.group(2))
    n = c.meta["len"]
    if len(full) != n:
        out.append(("slice-complete-length", {"got": len(full), "want": n}))
        return
    for cap, o in zip(c.meta["caps"], c.impl):
        m = _S.match(o or "")
        if not m:
            out.append(("slice-no-panic", {"cap": cap, "impl": o}))
            return
        res, buf, canary = m.group(1), unhex(m.group(2)), m.group(3)
        if canary != "intact":
            out.append(("slice-canary", {"cap": cap, "impl": o}))
            return
        if cap < n:
            ms = _SPACE.match(res)
            if not ms:
                out.append(("slice-error-reported", {"cap": cap, "got": res}))
                return
            if int(ms.group(1)) != n or int(ms.group(2)) != cap:
                out.append(("slice-required-length", {"cap": cap, "got": res, "want_required": n}))
                return
            if buf != bytes([FILL]) * cap:
                out.append(("slice-partial-garbage", {"cap": cap, "buf": hx(buf)}))
                return
        else:
            if res != "ok(rest=%d)" % (cap - n):
                out.append(("slice-success", {"cap": cap, "got": res}))
                return
            if buf != full + bytes([FILL]) * (cap - n):
                out.append(("slice-content", {"cap": cap, "buf": hx(buf), "complete": hx(full)}))
                return


# ----------------------------------------------------------------------------------------------
# read cases


def read_case(op, pre, data, ks, extra=None):
    lines = ["io.read.%s\t%s%s\t%d" % (op, pre, hx(data), k) for k in ks]
    lines.append("io.read.%s\t%s%s\t%d" % (op, pre, hx(data), len(data) + 1))
    m = {"kind": "read", "op": op, "ks": list(ks) + [len(data) + 1], "dlen": len(data)}
    if extra:
        m.update(extra)
    return Case(lines, m)


def chain_bytes(rng, i):
    """(first, bytes) of an IPv6 extension chain (mostly well formed)."""
    first, vals, order, _ = gen_exts(rng, i)
    ks = order if order is not None else [k for k in EXT_ORDER if k in vals]
    return first, b"".join(N.ref_encode(EXT_TYPE[k], vals[k]) for k in ks)


def gen_read_cases(rng, tier):
    nval = 50 if tier == "quick" else 500
    for name in ("eth2", "vlan", "sll", "macsec", "arp", "udp", "tcp", "icmpv4", "icmpv6"):
        t = L.BY_NAME[name]
        for i in range(nval):
            d = t.accepted_bytes(rng)
            if name == "arp" and len(d) >= 8 and rng.random() < 0.9:
                b = bytearray(d)
                b[4], b[5] = rng.randrange(0, 9), rng.randrange(0, 9)
                d = bytes(b)
            if rng.random() < 0.1:
                d = d[: rng.randrange(0, len(d) + 1)]
            d = d[:120]
            yield read_case(name, "", d, range(0, len(d) + 1))
    for t in ("ipv6", "ipv6frag", "ipv4", "auth", "rawext"):
        for i in range(nval):
            if i % 2:
                f = net_value(rng, t, i)
                d = N.ref_encode(t, f) + rbytes(rng, rng.choice([0, 1, 5]))
                extra = {"needed": len(N.ref_encode(t, f))}
            else:
                d = N.gen_bytes(rng, t)
                if len(d) > 140:
                    b = bytearray(d)
                    if t == "auth":
                        b[1] = rng.randrange(0, 12)
                    if t == "rawext":
                        b[1] = rng.randrange(0, 8)
                    d = bytes(b[:140])
                extra = None
            yield read_case(t, "", d, range(0, len(d) + 1), extra)
    for i in range(nval):
        start = 51 if i % 4 else rng.choice([0, 6, 17, 50])
        d = N.gen_bytes(rng, "auth")
        if len(d) > 100:
            b = bytearray(d)
            b[1] = rng.randrange(0, 12)
            d = bytes(b[:100])
        yield read_case("ipv4exts", "%d\t" % start, d, range(0, len(d) + 1))
    for i in range(nval * 2):
        first, d = chain_bytes(rng, i)
        d = d + rbytes(rng, rng.choice([0, 0, 3, 9]))
        if rng.random() < 0.1 and d:
            d = d[: rng.randrange(0, len(d))]
        d = d[:400]
        ks = range(0, len(d) + 1) if len(d) <= 160 else ks_for(rng, len(d))
        yield read_case("ipv6exts", "%d\t" % first, d, ks)
    for i in range(nval * 2):
        if i % 2 == 0:
            auth = net_value(rng, "auth", i) if i % 3 else None
            f = net_value(rng, "ipv4", i)
            f["proto"] = 51 if (auth is not None) == (i % 8 != 0) else rng.choice([6, 17, 51])
            ext = N.ref_encode("auth", auth) if auth is not None else b""
            hl = 20 + len(unhex(f["opts"]))
            f["tlen"] = rng.choice([hl + len(ext), hl + len(ext), hl + len(ext) + 8, hl + max(0, len(ext) - 1), hl + 12, hl + 11, hl, hl - 1, 0, 65535])
            d = N.ref_encode("ipv4", f) + ext + rbytes(rng, rng.choice([0, 4, 9]))
        else:
            first, ext = chain_bytes(rng, i)
            f = net_value(rng, "ipv6", i)
            f["nh"] = first
            f["plen"] = rng.choice([len(ext), len(ext), len(ext) + 8, max(0, len(ext) - 1), max(0, len(ext) - 8), 0, 2, 65535])
            d = N.ref_encode("ipv6", f) + ext + rbytes(rng, rng.choice([0, 4, 9]))
        if rng.random() < 0.05:
            b = bytearray(d)
            b[0] = rng.randrange(256)
            d = bytes(b)
        d = d[:400]
        ks = range(0, len(d) + 1) if len(d) <= 160 else ks_for(rng, len(d), (1, 20, 40))
        yield read_case("ipheaders", "", d, ks)


_R = re.compile(r"^(.*);used=(\d+);post=(\d+)$")


def oracle_read(c, out):
    rows = []
    for o in c.impl:
        m = _R.match(o or "")
        if not m:
            out.append(("read-no-panic", {"impl": o}))
            return
        rows.append((m.group(1), int(m.group(2)), int(m.group(3))))
    final, used_full, _ = rows[-1]
    dlen = c.meta["dlen"]
    if final == "err(io)" or used_full > dlen:
        out.append(("read-unlimited", {"impl": c.impl[-1]}))
        return
    if final == "err(eof)" and used_full != dlen:
        out.append(("read-eof-consumption", {"impl": c.impl[-1], "dlen": dlen}))
    if "needed" in c.meta and (not final.startswith("ok(") or used_full != c.meta["needed"]):
        out.append(("read-needed-length", {"impl": c.impl[-1], "needed": c.meta["needed"]}))
    for k, (res, used, post) in zip(c.meta["ks"], rows):
        if post != 0:
            out.append(("read-call-after-error", {"k": k, "impl": res, "post": post}))
            return
        if used > k or used > dlen:
            out.append(("read-consumed-beyond-failure", {"k": k, "used": used}))
            return
        complete = used_full if final != "err(eof)" else dlen + 1
        if k < complete:
            # the reader fails (or runs dry) before the read is complete: never Ok, the error is the
            # injected one, everything before the failure was consumed
            if res.startswith("ok"):
                out.append(("read-ok-below-needed", {"k": k, "needed": used_full, "got": res}))
                return
            want = "err(io)" if k <= dlen else "err(eof)"
            if res != want or used != min(k, dlen):
                out.append(("read-error-reported", {"k": k, "got": res, "used": used, "want": want}))
                return
        else:
            if res != final or used != used_full:
                out.append(("read-complete", {"k": k, "got": res, "used": used, "want": final, "want_used": used_full}))
                return


# ----------------------------------------------------------------------------------------------
# LimitedReader sessions

LAYERS = ["Ethernet2Header", "Ipv4Header", "Ipv4Packet", "IpAuthHeader", "Ipv6Header", "Ipv6ExtHeader", "Ipv6FragHeader", "UdpHeader", "TcpHeader"]
SRCS = ["Slice", "Ipv4HeaderTotalLen", "Ipv6HeaderPayloadLen", "UdpHeaderLen", "TcpHeaderLen"]


def gen_limited_cases(rng, tier):
    nseq = 2000 if tier == "quick" else 30000
    for i in range(nseq):
        composite = i % 2 == 1
        if composite:
            first, d = chain_bytes(rng, i)
            d = d[:300] + rbytes(rng, rng.choice([0, 2, 8, 30]))
        else:
            first = 0
            d = rbytes(rng, rng.choice([0, 1, 8, 20, 40, rng.randrange(0, 64)]))
        n = len(d)
        mx = rng.choice([0, 1, n, n, max(0, n - 1), n + 1, n // 2, rng.randrange(0, n + 10), rng.randrange(0, 16)])
        k = rng.choice([n + 1, n + 1, n, mx, max(0, mx - 1), mx + 1, rng.randrange(0, n + 2)])
        ops = []
        for _ in range(rng.choice([1, 2, 3, 4, 6, 10])):
            r = rng.random()
            if composite and r < 0.45:
                ops.append(rng.choice(["auth", "frag", "rawext", "ipv4exts:%d" % rng.choice([51, 51, 6]), "ipv6exts:%d" % first, "ipv6exts:%d" % rng.choice([0, 60, 43, 44, 51, 17])]))
            elif r < 0.75:
                ops.append("read:%d" % rng.choice([0, 1, 2, 4, 8, mx, mx + 1, rng.randrange(0, 24)]))
            else:
                ops.append("start:%s" % rng.choice(LAYERS))
        off = rng.choice([0, 14, 20, 40, rng.randrange(0, 100)])
        line = "io.limited\t%s\t%d\t%d\t%s\t%d\t%s\t%s" % (hx(d), k, mx, rng.choice(SRCS), off, rng.choice(LAYERS), "\t".join(ops))
        yield Case([line], {"kind": "limited", "data": hx(d), "k": k, "max": mx, "off": off, "ops": ops, "prim": not composite or all(o.startswith(("read", "start")) for o in ops)})


_LOP = re.compile(r"(?:^|,)([a-z0-9]+(?::[A-Za-z0-9]+)?)=(.*?)@\((\d+),(\d+),(\d+),(\w+),(\w+)\)(?=,[a-z0-9]+(?::[A-Za-z0-9]+)?=|$)")


def oracle_limited(c, out):
    o = c.impl[0] or ""
    m = re.match(r"^\[(.*)\];pulled=(\d+)$", o)
    if not m:
        out.append(("limited-no-panic", {"impl": o}))
        return
    body, pulled = m.group(1), int(m.group(2))
    mx0, off0, k, data = c.meta["max"], c.meta["off"], c.meta["k"], unhex(c.meta["data"])
    if pulled > mx0:
        out.append(("limited-pulled-beyond-limit", {"pulled": pulled, "max_len": mx0}))
        return
    if pulled > min(k, len(data)):
        out.append(("limited-pulled-beyond-reader", {"pulled": pulled}))
        return
    steps = list(_LOP.finditer(body))
    if len(steps) != len(c.meta["ops"]):
        out.append(("limited-output-shape", {"impl": o}))
        return
    # reference simulation of the primitive ops (python, independent of the Lean model)
    sim = {"max": mx0, "read": 0, "off": off0, "pos": 0, "dead": False} if c.meta["prim"] else None
    limit = min(k, len(data))
    for op, st in zip(c.meta["ops"], steps):
        name, res, mxl, rdl, off = st.group(1), st.group(2), int(st.group(3)), int(st.group(4)), int(st.group(5))
        if name != op:
            out.append(("limited-output-shape", {"impl": o}))
            return
        if rdl > mxl:
            out.append(("limited-read-len-exceeds-max", {"op": op, "max_len": mxl, "read_len": rdl}))
            return
        if mxl + (off - off0) != mx0:
            out.append(("limited-budget-conservation", {"op": op, "max_len": mxl, "layer_offset": off, "initial_max": mx0, "initial_offset": off0}))
            return
        if (off - off0) + rdl > pulled:
            out.append(("limited-accounting", {"op": op, "read_total": (off - off0) + rdl, "pulled": pulled}))
            return
        if sim is not None:
            if op.startswith("start:"):
                sim["off"] += sim["read"]
                sim["max"] -= sim["read"]
                sim["read"] = 0
                want = "ok"
            else:
                n = int(op.split(":")[1])
                if sim["max"] - sim["read"] < n:
                    want = "err(len(req=%d,len=%d," % (sim["read"] + n, sim["max"])
                elif n == 0:
                    want = "ok(-)"
                elif sim["pos"] + n <= limit:
                    want = "ok(%s)" % hx(data[sim["pos"] : sim["pos"] + n])
                    sim["pos"] += n
                    sim["read"] += n
                else:
                    sim["pos"] = limit
                    want = "err(io)" if k <= len(data) else "err(eof)"
            if not res.startswith(want) or (want in ("ok", "ok(-)") and res != want) or (mxl, rdl, off) != (sim["max"], sim["read"], sim["off"]):
                out.append(("limited-reference", {"op": op, "got": st.group(0).lstrip(","), "want": want, "want_state": [sim["max"], sim["read"], sim["off"]]}))
                return
    if sim is not None and pulled != sim["pos"]:
        out.append(("limited-reference", {"pulled": pulled, "want": sim["pos"]}))


# ----------------------------------------------------------------------------------------------
# PacketBuilder paths


def gen_build_cases(rng, tier):
    nval = 12 if tier == "quick" else 120
    arp_t = L.BY_NAME["arp"]
    for i in range(nval):
        for path in ("e4u", "ev6u", "4t", "edd4i", "6i6", "e4i6", "earp"):
            n = rng.choice([0, 1, 2, 3, 7, 8, rng.randrange(0, 40)])
            payload = rbytes(rng, n)
            mac = lambda: hx(L.eb(rng, 6))
            ip4 = lambda: hx(L.eb(rng, 4))
            ip6 = lambda: hx(L.eb(rng, 16))
            u16 = lambda: str(L.ev(rng, 0xFFFF))
            vid = lambda: str(L.ev(rng, 4095))
            final = "ok"
            if path == "e4u":
                args, total = [mac(), mac(), ip4(), ip4(), str(L.ev(rng, 255)), u16(), u16()], 14 + 20 + 8 + n
                marks = (14, 34, 42)
            elif path == "ev6u":
                args, total = [mac(), mac(), vid(), ip6(), ip6(), str(L.ev(rng, 255)), u16(), u16()], 14 + 4 + 40 + 8 + n
                marks = (14, 18, 58, 66)
            elif path == "4t":
                args, total = [ip4(), ip4(), str(L.ev(rng, 255)), u16(), u16(), str(L.ev(rng, 0xFFFFFFFF)), u16()], 20 + 20 + n
                marks = (20, 40)
            elif path == "edd4i":
                args, total = [mac(), mac(), vid(), vid(), ip4(), ip4(), str(L.ev(rng, 255)), u16(), u16()], 14 + 8 + 20 + 8 + n
                marks = (14, 18, 22, 42, 50)
            elif path == "6i6":
                args, total = [ip6(), ip6(), str(L.ev(rng, 255)), u16(), u16()], 40 + 8 + n
                marks = (40, 48)
            elif path == "e4i6":
                args, total = [mac(), mac(), ip4(), ip4(), str(L.ev(rng, 255)), u16(), u16()], 14 + 20
                final = "err(icmpv6inipv4)"
                marks = (14, 34)
            else:
                v = link_value(rng, arp_t)
                while arp_t.hlen(v) > 100:
                    v = link_value(rng, arp_t)
                payload = b""
                n = 0
                args, total = [mac(), mac()] + arp_t.args(v), 14 + arp_t.hlen(v)
                marks = (14,)
            full_args = [path] + args + [hx(payload)]
            yield write_case("write", full_args, ks_for(rng, total, marks), {"len": total, "final": final, "path": path}, prefix="io.build.")
            required = total if path != "e4i6" else 14 + 20 + 8 + n
            caps = list(range(0, required + 2)) + [required + 9, required + 64]
            lines = ["io.build.wslice\t%s\t%d" % ("\t".join(full_args), cap) for cap in caps]
            lines.append("io.build.write\t%s\t%d" % ("\t".join(full_args), BIG))
            yield Case(lines, {"kind": "bslice", "op": "build", "path": path, "caps": caps, "len": total, "required": required, "final": final})


_BOK = re.compile(r"^ok\(n=(\d+)\)$")


def oracle_build_slice(c, out):
    m = _W.match(c.impl[-1] or "")
    if not m or m.group(1) != c.meta["final"]:
        out.append(("bslice-reference-write", {"impl": c.impl[-1]}))
        return
    full = unhex(m.group(2))
    n, required, final = c.meta["len"], c.meta["required"], c.meta["final"]
    if len(full) != n:
        out.append(("bslice-complete-length", {"got": len(full), "want": n}))
        return
    for cap, o in zip(c.meta["caps"], c.impl):
        m = _S.match(o or "")
        if not m:
            out.append(("bslice-no-panic", {"cap": cap, "impl": o}))
            return
        res, buf, canary = m.group(1), unhex(m.group(2)), m.group(3)
        if canary != "intact" or len(buf) != cap:
            out.append(("bslice-canary", {"cap": cap, "impl": o}))
            return
        if cap < required:
            if res != "err(space(%d))" % required:
                out.append(("bslice-required-length", {"cap": cap, "got": res, "want_required": required}))
                return
            if buf != bytes([FILL]) * cap:
                out.append(("bslice-partial-garbage", {"cap": cap, "buf": hx(buf)}))
                return
        else:
            want = "ok(n=%d)" % required if final == "ok" else final
            if res != want:
                out.append(("bslice-result", {"cap": cap, "got": res, "want": want}))
                return
            if buf != full + bytes([FILL]) * (cap - n):
                out.append(("bslice-content", {"cap": cap, "buf": hx(buf), "complete": hx(full)}))
                return



# ----------------------------------------------------------------------------------------------
# Read + Seek skipping of IPv6 extension headers (Ipv6Header::skip_header_extension /
# skip_all_header_extensions)

SKIPPABLE = (0, 43, 44, 51, 60, 135, 139, 140)
NOT_SKIPPABLE = (17, 6, 58, 59, 50, 1, 4, 41, 253, 255, 45, 52, 134, 136, 141)


def ext_header_len(nh, lenbyte):
    """length of an extension header on the wire (RFC 8200 4.x: (n+1)*8, fragment: 8; RFC 4302: (n+2)*4)"""
    if nh == 44:
        return 8
    if nh == 51:
        return (lenbyte + 2) * 4
    return (lenbyte + 1) * 8


def gen_skip_chain(rng, i):
    """(first next_header, bytes): a chain of 1-4 skippable headers with arbitrary length bytes"""
    n = 1 + i % 4
    kinds = [rng.choice(SKIPPABLE) for _ in range(n)]
    if i % 7 == 0:
        kinds[-1] = 44  # fragment header last (nothing behind it notices a cut)
    if i % 11 == 3:
        kinds[0] = 44
    last = rng.choice(NOT_SKIPPABLE)
    if i % 13 == 5:
        last = rng.choice(SKIPPABLE)  # the chain goes on but the data does not
    out = b""
    for j, k in enumerate(kinds):
        nxt = kinds[j + 1] if j + 1 < n else last
        lb = rng.choice([0, 0, 0, 1, 1, 2, 3, rng.randrange(0, 6)])
        if i % 29 == 17 and j == 0:
            lb = rng.choice([255, 254, 31, rng.randrange(256)])
        ln = ext_header_len(k, lb)
        if k == 44:
            # second byte of a fragment header is reserved: anything
            out += bytes([nxt, rng.choice([0, 0, 1, 255, rng.randrange(256)])]) + rbytes(rng, 6)
        else:
            out += bytes([nxt, lb]) + rbytes(rng, ln - 2)
    return kinds[0], out


def skip_lines(nh, data, k):
    return ["io.skip.ext\t%d\t%s\t%d" % (nh, hx(data), k), "io.skip.all\t%d\t%s\t%d" % (nh, hx(data), k)]


def gen_skip_cases(rng, tier):
    nchain = 220 if tier == "quick" else 3000
    for i in range(nchain):
        nh, d = gen_skip_chain(rng, i)
        d = d + rbytes(rng, rng.choice([0, 0, 3, 9]))
        marks = []
        # header boundaries (reference walk) for sampling long chains
        pos, cur = 0, nh
        while cur in SKIPPABLE and pos + 2 <= len(d):
            marks.append(pos)
            marks.append(pos + 2)
            ln = ext_header_len(cur, d[pos + 1])
            cur = d[pos]
            pos += ln
        marks.append(pos)
        ks = ks_for(rng, len(d), marks)
        lines, runs = [], []
        for k in ks:
            lines += skip_lines(nh, d, k)
            runs.append([hx(d), k])
        # every truncation of the data (the reader reports end of file there, no injected error)
        cuts = range(0, len(d)) if len(d) <= 140 else [t for t in ks if t < len(d)]
        for t in cuts:
            lines += skip_lines(nh, d[:t], t + 1)
            runs.append([hx(d[:t]), t + 1])
        yield Case(lines, {"kind": "skip", "op": "skip", "nh": nh, "full": hx(d), "runs": runs, "dlen": len(d)})
    # every first next_header value on short random data, every k
    for nh in range(256):
        d = rbytes(rng, rng.choice([0, 1, 2, 7, 8, 9, 16, 24]))
        if d and rng.random() < 0.7:
            b = bytearray(d)
            b[0] = rng.choice(NOT_SKIPPABLE + SKIPPABLE)
            if len(b) > 1:
                b[1] = rng.choice([0, 0, 1, 2, b[1]])
            d = bytes(b)
        lines, runs = [], []
        for k in range(0, len(d) + 2):
            lines += skip_lines(nh, d, k)
            runs.append([hx(d), k])
        yield Case(lines, {"kind": "skip", "op": "skip", "nh": nh, "full": hx(d), "runs": runs, "dlen": len(d)})


def ref_skip(nh, data, k, all_headers):
    """reference result (python, written from the RFC header lengths): ('ok', next, pos) if every byte
    of the skipped header(s) lies in front of the failure position / the end of the data, else
    ('err', kind)."""
    avail = min(k, len(data))
    err = "err(io)" if k <= len(data) else "err(eof)"
    pos = 0
    while nh in SKIPPABLE:
        if nh == 44:
            ln = 8
        elif pos + 2 > avail:
            return ("err", err)  # not even the length byte is there
        else:
            ln = ext_header_len(nh, data[pos + 1])
        if pos + ln > avail:
            return ("err", err)
        nh = data[pos]
        pos += ln
        if not all_headers:
            break
    return ("ok", nh, pos)


_SK = re.compile(r"^(ok\((\d+)\)|err\(\w+\));pos=(\d+);post=(\d+)$")


def oracle_skip(c, out):
    nh = c.meta["nh"]
    for i, (dh, k) in enumerate(c.meta["runs"]):
        data = unhex(dh)
        for j, all_headers in ((0, False), (1, True)):
            o = c.impl[2 * i + j] or ""
            m = _SK.match(o)
            if not m:
                out.append(("skip-no-panic", {"line": c.lines[2 * i + j], "impl": o}))
                return
            res, pos, post = m.group(1), int(m.group(3)), int(m.group(4))
            want = ref_skip(nh, data, k, all_headers)
            if post != 0:
                out.append(("skip-call-after-error", {"line": c.lines[2 * i + j], "impl": o}))
                return
            if want[0] == "err":
                if res.startswith("ok"):
                    out.append(("skip-ok-on-cut-header", {"line": c.lines[2 * i + j], "impl": o, "available": min(k, len(data))}))
                    return
                if res != want[1]:
                    out.append(("skip-error-reported", {"line": c.lines[2 * i + j], "impl": o, "want": want[1]}))
                    return
            else:
                if res != "ok(%d)" % want[1] or pos != want[2]:
                    out.append(("skip-complete", {"line": c.lines[2 * i + j], "impl": o, "want": "ok(%d);pos=%d" % (want[1], want[2])}))
                    return


# ----------------------------------------------------------------------------------------------
# the same two functions over a reader whose j-th call of `seek` fails (io.skip.ext.sf / io.skip.all.sf)

SF_JS = (0, 1, 2, 3)


def skip_sf_lines(nh, data, k, j):
    return ["io.skip.ext.sf\t%d\t%s\t%d\t%d" % (nh, hx(data), k, j),
            "io.skip.all.sf\t%d\t%s\t%d\t%d" % (nh, hx(data), k, j)]


def skip_marks(nh, d):
    """offsets at which a call of the skip loop starts / ends on complete data (reference walk over the
    RFC header lengths): header start, behind the first read (1 byte for a fragment header, else 2), last
    byte of the header, header end"""
    marks = []
    pos, cur = 0, nh
    while cur in SKIPPABLE and pos + 2 <= len(d):
        ln = ext_header_len(cur, d[pos + 1])
        marks += [pos, pos + (1 if cur == 44 else 2), pos + ln - 1]
        cur = d[pos]
        pos += ln
    marks.append(pos)
    return marks


def gen_skip_sf_cases(rng, tier):
    nchain = 220 if tier == "quick" else 3000
    for i in range(nchain):
        nh, d = gen_skip_chain(rng, i)
        d = d + rbytes(rng, rng.choice([0, 0, 3, 9]))
        n = len(d)
        marks = skip_marks(nh, d)
        # read-failure positions: around every call boundary, and k >= len (then only the seek can fail
        # as long as the data is complete)
        ks = set([0, 1, 2, n, n + 1, n + 7, BIG])
        for m in marks:
            for dd in (-1, 0, 1):
                if 0 <= m + dd <= n + 1:
                    ks.add(m + dd)
        ks = sorted(ks)
        if len(ks) > 22:
            keep = set(ks[:8]) | set([n, n + 1, n + 7, BIG]) | set(rng.sample(ks, 10))
            ks = sorted(keep)
        lines, runs = [], []
        for k in ks:
            for j in SF_JS:
                lines += skip_sf_lines(nh, d, k, j)
                runs.append([hx(d), k, j])
        # truncated data (end of file instead of the injected error), cut at the call boundaries
        cuts = sorted(set(t for m in marks for t in (m - 1, m, m + 1) if 0 <= t < n))
        if len(cuts) > 8:
            cuts = sorted(rng.sample(cuts, 8))
        for t in cuts:
            for j in SF_JS:
                lines += skip_sf_lines(nh, d[:t], t + 1, j)
                runs.append([hx(d[:t]), t + 1, j])
        yield Case(lines, {"kind": "skipsf", "op": "skipsf", "nh": nh, "full": hx(d), "runs": runs, "dlen": n})
    # every first next_header value on short random data, every k, every j
    for nh in range(256):
        d = rbytes(rng, rng.choice([0, 1, 2, 7, 8, 9, 16, 24]))
        if d and rng.random() < 0.7:
            b = bytearray(d)
            b[0] = rng.choice(NOT_SKIPPABLE + SKIPPABLE)
            if len(b) > 1:
                b[1] = rng.choice([0, 0, 1, 2, b[1]])
            d = bytes(b)
        lines, runs = [], []
        for k in list(range(0, len(d) + 2)) + [BIG]:
            for j in SF_JS:
                lines += skip_sf_lines(nh, d, k, j)
                runs.append([hx(d), k, j])
        yield Case(lines, {"kind": "skipsf", "op": "skipsf", "nh": nh, "full": hx(d), "runs": runs, "dlen": len(d)})


class _RefFail(Exception):
    pass


class _RefReader:
    """python reference of the instrumented Read + Seek reader: positions >= min(k, len) cannot be read
    (injected error if k <= len, else end of file; everything in front of that point is consumed first),
    the seek call with index j (None: no call) fails and does not move, every other seek just moves"""

    def __init__(self, data, k, j):
        self.data, self.k, self.j = data, k, j
        self.pos = 0
        self.seeks = 0

    def read_exact(self, n):
        avail = min(self.k, len(self.data))
        if self.pos + n <= avail:
            b = self.data[self.pos:self.pos + n]
            self.pos += n
            return b
        self.pos = max(self.pos, avail)
        raise _RefFail("err(io)" if self.k <= len(self.data) else "err(eof)")

    def seek_current(self, n):
        index = self.seeks
        self.seeks += 1
        if index == self.j:
            raise _RefFail("err(seek)")
        self.pos += n


def _ref_skip_ext_calls(r, nh):
    """the calls of Ipv6Header::skip_header_extension in the order of the code (ipv6_header.rs):
    IPV6_FRAG: read_exact(1), rest_length = 7; AUTH: read_exact(2), rest_length = buf[1] * 4 + 6;
    hop-by-hop / routing / destination options / mobility / HIP / shim6: read_exact(2), rest_length =
    buf[1] * 8 + 6; anything else: Ok(next_header) without a call.
    Then seek(Current(rest_length - 1))?, read_exact(1)?, Ok(buf[0]); every `?` returns at once."""
    if nh == 44:
        buf = r.read_exact(1)
        rest = 7
    elif nh == 51:
        buf = r.read_exact(2)
        rest = buf[1] * 4 + 6
    elif nh in (0, 43, 60, 135, 139, 140):
        buf = r.read_exact(2)
        rest = buf[1] * 8 + 6
    else:
        return nh
    r.seek_current(rest - 1)
    r.read_exact(1)
    return buf[0]


def ref_skip_sf(nh, data, k, j, all_headers):
    """reference result of io.skip.ext.sf / io.skip.all.sf (j = None: no seek fails):
    (result text, final position, seek calls made); the first failing call ends the run."""
    r = _RefReader(data, k, j)
    try:
        if all_headers:
            # skip_all_header_extensions: loop { if is_skippable(nh) { nh = skip_header_extension(..)? } else { return Ok(nh) } }
            while nh in SKIPPABLE:
                nh = _ref_skip_ext_calls(r, nh)
        else:
            nh = _ref_skip_ext_calls(r, nh)
        return ("ok(%d)" % nh, r.pos, r.seeks)
    except _RefFail as e:
        return (str(e), r.pos, r.seeks)


def ref_headers_skipped(nh, data, pos_end, all_headers):
    """number of complete headers in front of pos_end (RFC walk)"""
    pos, n = 0, 0
    while nh in SKIPPABLE and pos < pos_end:
        ln = 8 if nh == 44 else ext_header_len(nh, data[pos + 1])
        nh = data[pos]
        pos += ln
        n += 1
        if not all_headers:
            break
    return n


_SKSF = re.compile(r"^(ok\((\d+)\)|err\(\w+\));pos=(\d+);seeks=(\d+);post=(\d+)$")


def oracle_skip_sf(c, out):
    nh = c.meta["nh"]
    for i, (dh, k, j) in enumerate(c.meta["runs"]):
        data = unhex(dh)
        for t, all_headers in ((0, False), (1, True)):
            line = c.lines[2 * i + t]
            o = c.impl[2 * i + t] or ""
            m = _SKSF.match(o)
            if not m:
                out.append(("skipsf-no-panic", {"line": line, "impl": o}))
                return
            res, pos, seeks, post = m.group(1), int(m.group(3)), int(m.group(4)), int(m.group(5))
            want = ref_skip_sf(nh, data, k, j, all_headers)
            # the two python references agree where both apply (no seek failure): call-order walk = RFC walk
            free = ref_skip_sf(nh, data, k, None, all_headers)
            rfc = ref_skip(nh, data, k, all_headers)
            if (rfc[0] == "ok") != free[0].startswith("ok") or (rfc[0] == "ok" and (free[0], free[1]) != ("ok(%d)" % rfc[1], rfc[2])) \
                    or (rfc[0] == "err" and free[0] != rfc[1]):
                out.append(("skipsf-references-disagree", {"line": line, "calls": list(free), "rfc": list(rfc)}))
                return
            if post != 0:
                out.append(("skipsf-call-after-error", {"line": line, "impl": o, "want": "%s;pos=%d;seeks=%d" % want}))
                return
            if want[0] == "err(seek)" and res != "err(seek)":
                # the failing seek is reached (every call in front of it succeeds) but its error is not what comes back
                out.append(("skipsf-seek-error-not-surfaced", {"line": line, "impl": o, "want": "%s;pos=%d;seeks=%d" % want}))
                return
            if res.startswith("ok"):
                # Ok only if every read and every seek succeeded: the RFC walk finds complete headers up to the
                # reported position, one seek per header, and the failing seek is not one of them
                if rfc[0] != "ok" or res != "ok(%d)" % rfc[1] or pos != rfc[2]:
                    out.append(("skipsf-ok-on-failed-call", {"line": line, "impl": o, "want": "%s;pos=%d;seeks=%d" % want}))
                    return
                hdrs = ref_headers_skipped(nh, data, pos, all_headers)
                if seeks != hdrs or j < seeks:
                    out.append(("skipsf-ok-on-failed-call", {"line": line, "impl": o, "headers": hdrs, "j": j}))
                    return
            if (res, pos, seeks) != want:
                out.append(("skipsf-result", {"line": line, "impl": o, "want": "%s;pos=%d;seeks=%d" % want}))
                return


# ----------------------------------------------------------------------------------------------
# PacketBuilder, every path (the configuration grammar and the python reference builder of C10)

BFILL = 0xAA
B_LV = [("none", "none"), ("eth", "none"), ("eth", "s"), ("eth", "d"), ("eth", "vs"), ("eth", "vd"), ("sll", "none")]
B_TP_CORE = ["udp", "tcp", "i4_t", "i6_t", "raw"]
B_TP_MORE = ["tcp_el", "tcph", "i4_raw", "i4_ereq", "i4_erep", "i6_raw", "i6_ereq", "i6_erep"]


def small_net(rng, nk, exts):
    """a C10 net section with small extension headers; IPv4 `ip(..)` headers mostly carry options"""
    n = B.r_net(rng, nk, exts)
    if n[0] == "ip4":
        if rng.random() < 0.8:
            n[1]["opts"] = rbytes(rng, 4 * rng.choice([1, 1, 2, 3, 5, 10]))
        if n[2] is not None and len(n[2][3]) > 16:
            n = ("ip4", n[1], n[2][:3] + (rbytes(rng, 4 * rng.choice([0, 1, 2])),))
    if n[0] == "ip6":
        e = n[2]
        for name in list(e):
            x = e[name]
            if name in ("hbh", "dst", "rt", "fd") and len(x[1]) > 22:
                e[name] = (x[0], rbytes(rng, 6 + 8 * rng.choice([0, 1, 2])))
            if name == "au" and len(x[3]) > 16:
                e[name] = x[:3] + (rbytes(rng, 4 * rng.choice([0, 1, 2])),)
    if n[0] == "arp" and len(n[4]) + len(n[5]) > 40 and rng.random() < 0.8:
        hl, pl = rng.choice([6, 0, 1, 8]), rng.choice([4, 0, 16])
        n = n[:4] + (rbytes(rng, hl), rbytes(rng, pl), rbytes(rng, hl), rbytes(rng, pl))
    return n


def layer_marks(c, ref, n_payload):
    """byte offsets at which a new layer starts in the complete output"""
    l = {"none": 0, "eth": 14, "sll": 16}[c["link"][0]]
    v = {"none": 0, "s": 4, "d": 8, "vs": 4, "vd": 8}[c["vlan"][0]]
    net = c["net"]
    ip = {"v4": 20, "v6": 40, "arp": 0}.get(net[0])
    if net[0] == "ip4":
        ip = 20 + len(net[1]["opts"])
    if net[0] == "ip6":
        ip = 40
    total = ref.size or 0
    return [l, l + v, l + v + ip, max(0, total - n_payload)]


def build_case(rng, c, p, slicebuf=True):
    """one configuration: `write` into a failing writer at every k and `write_to_slice` with every
    capacity; the reference (python, C10's `ref_build`) is stored in the meta data."""
    payload = B.payload_bytes(p)
    ref = B.ref_build(c, payload)
    if ref.status == "ctor" or ref.size is None:
        return None
    complete = ref.bytes if ref.status == "ok" else ref.written
    text, parg = B.cfg_text(c), B.payload_arg(p)
    marks = layer_marks(c, ref, len(payload))
    ks = ks_for(rng, len(complete), marks) + [BIG]
    if ref.size <= 400:
        caps = ks_for(rng, ref.size, marks + [len(complete)]) + [ref.size + 9]
    else:
        caps = sorted(set([0, 1, ref.size - 1, ref.size, ref.size + 1] + [m for m in marks if m <= ref.size]))
    sop = "build.slicebuf" if slicebuf else "build.slice"
    lines = ["build.failw\t%s\t%s\t%d" % (text, parg, k) for k in ks]
    lines += ["%s\t%s\t%s\t%d" % (sop, text, parg, cap) for cap in caps]
    meta = {
        "kind": "gbuild", "op": "build", "path": B.path_name(c), "payload": parg, "ks": ks, "caps": caps, "slicebuf": slicebuf,
        "status": ref.status, "complete": hx(complete), "size": ref.size, "err": ref.err, "len": len(complete),
    }
    return Case(lines, meta)


def gen_gbuild_cases(rng, tier):
    quick = tier == "quick"
    all_sets = []
    for m in range(64):
        s = [B.EXT6[i] for i in range(6) if m >> i & 1]
        if "fd" in s and "rt" not in s:
            continue
        all_sets.append(s)
    base_sets = [[], ["fr"], ["au"], ["hbh", "dst"], ["rt", "fd"], list(B.EXT6)]
    reps = 1 if quick else 6
    for rep in range(reps):
        ext_sets = base_sets + rng.sample([s for s in all_sets if s not in base_sets], 2 if quick else 8)
        nets = [("v4", None), ("v6", None), ("ip4", None), ("ip4au", None)] + [("ip6", s) for s in ext_sets]
        for lk, vk in B_LV:
            if lk != "none":
                for _ in range(2):
                    c = dict(link=B.r_link(rng, lk), vlan=B.r_vlan(rng, vk), net=small_net(rng, "arp", None), tp=("none",))
                    bc = build_case(rng, c, ("hex", b""))
                    if bc is not None:
                        yield bc
            for nk, exts in nets:
                tps = B_TP_CORE + rng.sample(B_TP_MORE, 1 if quick else 3)
                for tk in tps:
                    for _ in range(8):
                        c = dict(link=B.r_link(rng, lk), vlan=B.r_vlan(rng, vk), net=small_net(rng, nk, exts), tp=B.r_tp(rng, tk))
                        n = rng.choice([0, 1, 2, 3, 7, 8, rng.randrange(0, 24)])
                        bc = build_case(rng, c, ("hex", rbytes(rng, n)))
                        if bc is not None:
                            yield bc
                            break
    # payloads beyond the limit of the stack: `write` fails on its own behind the link / VLAN headers
    for lk, vk in B_LV:
        for nk, exts in (("v4", None), ("ip4au", None), ("v6", None), ("ip6", ["fr", "au"])):
            if not quick or rng.random() < 0.3:
                c = dict(link=B.r_link(rng, lk), vlan=B.r_vlan(rng, vk), net=small_net(rng, nk, exts), tp=B.r_tp(rng, rng.choice(["udp", "tcp", "raw", "i4_ereq"])))
                lim = B.stack_limit(c)
                if lim is None:
                    continue
                bc = build_case(rng, c, ("len", lim + rng.choice([1, 1, 2, 100]), rng.randrange(256)), slicebuf=False)
                if bc is not None:
                    yield bc


_GS = re.compile(r"^(.*?)(?:;buf=([0-9a-f]+|-);canary=(\w+))?$")


def oracle_gbuild(c, out):
    m = c.meta
    first = c.lines[0].split("\t")
    if len(first) != 4 or first[2] != m["payload"]:
        return  # a shrunk variant: the stored reference does not apply
    complete, size, status = unhex(m["complete"]), m["size"], m["status"]
    n = len(complete)
    own = "ok" if status == "ok" else "err(%s)" % m["err"]
    nk = len(m["ks"])
    # --- write into a failing writer
    for k, o, line in zip(m["ks"], c.impl[:nk], c.lines[:nk]):
        mm = _W.match(o or "")
        if not mm:
            out.append(("gbuild-write-no-panic", {"k": k, "impl": (o or "")[:300], "line": line[:300]}))
            return
        res, w, post = mm.group(1), unhex(mm.group(2)), int(mm.group(3))
        if post != 0:
            out.append(("gbuild-write-call-after-error", {"k": k, "impl": o[:300], "line": line[:300]}))
            return
        if w != complete[: min(k, n)]:
            out.append(("gbuild-write-prefix", {"k": k, "written": hx(w), "complete": m["complete"], "line": line[:300]}))
            return
        if k < n:
            if res != "err(io)":
                out.append(("gbuild-write-error-reported", {"k": k, "len": n, "got": res, "line": line[:300]}))
                return
        elif res != own:
            out.append(("gbuild-write-result", {"k": k, "len": n, "got": res, "want": own, "line": line[:300]}))
            return
    # --- write_to_slice
    for cap, o, line in zip(m["caps"], c.impl[nk:], c.lines[nk:]):
        mm = _GS.match(o or "")
        res, buf, canary = mm.group(1), mm.group(2), mm.group(3)
        if "!" in res or res in ("panic", "bad-op", "") or res.startswith("fault("):
            out.append(("gbuild-slice-no-panic", {"cap": cap, "impl": (o or "")[:300], "line": line[:300]}))
            return
        if m["slicebuf"]:
            if buf is None or canary != "intact" or len(unhex(buf)) != cap:
                out.append(("gbuild-slice-canary", {"cap": cap, "impl": (o or "")[:300], "line": line[:300]}))
                return
            buf = unhex(buf)
        if cap < size:
            if res != "err(Space(%d))" % size:
                out.append(("gbuild-slice-required-length", {"cap": cap, "got": res[:200], "want_required": size, "line": line[:300]}))
                return
            if m["slicebuf"]:
                # whatever was written is a prefix of the complete encoding, the rest is untouched
                j = 0
                while j < cap and j < n and buf[j] == complete[j]:
                    j += 1
                if any(x != BFILL for x in buf[j:]):
                    out.append(("gbuild-slice-partial-garbage", {"cap": cap, "buf": hx(buf), "complete": m["complete"], "line": line[:300]}))
                    return
        else:
            want = "ok(n=%d,len=%d,%s)" % (size, size, B.show_bytes(complete)) if status == "ok" else own
            if res != want:
                out.append(("gbuild-slice-result", {"cap": cap, "got": res[:300], "want": want[:300], "line": line[:300]}))
                return
            if m["slicebuf"] and buf != complete + bytes([BFILL]) * (cap - n):
                out.append(("gbuild-slice-content", {"cap": cap, "buf": hx(buf), "complete": m["complete"], "line": line[:300]}))
                return

# ----------------------------------------------------------------------------------------------


def gen_icmpv6_payload_cases(rng, tier):
    """Icmpv6Payload::write: the fixed NDP payload parts (0 / 8 / 16 / 16 / 32 bytes) at every failure position"""
    for kind, n in (("rs", 0), ("ra", 8), ("ns", 16), ("na", 16), ("rd", 32)):
        for _ in range(3 if tier == "quick" else 40):
            b = rbytes(rng, n)
            yield write_case("icmpv6payload", [kind, hx(b)], list(range(0, n + 2)),
                             {"len": n, "final": "ok", "ref": hx(b)})


def generate(rng, tier):
    yield from gen_write_cases(rng, tier)
    yield from gen_icmpv6_payload_cases(rng, tier)
    yield from gen_slice_cases(rng, tier)
    yield from gen_read_cases(rng, tier)
    yield from gen_limited_cases(rng, tier)
    yield from gen_build_cases(rng, tier)
    yield from gen_skip_cases(rng, tier)
    yield from gen_skip_sf_cases(rng, tier)
    yield from gen_gbuild_cases(rng, tier)


def is_trivial(c):
    k = c.meta.get("kind")
    if k == "limited":
        return len(c.meta["ops"]) < 2
    if k in ("read", "skip", "skipsf"):
        return c.meta["dlen"] < 2
    return c.meta.get("len", 2) < 2


def oracle(c):
    out = []
    for line, o in zip(c.lines, c.impl):
        if o and "!doors-differ" in o:
            out.append(("sibling-functions-differ", {"line": line[:300], "impl": o[:400]}))
    if out:
        return out
    try:
        k = c.meta.get("kind")
        if k == "write":
            oracle_write(c, out)
        elif k == "slice":
            oracle_slice(c, out)
        elif k == "read":
            oracle_read(c, out)
        elif k == "limited":
            oracle_limited(c, out)
        elif k == "bslice":
            oracle_build_slice(c, out)
        elif k == "skip":
            oracle_skip(c, out)
        elif k == "skipsf":
            oracle_skip_sf(c, out)
        elif k == "gbuild":
            oracle_gbuild(c, out)
    except (ValueError, IndexError, TypeError, AttributeError, KeyError) as e:
        out.append(("malformed-impl-output", {"impl": [str(x)[:200] for x in c.impl[:3]], "exc": repr(e)}))
    return out


def extra_coverage(cases):
    h = {}
    lines = 0
    for c in cases:
        key = "%s.%s" % (c.meta.get("kind"), c.meta.get("op", ""))
        h[key] = h.get(key, 0) + 1
        lines += len(c.lines)
    paths = set(c.meta["path"] for c in cases if c.meta.get("kind") == "gbuild")
    return {"values_per_operation": h, "fault_positions_run": lines, "general_builder_paths": len(paths)}
