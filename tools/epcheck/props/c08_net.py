"""C08 (network-layer half) - Ipv6Header, Ipv6FragmentHeader, Ipv4Header, IpAuthHeader, Ipv6RawExtHeader
survive encode -> decode unchanged; decode -> encode reproduces the bytes up to reserved bits.

The oracle is independent of the Lean model: reference encoders/decoders written here from the RFCs
(RFC 791, 8200, 4302), the RFC's reserved-bit positions, and impl-vs-impl relations
(serialisers agree, round trips, slice accessors = struct fields)."""
from ..core import Case, Failure
from ..gen import hx, rbytes, edge_int

ID = "C08"
RULE = (
    "net half: per type (ipv6, ipv6frag, ipv4, auth, rawext) >=2k generated values through the checked constructors "
    "(field extremes over-weighted; every IPv4 option length 0..40, ICV lengths 0..1016, ext payload lengths 6..2046 incl. extremes; "
    "out-of-range values expect err) with to_bytes/write/write_raw/header_len and from_slice(to_bytes ++ tail); >=2k byte strings per type "
    "(valid version/ihl/length bytes + random content + tail, reserved bits set; truncated / wrong version / ihl<5 / payload_len 0 / noise) with "
    "from_slice, re-encode, re-decode and the slice type's accessors; non-trivial = input at least as long as the minimal header or a value case"
)
EXPLANATION = (
    "net half theorems: EpModel/Props/C08Net.lean (encoders_agree, decode_encode, encode_decode up to maskReserved, slice_eq_struct per type); "
    "correspondence: net/{ipv6_header,ipv6_fragment_header,ipv4_header,ipv4_options,ip_auth_header,ipv6_raw_ext_header}(_slice).rs vs EpModel.Model.Codec.Net*; "
    "oracle: python reference codecs from RFC 791/8200/4302 + reserved-bit table + round-trip equalities on the implementation outputs"
)
ASSUMPTIONS = ["values are built through the crate's public constructors/fields only (private buffers behind the announced length stay zero)"]

TYPES = ("ipv6", "ipv6frag", "ipv4", "auth", "rawext")

# reserved bits per type: byte offset -> mask (RFC 8200 4.5; RFC 791 3.1 flags bit 0; RFC 4302 2.3)
RESERVED = {
    "ipv6": {},
    "ipv6frag": {1: 0xFF, 3: 0x06},
    "ipv4": {6: 0x80},
    "auth": {2: 0xFF, 3: 0xFF},
    "rawext": {},
}
MIN_LEN = {"ipv6": 40, "ipv6frag": 8, "ipv4": 20, "auth": 12, "rawext": 8}
LAYER = {"ipv6": "Ipv6Header", "ipv6frag": "Ipv6FragHeader", "ipv4": "Ipv4Header", "auth": "IpAuthHeader", "rawext": "Ipv6ExtHeader"}


# ----------------------------------------------------------------------------------------------
# reference codecs (python, from the RFCs)


def rfc1071(data):
    s = 0
    d = bytes(data)
    if len(d) % 2:
        d += b"\0"
    for i in range(0, len(d), 2):
        s += (d[i] << 8) | d[i + 1]
    while s >> 16:
        s = (s & 0xFFFF) + (s >> 16)
    return (~s) & 0xFFFF


def unhex(s):
    return b"" if s == "-" else bytes.fromhex(s)


def wf(t, f):
    """None if the value is representable, otherwise the expected error line."""
    if t == "ipv6":
        if f["fl"] > 0xFFFFF:
            return "err(toobig(actual=%d,max=1048575,type=Ipv6FlowLabel))" % f["fl"]
    elif t == "ipv6frag":
        if f["fo"] > 0x1FFF:
            return "err(toobig(actual=%d,max=8191,type=IpFragmentOffset))" % f["fo"]
    elif t == "ipv4":
        if f["dscp"] > 63:
            return "err(toobig(actual=%d,max=63,type=IpDscp))" % f["dscp"]
        if f["ecn"] > 3:
            return "err(toobig(actual=%d,max=3,type=IpEcn))" % f["ecn"]
        if f["fo"] > 0x1FFF:
            return "err(toobig(actual=%d,max=8191,type=IpFragmentOffset))" % f["fo"]
        n = len(unhex(f["opts"]))
        if n > 40 or n % 4:
            return "err(badoptlen(%d))" % n
    elif t == "auth":
        n = len(unhex(f["icv"]))
        if n > 1016:
            return "err(icv(TooBig(%d)))" % n
        if n % 4:
            return "err(icv(Unaligned(%d)))" % n
    elif t == "rawext":
        n = len(unhex(f["payload"]))
        if n < 6:
            return "err(extlen(TooSmall(%d)))" % n
        if n > 2046:
            return "err(extlen(TooBig(%d)))" % n
        if (n + 2) % 8:
            return "err(extlen(Unaligned(%d)))" % n
    return None


def ref_encode(t, f, ck=None):
    if t == "ipv6":
        w = (6 << 28) | (f["tc"] << 20) | f["fl"]
        return w.to_bytes(4, "big") + f["plen"].to_bytes(2, "big") + bytes([f["nh"], f["hop"]]) + unhex(f["src"]) + unhex(f["dst"])
    if t == "ipv6frag":
        w = (f["fo"] << 3) | f["mf"]
        return bytes([f["nh"], 0]) + w.to_bytes(2, "big") + f["id"].to_bytes(4, "big")
    if t == "ipv4":
        opts = unhex(f["opts"])
        ihl = 5 + len(opts) // 4
        fl = (f["df"] << 14) | (f["mf"] << 13) | f["fo"]
        c = f["ck"] if ck is None else ck
        return (
            bytes([(4 << 4) | ihl, (f["dscp"] << 2) | f["ecn"]])
            + f["tlen"].to_bytes(2, "big")
            + f["id"].to_bytes(2, "big")
            + fl.to_bytes(2, "big")
            + bytes([f["ttl"], f["proto"]])
            + c.to_bytes(2, "big")
            + unhex(f["src"])
            + unhex(f["dst"])
            + opts
        )
    if t == "auth":
        icv = unhex(f["icv"])
        return bytes([f["nh"], len(icv) // 4 + 1, 0, 0]) + f["spi"].to_bytes(4, "big") + f["seq"].to_bytes(4, "big") + icv
    if t == "rawext":
        p = unhex(f["payload"])
        return bytes([f["nh"], (len(p) + 2) // 8 - 1]) + p
    raise ValueError(t)


def ipv4_ref_checksum(f):
    return rfc1071(ref_encode("ipv4", f, ck=0))


def len_err(req, ln, t):
    return "err(len(req=%d,len=%d,src=Slice,layer=%s,off=0))" % (req, ln, LAYER[t])


def ref_decode(t, d):
    """('ok', fields, header_len) or ('err', line)"""
    n = len(d)
    if n < MIN_LEN[t]:
        return ("err", len_err(MIN_LEN[t], n, t))
    if t == "ipv6":
        if d[0] >> 4 != 6:
            return ("err", "err(version(%d))" % (d[0] >> 4))
        w = int.from_bytes(d[0:4], "big")
        return ("ok", {"tc": (w >> 20) & 0xFF, "fl": w & 0xFFFFF, "plen": int.from_bytes(d[4:6], "big"), "nh": d[6], "hop": d[7], "src": hx(d[8:24]), "dst": hx(d[24:40])}, 40)
    if t == "ipv6frag":
        w = int.from_bytes(d[2:4], "big")
        return ("ok", {"nh": d[0], "fo": w >> 3, "mf": w & 1, "id": int.from_bytes(d[4:8], "big")}, 8)
    if t == "ipv4":
        if d[0] >> 4 != 4:
            return ("err", "err(version(%d))" % (d[0] >> 4))
        ihl = d[0] & 0xF
        if ihl < 5:
            return ("err", "err(ihl(%d))" % ihl)
        if n < ihl * 4:
            return ("err", len_err(ihl * 4, n, t))
        w = int.from_bytes(d[6:8], "big")
        return (
            "ok",
            {
                "dscp": d[1] >> 2, "ecn": d[1] & 3, "tlen": int.from_bytes(d[2:4], "big"), "id": int.from_bytes(d[4:6], "big"),
                "df": (w >> 14) & 1, "mf": (w >> 13) & 1, "fo": w & 0x1FFF, "ttl": d[8], "proto": d[9], "ck": int.from_bytes(d[10:12], "big"),
                "src": hx(d[12:16]), "dst": hx(d[16:20]), "opts": hx(d[20 : ihl * 4]),
            },
            ihl * 4,
        )
    if t == "auth":
        if d[1] == 0:
            return ("err", "err(zeropayloadlen)")
        ln = (d[1] + 2) * 4
        if n < ln:
            return ("err", len_err(ln, n, t))
        return ("ok", {"nh": d[0], "spi": int.from_bytes(d[4:8], "big"), "seq": int.from_bytes(d[8:12], "big"), "icv": hx(d[12:ln])}, ln)
    if t == "rawext":
        ln = (d[1] + 1) * 8
        if n < ln:
            return ("err", len_err(ln, n, t))
        return ("ok", {"nh": d[0], "payload": hx(d[2:ln])}, ln)
    raise ValueError(t)


HEX_FIELDS = ("src", "dst", "opts", "icv", "payload")
FIELD_ORDER = {
    "ipv6": ["tc", "fl", "plen", "nh", "hop", "src", "dst"],
    "ipv6frag": ["nh", "fo", "mf", "id"],
    "ipv4": ["dscp", "ecn", "tlen", "id", "df", "mf", "fo", "ttl", "proto", "ck", "src", "dst", "opts"],
    "auth": ["nh", "spi", "seq", "icv"],
    "rawext": ["nh", "payload"],
}


def fields_str(t, f):
    return ",".join("%s=%s" % (k, f[k]) for k in FIELD_ORDER[t])


def mask_reserved(t, d):
    d = bytearray(d)
    for i, m in RESERVED[t].items():
        if i < len(d):
            d[i] &= 0xFF ^ m
    return bytes(d)


# ----------------------------------------------------------------------------------------------
# parsing of canonical output lines


def split_top(s):
    parts, depth, cur = [], 0, []
    for ch in s:
        if ch == "(":
            depth += 1
        elif ch == ")":
            depth -= 1
        if ch == "," and depth == 0:
            parts.append("".join(cur))
            cur = []
        else:
            cur.append(ch)
    if cur:
        parts.append("".join(cur))
    return parts


def parse_ok(s):
    """'ok(k=v,...)' -> dict (values are strings); None if not of that form"""
    if s is None or not s.startswith("ok(") or not s.endswith(")"):
        return None
    out = {}
    for p in split_top(s[3:-1]):
        if "=" not in p:
            return None
        k, v = p.split("=", 1)
        out[k] = v
    return out


# ----------------------------------------------------------------------------------------------
# generators


def _edge8(rng):
    return edge_int(rng, 8)


def gen_value(rng, t, i):
    """returns field dict (possibly not representable)"""
    bad = rng.random() < 0.06
    if t == "ipv6":
        fl = edge_int(rng, 20)
        if bad:
            fl = rng.choice([1 << 20, (1 << 20) + 1, (1 << 32) - 1, rng.randrange(1 << 20, 1 << 32)])
        return {"tc": _edge8(rng), "fl": fl, "plen": edge_int(rng, 16), "nh": _edge8(rng), "hop": _edge8(rng), "src": hx(rbytes(rng, 16)), "dst": hx(rbytes(rng, 16))}
    if t == "ipv6frag":
        fo = edge_int(rng, 13)
        if bad:
            fo = rng.choice([8192, 8193, 65535, rng.randrange(8192, 65536)])
        return {"nh": _edge8(rng), "fo": fo, "mf": rng.randrange(2), "id": edge_int(rng, 32)}
    if t == "ipv4":
        nopt = (i % 11) * 4
        f = {
            "dscp": edge_int(rng, 6), "ecn": edge_int(rng, 2), "tlen": edge_int(rng, 16), "id": edge_int(rng, 16), "df": rng.randrange(2), "mf": rng.randrange(2),
            "fo": edge_int(rng, 13), "ttl": _edge8(rng), "proto": _edge8(rng), "ck": edge_int(rng, 16), "src": hx(rbytes(rng, 4)), "dst": hx(rbytes(rng, 4)),
            "opts": hx(rbytes(rng, nopt)),
        }
        if bad:
            which = rng.randrange(4)
            if which == 0:
                f["dscp"] = rng.choice([64, 65, 255, rng.randrange(64, 256)])
            elif which == 1:
                f["ecn"] = rng.choice([4, 5, 255, rng.randrange(4, 256)])
            elif which == 2:
                f["fo"] = rng.choice([8192, 65535, rng.randrange(8192, 65536)])
            else:
                f["opts"] = hx(rbytes(rng, rng.choice([1, 2, 3, 5, 39, 41, 42, 43, 44, 48, 60, 64, rng.randrange(1, 100)])))
        if wf(t, f) is None and rng.random() < 0.5:
            f["ck"] = ipv4_ref_checksum(f)
        return f
    if t == "auth":
        r = rng.random()
        if r < 0.25:
            n = rng.choice([0, 4, 8, 12, 1008, 1012, 1016])
        elif r < 0.8:
            n = rng.randrange(0, 20) * 4
        else:
            n = rng.randrange(0, 255) * 4
        if bad:
            n = rng.choice([1, 2, 3, 5, 1015, 1017, 1018, 1019, 1020, 1024, 2000, rng.randrange(1, 1100)])
        return {"nh": _edge8(rng), "spi": edge_int(rng, 32), "seq": edge_int(rng, 32), "icv": hx(rbytes(rng, n))}
    if t == "rawext":
        r = rng.random()
        if r < 0.25:
            n = rng.choice([6, 14, 22, 2030, 2038, 2046])
        elif r < 0.8:
            n = 6 + 8 * rng.randrange(0, 12)
        else:
            n = 6 + 8 * rng.randrange(0, 256)
        if bad:
            n = rng.choice([0, 1, 5, 7, 8, 13, 15, 2045, 2047, 2048, 2054, 2062, 3000, rng.randrange(0, 2100)])
        return {"nh": _edge8(rng), "payload": hx(rbytes(rng, n))}
    raise ValueError(t)


def value_case(t, f, tail):
    args = "\t".join(str(f[k]) for k in FIELD_ORDER[t])
    return Case(
        ["enc.%s.to_bytes\t%s" % (t, args), "enc.%s.rt\t%s\t%s" % (t, args, hx(tail))],
        {"k": "val", "t": t, "f": f, "tail": hx(tail)},
    )


def gen_bytes(rng, t):
    """a byte string, mostly accepted"""
    tail = rbytes(rng, rng.choice([0, 0, 1, 2, 7, 8, rng.randrange(0, 40)]))
    r = rng.random()
    if t == "ipv6":
        d = bytearray(rbytes(rng, 40))
        d[0] = (6 << 4) | (d[0] & 0xF)
        if r < 0.05:
            d[0] = (rng.choice([0, 4, 5, 7, 15]) << 4) | (d[0] & 0xF)
    elif t == "ipv6frag":
        d = bytearray(rbytes(rng, 8))
        if r < 0.5:
            d[1] = rng.choice([0, 1, 0xFF, rng.randrange(256)])
            d[3] = (d[3] & 0xF9) | (rng.randrange(4) << 1)
    elif t == "ipv4":
        ihl = rng.choice([5, 5, 6, 7, 14, 15, rng.randrange(5, 16)])
        d = bytearray(rbytes(rng, ihl * 4))
        d[0] = (4 << 4) | ihl
        d[6] = (d[6] & 0x1F) | (rng.randrange(8) << 5)
        if r < 0.04:
            d[0] = (rng.choice([0, 3, 5, 6, 15]) << 4) | ihl
        elif r < 0.08:
            d[0] = (4 << 4) | rng.randrange(0, 5)
    elif t == "auth":
        pl = rng.choice([1, 1, 2, 3, 4, 254, 255, rng.randrange(1, 20), rng.randrange(1, 256)])
        d = bytearray(rbytes(rng, (pl + 2) * 4))
        d[1] = pl
        if rng.random() < 0.5:
            d[2] = rng.choice([0, 0xFF, rng.randrange(256)])
            d[3] = rng.choice([0, 0xFF, rng.randrange(256)])
        if r < 0.04:
            d[1] = 0
    elif t == "rawext":
        hl = rng.choice([0, 0, 1, 2, 254, 255, rng.randrange(0, 12), rng.randrange(0, 256)])
        d = bytearray(rbytes(rng, (hl + 1) * 8))
        d[1] = hl
    else:
        raise ValueError(t)
    d = bytes(d) + tail
    r2 = rng.random()
    if r2 < 0.06:
        d = d[: rng.randrange(0, len(d) + 1)]
    elif r2 < 0.08:
        d = d[: max(0, len(d) - len(tail) - 1)]
    return d


def xvalue_case(start, auth, tail):
    args = "none" if auth is None else "\t".join(str(auth[k]) for k in FIELD_ORDER["auth"])
    return Case(
        ["enc.ipv4exts.write\t%d\t%s" % (start, args), "enc.ipv4exts.rt\t%d\t%s\t%s" % (start, args, hx(tail))],
        {"k": "xval", "start": start, "auth": auth, "tail": hx(tail)},
    )


def xbytes_case(start, d):
    h = hx(d)
    return Case(
        ["enc.ipv4exts.from_slice\t%d\t%s" % (start, h), "enc.ipv4exts.redec\t%d\t%s" % (start, h), "enc.ipv4extsslice.from_slice\t%d\t%s" % (start, h)],
        {"k": "xbytes", "start": start, "data": h},
    )


def ref_exts_decode(start, d):
    """expected canonical line of Ipv4Extensions::from_slice(start, d), and (fields|None, header_len) if ok"""
    if start != 51:
        return "ok(auth=none,next=%d,rest=(0,%d))" % (start, len(d)), (None, 0)
    r = ref_decode("auth", d)
    if r[0] == "err":
        return r[1], None
    _, f, hl = r
    return "ok(auth=(%s),next=%d,rest=(%d,%d))" % (fields_str("auth", f), f["nh"], hl, len(d) - hl), (f, hl)


def bytes_case(t, d):
    h = hx(d)
    return Case(
        ["enc.%s.from_slice\t%s" % (t, h), "enc.%s.redec\t%s" % (t, h), "enc.%sslice.from_slice\t%s" % (t, h)],
        {"k": "bytes", "t": t, "data": h},
    )


def generate(rng, tier):
    nval = 2400 if tier == "quick" else 30000
    nbytes = 2600 if tier == "quick" else 30000
    nnoise = 300 if tier == "quick" else 5000
    for t in TYPES:
        # hand-written extremes first
        for f in EXTREMES[t]:
            yield value_case(t, f, b"")
            yield value_case(t, f, b"\xff\x00\xff")
        for i in range(nval):
            f = gen_value(rng, t, i)
            tail = rbytes(rng, rng.choice([0, 0, 1, 3, 8, rng.randrange(0, 30)]))
            yield value_case(t, f, tail)
        for _ in range(nbytes):
            yield bytes_case(t, gen_bytes(rng, t))
        # malformed stream: noise of all small lengths, and all truncations of one valid header
        for n in range(0, 64):
            yield bytes_case(t, rbytes(rng, n))
        for _ in range(nnoise):
            yield bytes_case(t, rbytes(rng, rng.randrange(0, 120)))
        base = gen_bytes(rng, t)
        for cut in range(0, min(len(base), 80) + 1):
            yield bytes_case(t, base[:cut])
    # complete enumeration of small domains: IPv4 byte 0 and byte 6, fragment header byte 3, AH/ext length byte
    body = rbytes(rng, 70, style=None)
    for b0 in range(256):
        d = bytearray(body[:60])
        d[0] = b0
        yield bytes_case("ipv4", bytes(d))
        yield bytes_case("ipv6", bytes(d))
    for b6 in range(256):
        d = bytearray(body[:24])
        d[0] = 0x45
        d[6] = b6
        yield bytes_case("ipv4", bytes(d))
        d = bytearray(body[:9])
        d[3] = b6
        yield bytes_case("ipv6frag", bytes(d))
        d[3] = 0
        d[1] = b6
        yield bytes_case("ipv6frag", bytes(d))
    big = rbytes(rng, 2060)
    for ln in range(256):
        d = bytearray(big)
        d[1] = ln
        yield bytes_case("auth", bytes(d[: (ln + 2) * 4 + 1]))
        yield bytes_case("auth", bytes(d[: max(0, (ln + 2) * 4 - 1)]))
        yield bytes_case("rawext", bytes(d[: (ln + 1) * 8 + 1]))
        yield bytes_case("rawext", bytes(d[: (ln + 1) * 8 - 1]))
    # composite Ipv4Extensions (optional authentication header selected by protocol number 51)
    nx = 1500 if tier == "quick" else 15000
    for i in range(nx):
        start = rng.choice([51, 51, 51, 51, 50, 52, 0, 6, 17, 255, rng.randrange(256)])
        auth = None if rng.random() < 0.25 else gen_value(rng, "auth", i)
        yield xvalue_case(start, auth, rbytes(rng, rng.choice([0, 0, 1, 3, 12, 16, rng.randrange(0, 40)])))
    for f in EXTREMES["auth"]:
        yield xvalue_case(51, f, b"")
        yield xvalue_case(50, f, b"\x01")
    for i in range(nx):
        start = rng.choice([51, 51, 51, 51, 51, 50, 52, 0, 6, 17, 255, rng.randrange(256)])
        yield xbytes_case(start, gen_bytes(rng, "auth") if rng.random() < 0.9 else rbytes(rng, rng.randrange(0, 60)))
    for n in range(0, 1021, 4):
        yield value_case("auth", {"nh": 51, "spi": 1, "seq": 2, "icv": hx(big[:n])}, b"\x01")
    for n in range(6, 2047, 8):
        yield value_case("rawext", {"nh": 60, "payload": hx(big[:n])}, b"\x01")


EXTREMES = {
    "ipv6": [
        {"tc": 255, "fl": 0xFFFFF, "plen": 65535, "nh": 255, "hop": 255, "src": "ff" * 16, "dst": "ff" * 16},
        {"tc": 0, "fl": 0, "plen": 0, "nh": 0, "hop": 0, "src": "00" * 16, "dst": "00" * 16},
        {"tc": 0xA5, "fl": 0xF0F0F, "plen": 0x1234, "nh": 17, "hop": 64, "src": "000102030405060708090a0b0c0d0e0f", "dst": "f0f1f2f3f4f5f6f7f8f9fafbfcfdfeff"},
        {"tc": 0x0F, "fl": 0x00001, "plen": 1, "nh": 1, "hop": 1, "src": "00" * 15 + "01", "dst": "80" + "00" * 15},
        {"tc": 0xF0, "fl": 0x80000, "plen": 0x8000, "nh": 128, "hop": 128, "src": "ff" * 16, "dst": "00" * 16},
    ],
    "ipv6frag": [
        {"nh": 255, "fo": 8191, "mf": 1, "id": 0xFFFFFFFF},
        {"nh": 0, "fo": 0, "mf": 0, "id": 0},
        {"nh": 44, "fo": 1, "mf": 0, "id": 1},
        {"nh": 44, "fo": 0, "mf": 1, "id": 0x80000000},
        {"nh": 6, "fo": 4096, "mf": 1, "id": 0x01020304},
        {"nh": 6, "fo": 0x1555, "mf": 0, "id": 0xFFFFFFFE},
    ],
    "ipv4": [
        {"dscp": 63, "ecn": 3, "tlen": 65535, "id": 65535, "df": 1, "mf": 1, "fo": 8191, "ttl": 255, "proto": 255, "ck": 65535, "src": "ffffffff", "dst": "fffffffe", "opts": "ff" * 40},
        {"dscp": 0, "ecn": 0, "tlen": 0, "id": 0, "df": 0, "mf": 0, "fo": 0, "ttl": 0, "proto": 0, "ck": 0, "src": "00000000", "dst": "00000000", "opts": "-"},
        {"dscp": 1, "ecn": 2, "tlen": 20, "id": 1, "df": 1, "mf": 0, "fo": 0, "ttl": 64, "proto": 6, "ck": 0, "src": "0a000001", "dst": "0a000002", "opts": "-"},
        {"dscp": 32, "ecn": 1, "tlen": 60, "id": 0x8000, "df": 0, "mf": 1, "fo": 0x1000, "ttl": 1, "proto": 17, "ck": 0x8000, "src": "c0a80001", "dst": "e0000001", "opts": "01" * 4},
        {"dscp": 21, "ecn": 3, "tlen": 0x0102, "id": 0x0304, "df": 1, "mf": 1, "fo": 0x0506, "ttl": 7, "proto": 8, "ck": 0x090A, "src": "0b0c0d0e", "dst": "0f101112", "opts": "131415161718191a"},
    ],
    "auth": [
        {"nh": 255, "spi": 0xFFFFFFFF, "seq": 0xFFFFFFFF, "icv": "ff" * 1016},
        {"nh": 0, "spi": 0, "seq": 0, "icv": "-"},
        {"nh": 6, "spi": 1, "seq": 2, "icv": "01020304"},
        {"nh": 6, "spi": 0x80000000, "seq": 0x01020304, "icv": "00" * 1012},
    ],
    "rawext": [
        {"nh": 255, "payload": "ff" * 2046},
        {"nh": 0, "payload": "00" * 6},
        {"nh": 60, "payload": "010203040506"},
        {"nh": 43, "payload": "ab" * 2038},
        {"nh": 43, "payload": "cd" * 14},
    ],
}
for _t in ("ipv4",):
    for _f in list(EXTREMES[_t]):
        _g = dict(_f)
        _g["ck"] = ipv4_ref_checksum(_g)
        EXTREMES[_t].append(_g)


def is_trivial(c):
    if c.meta.get("k") == "bytes":
        return len(unhex(c.meta["data"])) < MIN_LEN[c.meta["t"]]
    return False


# ----------------------------------------------------------------------------------------------
# oracle


def _oracle_value(c, out):
    t, f, tail = c.meta["t"], c.meta["f"], unhex(c.meta["tail"])
    o0, o1 = c.impl[0], c.impl[1]
    expect_err = wf(t, f)
    if expect_err is not None:
        if o0 != expect_err or o1 != expect_err:
            out.append(("constructor-range", {"want": expect_err, "got": [o0, o1]}))
        return
    d = parse_ok(o0)
    if d is None or "bytes" not in d:
        out.append(("constructor-range", {"want": "ok(...)", "got": o0}))
        return
    b = unhex(d["bytes"])
    ref = ref_encode(t, f)
    if len(b) != int(d["len"]) or len(b) != len(ref):
        out.append(("serialisers-length", {"bytes_len": len(b), "header_len": d["len"], "want": len(ref)}))
    if b != ref:
        out.append(("rfc-encode", {"got": hx(b), "want": hx(ref)}))
    # write (into a Vec) agrees with to_bytes; for IPv4 `write` recomputes the checksum
    if t == "ipv4":
        refck = ipv4_ref_checksum(f)
        w = b if d["write"] == "same" else unhex(d["write"])
        want_w = b[:10] + refck.to_bytes(2, "big") + b[12:]
        if w != want_w:
            out.append(("serialisers-agree", {"write": hx(w), "want": hx(want_w)}))
        if (d["write"] == "same") != (refck == f["ck"]):
            out.append(("serialisers-agree", {"write": d["write"], "stored_ck": f["ck"], "ref_ck": refck}))
        if d["write_raw"] != "same":
            out.append(("serialisers-agree", {"write_raw": d["write_raw"], "to_bytes": hx(b)}))
        if int(d["calc"]) != refck:
            out.append(("ipv4-checksum", {"got": d["calc"], "want": refck}))
        if int(d["ihl"]) * 4 != len(ref):
            out.append(("serialisers-length", {"ihl": d["ihl"], "want": len(ref) // 4}))
    else:
        if d["write"] != "same":
            out.append(("serialisers-agree", {"write": d["write"], "to_bytes": hx(b)}))
    if t == "ipv6frag" and int(d["frag"]) != (1 if (f["mf"] or f["fo"]) else 0):
        out.append(("is-fragmenting", {"got": d["frag"]}))
    if t == "auth" and d["icv"] != f["icv"]:
        out.append(("accessor", {"raw_icv": d["icv"][:80], "want": f["icv"][:80]}))
    if t == "rawext" and d["payload"] != f["payload"]:
        out.append(("accessor", {"payload": d["payload"][:80], "want": f["payload"][:80]}))
    # decode(encode(v) ++ tail) = (v, tail)
    want_rt = "ok(%s,rest=(%d,%d))" % (fields_str(t, f), len(b), len(tail))
    if o1 != want_rt:
        out.append(("decode-encode", {"got": _short(o1), "want": _short(want_rt)}))


def _short(s):
    s = str(s)
    return s if len(s) < 700 else s[:340] + " ... " + s[-340:]


SLICE_ACCESSORS = {
    "ipv6": lambda f: dict(f, version=6, ecn=f["tc"] & 3, dscp=f["tc"] >> 2, header_len=40),
    "ipv6frag": lambda f: dict(f, frag=1 if (f["mf"] or f["fo"]) else 0),
    "ipv4": lambda f: dict({k: v for k, v in f.items() if k != "opts"}, version=4, frag=1 if (f["mf"] or f["fo"]) else 0),
    "auth": lambda f: {k: v for k, v in f.items() if k != "icv"},
    "rawext": lambda f: {k: v for k, v in f.items() if k != "payload"},
}


def _oracle_bytes(c, out):
    t, data = c.meta["t"], unhex(c.meta["data"])
    o0, o1, o2 = c.impl[0], c.impl[1], c.impl[2]
    ref = ref_decode(t, data)
    if ref[0] == "err":
        if o0 != ref[1]:
            out.append(("rfc-decode", {"got": _short(o0), "want": ref[1]}))
        if o1 != o0 or o2 != o0:
            out.append(("slice-eq-struct", {"from_slice": _short(o0), "redec": _short(o1), "slice": _short(o2)}))
        return
    _, f, hl = ref
    want = "ok(%s,rest=(%d,%d))" % (fields_str(t, f), hl, len(data) - hl)
    if o0 != want:
        out.append(("rfc-decode", {"got": _short(o0), "want": _short(want)}))
    d0 = parse_ok(o0)
    if d0 is None:
        return
    # re-encode: original header bytes except reserved bits; decodes to the same value again
    d1 = parse_ok(o1)
    if d1 is None or "bytes" not in d1:
        out.append(("encode-decode", {"got": _short(o1)}))
    else:
        rest = d0.get("rest", "(0,0)")
        try:
            off = int(rest[1:-1].split(",")[0])
        except ValueError:
            off = hl
        b = unhex(d1["bytes"])
        orig = data[:off]
        if len(b) != len(orig):
            out.append(("encode-decode", {"got_len": len(b), "consumed": off}))
        else:
            diff = [i for i in range(len(b)) if b[i] != orig[i]]
            bad = [i for i in diff if (b[i] ^ orig[i]) & (0xFF ^ RESERVED[t].get(i, 0))]
            notcleared = [i for i in RESERVED[t] if i < len(b) and b[i] & RESERVED[t][i]]
            if bad or notcleared:
                out.append(("encode-decode", {"differs_outside_reserved_at": bad[:8], "reserved_not_cleared_at": notcleared, "got": _short(hx(b)), "orig": _short(hx(orig))}))
        if d1.get("again") != o0:
            out.append(("redecode-same", {"again": _short(d1.get("again")), "first": _short(o0)}))
    # slice type: same window, accessors equal the struct fields, to_header equal
    d2 = parse_ok(o2)
    if d2 is None:
        out.append(("slice-eq-struct", {"slice": _short(o2), "struct": _short(o0)}))
        return
    probs = []
    if d2.get("slice") != "(0,%d)" % (len(data) - int(d0["rest"][1:-1].split(",")[1])):
        probs.append("slice window %s" % d2.get("slice"))
    struct_fields = {k: d0[k] for k in FIELD_ORDER[t]}
    if d2.get("hdr") != "(%s)" % ",".join("%s=%s" % (k, struct_fields[k]) for k in FIELD_ORDER[t]):
        probs.append("to_header")
    typed = {k: (v if k in HEX_FIELDS else int(v)) for k, v in struct_fields.items()}
    for k, v in SLICE_ACCESSORS[t](typed).items():
        if str(d2.get(k)) != str(v):
            probs.append("%s=%s want %s" % (k, d2.get(k), v))
    if t == "ipv4":
        nopt = len(unhex(struct_fields["opts"]))
        if d2.get("opts") != "(20,%d)" % nopt:
            probs.append("opts window %s" % d2.get("opts"))
        if str(d2.get("ihl")) != str(5 + nopt // 4):
            probs.append("ihl %s" % d2.get("ihl"))
        tl, hlen = int(struct_fields["tlen"]), 20 + nopt
        wantpl = "ok(%d)" % (tl - hlen) if tl >= hlen else "err(len(req=%d,len=%d,src=Ipv4HeaderTotalLen,layer=Ipv4Packet,off=0))" % (hlen, tl)
        if d2.get("plen") != wantpl:
            probs.append("payload_len %s want %s" % (d2.get("plen"), wantpl))
    if t == "auth" and d2.get("icv") != "(12,%d)" % len(unhex(struct_fields["icv"])):
        probs.append("icv window %s" % d2.get("icv"))
    if t == "rawext" and d2.get("payload") != "(2,%d)" % len(unhex(struct_fields["payload"])):
        probs.append("payload window %s" % d2.get("payload"))
    if probs:
        out.append(("slice-eq-struct", {"problems": probs[:6], "slice": _short(o2), "struct": _short(o0)}))


def _oracle_xvalue(c, out):
    start, auth, tail = c.meta["start"], c.meta["auth"], unhex(c.meta["tail"])
    o0, o1 = c.impl[0], c.impl[1]
    if auth is not None:
        e = wf("auth", auth)
        if e is not None:
            if o0 != e or o1 != e:
                out.append(("constructor-range", {"want": e, "got": [o0, o1]}))
            return
    if auth is not None and start != 51:
        want0 = "err(notreferenced(51)),len=%d,next=err(notreferenced(51))" % (12 + len(unhex(auth["icv"])))
        if o0 != want0 or o1 != "err(notreferenced(51))":
            out.append(("exts-not-referenced", {"got": [_short(o0), _short(o1)], "want": want0}))
        return
    ref = b"" if auth is None else ref_encode("auth", auth)
    want0 = "ok(bytes=%s,len=%d,next=ok(%d))" % (hx(ref), len(ref), start if auth is None else auth["nh"])
    if o0 != want0:
        out.append(("rfc-encode", {"got": _short(o0), "want": _short(want0)}))
    want1, _ = ref_exts_decode(start, ref + tail)
    if o1 != want1:
        out.append(("decode-encode", {"got": _short(o1), "want": _short(want1)}))
    if (auth is None) != (start != 51):
        return  # inconsistent value (announced header missing): no round-trip claim
    want_rt = "ok(auth=%s,next=%d,rest=(%d,%d))" % ("none" if auth is None else "(%s)" % fields_str("auth", auth), start if auth is None else auth["nh"], len(ref), len(tail))
    if o1 != want_rt:
        out.append(("decode-encode", {"got": _short(o1), "want": _short(want_rt)}))


def _oracle_xbytes(c, out):
    start, data = c.meta["start"], unhex(c.meta["data"])
    o0, o1, o2 = c.impl[0], c.impl[1], c.impl[2]
    want, info = ref_exts_decode(start, data)
    if o0 != want:
        out.append(("rfc-decode", {"got": _short(o0), "want": _short(want)}))
    if info is None:
        if o1 != o0 or o2 != o0:
            out.append(("slice-eq-struct", {"from_slice": _short(o0), "redec": _short(o1), "slice": _short(o2)}))
        return
    f, hl = info
    d1 = parse_ok(o1)
    if d1 is None or "bytes" not in d1:
        out.append(("encode-decode", {"got": _short(o1)}))
    else:
        b = unhex(d1["bytes"])
        if b != mask_reserved("auth", data[:hl]):
            out.append(("encode-decode", {"got": _short(hx(b)), "orig": _short(hx(data[:hl]))}))
        if d1.get("again") != o0:
            out.append(("redecode-same", {"again": _short(d1.get("again")), "first": _short(o0)}))
    d0 = parse_ok(o0)
    want2 = "ok(auth=%s,empty=%d,next=%s,rest=%s,hdr=(auth=%s))" % (
        "none" if f is None else "(0,%d)" % hl, 1 if f is None else 0, d0["next"] if d0 else "?", d0["rest"] if d0 else "?", d0["auth"] if d0 else "?")
    if o2 != want2:
        out.append(("slice-eq-struct", {"slice": _short(o2), "want": _short(want2)}))


def _consistent(c):
    """the op lines must still be the ones generated from the meta data"""
    m = c.meta
    if m.get("k") == "xval":
        return c.lines == xvalue_case(m["start"], m["auth"], unhex(m["tail"])).lines
    if m.get("k") == "xbytes":
        return c.lines == xbytes_case(m["start"], unhex(m["data"])).lines
    if m.get("k") == "val":
        return c.lines == value_case(m["t"], m["f"], unhex(m["tail"])).lines
    if m.get("k") == "bytes":
        return c.lines == bytes_case(m["t"], unhex(m["data"])).lines
    return False


def oracle(c):
    out = []
    try:
        if not _consistent(c):
            return []  # lines no longer describe one value / one byte string (shrinker artefact)
        for o in c.impl:
            if o is None or o == "panic" or o == "bad-op" or str(o).startswith("fault("):
                out.append(("no-panic", {"impl": [_short(x) for x in c.impl]}))
                return out
        if c.meta.get("k") == "val":
            _oracle_value(c, out)
        elif c.meta.get("k") == "bytes":
            _oracle_bytes(c, out)
        elif c.meta.get("k") == "xval":
            _oracle_xvalue(c, out)
        elif c.meta.get("k") == "xbytes":
            _oracle_xbytes(c, out)
    except (ValueError, IndexError, TypeError, AttributeError, KeyError) as e:
        out.append(("malformed-impl-output", {"impl": [_short(x) for x in c.impl], "exc": repr(e)}))
    return out


# ----------------------------------------------------------------------------------------------
# neighbourhood search after a correspondence difference


def search(rng, corr_failures, run_cases):
    cands = []
    for f in corr_failures[:20]:
        m = f.case.meta
        if m.get("k") == "val":
            t = m["t"]
            for _ in range(60):
                g = dict(m["f"])
                k = rng.choice(FIELD_ORDER[t])
                h = gen_value(rng, t, rng.randrange(11))
                g[k] = h[k]
                cands.append(value_case(t, g, unhex(m["tail"])))
            for _ in range(60):
                cands.append(value_case(t, gen_value(rng, t, rng.randrange(11)), unhex(m["tail"])))
        elif m.get("k") == "bytes":
            t = m["t"]
            d = bytearray(unhex(m["data"]))
            for i in range(min(len(d), 24)):
                for bit in range(8):
                    e = bytearray(d)
                    e[i] ^= 1 << bit
                    cands.append(bytes_case(t, bytes(e)))
            for cut in range(0, min(len(d), 64)):
                cands.append(bytes_case(t, bytes(d[:cut])))
    if not cands:
        return None
    run_cases(cands)
    for c in cands:
        fs = oracle(c)
        if fs:
            return Failure("oracle", fs[0][0], c, fs[0][1])
    return None
