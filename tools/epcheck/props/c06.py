"""C06 - equivalent entry points give equivalent answers."""
import re

from ..core import Case
from .. import decsupport as D
from .. import pktgen
from ..gen import hx

ID = "C06"
RULE = (
    "(i) IP-start inputs through the 13 IP boundary implementations (version-dispatching vs version-specific, slice vs struct, "
    "strict vs lax); (ii) Ethernet II packets through all four packet families at the Ethernet header and at its ether type on the "
    "bytes behind it, IPv4/IPv6 ether type vs IP start; (iii) 17 header types through read(io::Read) and from_slice on the same "
    "bytes; structured, perturbed, truncated and noise inputs; non-trivial = distinct input accepted by at least one door"
)
EXPLANATION = (
    "theorems: EpModel/Props/C06.lean; correspondence: dec.* ops of the IP copies and of the four families; oracle: "
    "implementation vs implementation (equal canonical outputs after shifting windows/offsets by 14, error naming of the "
    "dispatching vs specific decoders normalised; reader result and bytes consumed vs from_slice)"
)
ASSUMPTIONS = [
    "when a header has two faults at once the doors may name different ones; required_len 20 vs ihl*4 on a cut IPv4 header",
    "readers are compared with from_slice on slices that hold the announced packet (total length / exact-size rules need the slice)",
]

READERS = ["eth2", "sll", "vlan", "macsec", "arp", "ipv4", "ipv6", "ah", "rawext", "frag", "udp", "tcp", "icmp4", "icmp6", "iph"]


def build(meta):
    """returns the case comparing decoding doors (kind k3 = ip/eth) or the reader case (k3 = read)"""
    start, et, data = meta["start"], meta["et"], D.meta_bytes(meta)
    h = hx(data)
    meta = dict(meta)
    kind = meta.get("k3")
    if kind == "read":
        rl = []
        if start == "ip":
            rl = ["impl.dec.read_%s\t%s" % (r, h) for r in ("ipv4", "ipv6", "iph", "udp", "tcp", "icmp4", "icmp6", "ah", "rawext", "frag")]
            rest = hx(data[40:]) if len(data) >= 40 else h
            rl += ["impl.dec.read_v6exts\t%d\t%s" % (meta.get("nh", 0), rest), "impl.dec.read_v4exts\t%d\t%s" % (51 if meta.get("k", 0) < 3 else 17, hx(data[20:]) if len(data) >= 20 else h)]
        elif start == "eth":
            rl = ["impl.dec.read_eth2\t" + h]
        elif start == "sll":
            rl = ["impl.dec.read_sll\t" + h, "dec.sll\t" + h]
        elif et == 0x88E5:
            rl = ["impl.dec.read_macsec\t" + h]
        elif et in (0x8100, 0x88A8, 0x9100):
            rl = ["impl.dec.read_vlan\t" + h]
        elif et == 0x0806:
            rl = ["impl.dec.read_arp\t" + h]
        return Case(rl, meta) if rl else None
    if start == "ip":
        meta["k3"] = "ip"
        lines = ["dec.%s\t%s" % (o, h) for o in D.IPOPS_SLICE + D.IPOPS_STRUCT]
        lines += ["dec.%s_ip\t%s" % (f, h) for f in ("sp", "lsp", "ph", "lph")]
        ver = data[0] >> 4 if data else 0
        etn = 0x0800 if ver == 4 else 0x86DD
        lines += ["dec.%s_et\t%d\t%s" % (f, etn, h) for f in ("sp", "lsp", "ph", "lph")]
        return Case(lines, meta)
    if start == "eth":
        meta["k3"] = "eth"
        lines = ["dec.%s_eth\t%s" % (f, h) for f in ("sp", "lsp", "ph", "lph")]
        if len(data) >= 14:
            etn = (data[12] << 8) | data[13]
            lines += ["dec.%s_et\t%d\t%s" % (f, etn, hx(data[14:])) for f in ("sp", "lsp", "ph", "lph")]
        return Case(lines, meta)
    return None


rebuild = build


def generate(rng, tier):
    n = 9000 if tier == "quick" else 250000
    tb = 30 if tier == "quick" else 1000
    for start, et, data, meta in D.base_inputs(rng, n, tb):
        c = build(meta)
        if c is not None:
            yield c
        m2 = dict(meta)
        m2["k3"] = "read"
        c = build(m2)
        if c is not None:
            yield c
    yield from reader_byte_sweeps(rng, tier)
    # the length-limited readers (LimitedReader / read_limited) against the slice cut at the limit
    yield from D.readlim_cases(rng, 1500 if tier == "quick" else 40000)


def reader_byte_sweeps(rng, tier="quick"):
    """every reader door on a well-formed header of its type in which one octet after the other takes all 256
    values (reserved bits, length octets, type numbers, flag combinations no serialiser of the crate produces),
    followed by enough bytes for whatever length the octet announces"""
    from .. import pktgen as P

    tailn = 2100
    def hdrs():
        yield "eth2", bytes(P.mk_eth(rng, 0x0800).data), 14
        yield "vlan", bytes(P.mk_vlan(rng, 0x0800).data), 4
        yield "sll", bytes(P.mk_sll(rng, 0x0800).data), 16
        for _ in range(3):
            l, _u = P.mk_macsec(rng, 0x0800, rng.choice([0, 10, 40]))
            yield "macsec", bytes(l.data), min(len(l.data), 8)
        yield "arp", bytes(P.mk_arp(rng).data), 8
        yield "ipv4", bytes(P.mk_ipv4(rng, 17, 8).data), 20
        yield "ipv6", bytes(P.mk_ipv6(rng, 17, 8).data), 8
        yield "iph", bytes(P.mk_ipv4(rng, 51, 12).data) + bytes(P.mk_ah(rng, 17).data), 22
        yield "iph", bytes(P.mk_ipv6(rng, 0, 16).data) + bytes(P.mk_rawext(rng, "hbh", 44).data)[:8] + bytes(P.mk_fragext(rng, 17).data), 8
        yield "ah", bytes(P.mk_ah(rng, 17).data), 4
        yield "rawext", bytes(P.mk_rawext(rng, "dest", 17).data), 2
        yield "frag", bytes(P.mk_fragext(rng, 17).data), 8
        yield "udp", bytes(P.mk_udp(rng, 4).data), 8
        yield "tcp", bytes(P.mk_tcp(rng, 4).data), 20
        yield "icmp4", bytes(P.mk_icmp4(rng, 4).data), 8
        yield "icmp6", bytes(P.mk_icmp6(rng, 4).data), 8
    for name, h, nsweep in hdrs():
        tail = bytes(rng.randrange(256) for _ in range(tailn if name in ("ah", "rawext", "iph") else 80))
        lines = []
        for pos in range(min(nsweep, len(h))):
            for v in range(256):
                if v == h[pos]:
                    continue
                b = bytearray(h)
                b[pos] = v
                t = tail if name in ("ah", "rawext") and pos == 1 else tail[:80]
                lines.append("impl.dec.read_%s\t%s" % (name, hx(bytes(b) + t)))
        step = 1 if tier != "quick" or name in ("macsec", "sll", "tcp", "ipv4", "ah", "rawext", "frag", "vlan") else 3
        for i in range(0, len(lines), 64):
            chunk = lines[i : i + 64][::step]
            yield Case(chunk, {"k3": "read", "sweep": name, "start": "sweep", "et": 0, "data": "-"})


def reader_sweep_oracle(c, out, prefix):
    """judges `impl.dec.read_*` lines (slice decoder vs reader on the same bytes) for other properties that run the
    byte sweeps: same header, or a rejection for the same reason"""
    for line, o in zip(c.lines, c.impl):
        if o and o.startswith("slice=") and "|read=" in o:
            s_, r_ = o[6:].split("|read=", 1)
            arg = line.split("\t")[-1]
            data = bytes.fromhex(arg) if arg != "-" else b""
            if line.startswith("impl.dec.read_iph") and len(data) >= 6 and data[0] >> 4 == 6 and data[4] == 0 and data[5] == 0:
                continue
            tmp = []
            check_reader(line.split("\t", 1)[0], s_, r_, tmp)
            for n, d in tmp:
                out.append((prefix + n, dict(d, line=line[:200])))


def is_trivial(c):
    if "sweep" in c.meta:
        return False
    if "readlim" in c.meta:
        return c.meta.get("len", 0) < 8
    return not any(("ok(" in (o or "")) for o in c.impl)


def norm_err(s):
    s = re.sub(r"len\(req=\d+,(len=\d+,src=\w+,layer=Ipv4Header)", r"len(req=_,\1", s)
    s = s.replace("Ipv4(Ihl(", "Ip(Ihl(").replace("Ipv4(Version(", "Ip(Version(").replace("Ipv6(Version(", "Ip(Version(")
    return s


def two_faults(a, b):
    """both reject, naming different simultaneous faults of the IP header (content vs cut short)"""
    if not (a.startswith("err(") and b.startswith("err(")):
        return False
    ka = "len" if "len(" in a else "content"
    kb = "len" if "len(" in b else "content"
    hdr = lambda s: ("layer=Ipv4Header" in s or "layer=Ipv6Header" in s or "layer=IpHeader" in s) and "off=0)" in s or "Ihl(" in s or "Version(" in s
    return ka != kb and hdr(a) and hdr(b)


def same(name, a, b, out, normalise=lambda s: s):
    if a is None or b is None:
        return
    if normalise(norm_err(a)) == normalise(norm_err(b)):
        return
    if two_faults(a, b):
        return
    # lax doors: from_ip returns Err where from_ether_type records the same error as stop error on IpHeader
    for x, y in ((a, b), (b, a)):
        if x.startswith("err(") and "net=none" in y and y.endswith("stop=(%s,IpHeader))" % norm_err(x)[4:-1]):
            return
        if x.startswith("err(") and "net=none" in norm_err(y) and norm_err(y).endswith("stop=(%s,IpHeader))" % norm_err(x)[4:-1]):
            return
    out.append((name, {"a": a[:900], "b": b[:900]}))


EXT_NUMS = (0, 43, 44, 51, 60)


def pl_of(s):
    m = re.search(r"pl=(\(num=\d+,frag=\d,src=\w+,w=\(\d+,\d+\),inc=\d\))", s or "")
    return m.group(1) if m else None


def struct_vs_slice(name, st, sl, out):
    """IpHeaders::from_* vs the slice decoders: same verdict and payload, except behind an extension header
    that does not fit the struct."""
    if st is None or sl is None:
        return
    if st.startswith("ok(") and "ipv6(" in st:
        m = re.search(r"pl=\(num=(\d+),", st)
        if m and int(m.group(1)) in EXT_NUMS:
            return
    if st.startswith("err(") or sl.startswith("err("):
        if st.startswith("err(") != sl.startswith("err("):
            out.append((name + "-verdict", {"struct": st[:600], "slice": sl[:600]}))
        elif norm_err(st) != norm_err(sl) and not two_faults(st, sl):
            out.append((name + "-error", {"struct": st, "slice": sl}))
        return
    if pl_of(st) != pl_of(sl):
        out.append((name + "-payload", {"struct": pl_of(st), "slice": pl_of(sl)}))
    a = st[st.rindex(";stop=") :]
    b = sl[sl.rindex(";stop=") :]
    if norm_err(a) != norm_err(b):
        out.append((name + "-stop", {"struct": a, "slice": b}))


def tail(s):
    """everything behind the link layer of a whole-packet output"""
    if s is None or not s.startswith("ok("):
        return s
    i = s.index(";exts=")
    return s[i:]


def oracle(c):
    out = []
    if "readlim" in c.meta:
        D.readlim_oracle(c, out)
        return out
    im = c.impl
    k = c.meta.get("k3")
    if k == "ip":
        o = dict(zip([l.split("\t", 1)[0] + ("" if i < 17 else "") for i, l in enumerate(c.lines)], im))
        data = bytes.fromhex(c.meta["data"]) if c.meta["data"] != "-" else b""
        ver = data[0] >> 4 if data else 0
        v = "v4" if ver == 4 else "v6" if ver == 6 else None
        if v:
            sfx = "ipv4" if v == "v4" else "ipv6"
            same("ip_slice-vs-" + sfx + "_slice", o["dec.ip_slice"], o["dec.%s_slice" % sfx], out)
            same("lax_ip_slice-vs-lax_" + sfx + "_slice", o["dec.lax_ip_slice"], o["dec.lax_%s_slice" % sfx], out)
            same("iph-vs-iph_" + v, o["dec.iph"], o["dec.iph_" + v], out)
            same("iph_lax-vs-iph_%s_lax" % v, o["dec.iph_lax"], o["dec.iph_%s_lax" % v], out)
            # IPv4/IPv6 ether type = IP start (all four families)
            for f in ("sp", "lsp", "ph", "lph"):
                same("%s_et-vs-%s_ip" % (f, f), tail(o["dec.%s_et" % f]), tail(o["dec.%s_ip" % f]), out)
        struct_vs_slice("iph-vs-ip_slice", o["dec.iph"], o["dec.ip_slice"], out)
        struct_vs_slice("iph_lax-vs-lax_ip_slice", o["dec.iph_lax"], o["dec.lax_ip_slice"], out)
        struct_vs_slice("iph_v4-vs-ipv4_slice", o["dec.iph_v4"], o["dec.ipv4_slice"], out)
        struct_vs_slice("iph_v6-vs-ipv6_slice", o["dec.iph_v6"], o["dec.ipv6_slice"], out)
        struct_vs_slice("iph_v4_lax-vs-lax_ipv4_slice", o["dec.iph_v4_lax"], o["dec.lax_ipv4_slice"], out)
        struct_vs_slice("iph_v6_lax-vs-lax_ipv6_slice", o["dec.iph_v6_lax"], o["dec.lax_ipv6_slice"], out)
    elif k == "eth" and len(im) == 8:
        for i, f in enumerate(("sp", "lsp", "ph", "lph")):
            a, b = im[i], im[4 + i]
            if a is None or b is None:
                continue
            same("%s_eth-vs-%s_et" % (f, f), tail(a), tail(D.shift_windows(b, 14)), out)
    elif k == "read":
        for line, o in zip(c.lines, im):
            if o is None or not o.startswith("slice="):
                continue
            op = line.split("\t", 1)[0]
            s, r = o[6:].split("|read=", 1)
            arg = line.split("\t")[-1]
            data = bytes.fromhex(arg) if arg != "-" else b""
            if op == "impl.dec.read_iph" and len(data) >= 6 and data[0] >> 4 == 6 and data[4] == 0 and data[5] == 0:
                # a zero IPv6 payload length means "to the end of the slice"; a reader has no such end
                continue
            check_reader(op, s, r, out)
    for o in im:
        if o is None:
            continue
        for m in D.bad_markers(o):
            out.append(("runtime-" + m.strip("!("), {"impl": o[:300]}))
    return out


def err_class(e):
    if "Len(" in e or "Io(" in e or "LenError" in e or "UnexpectedEof" in e:
        return "len"
    m = re.search(r"(?:Content|LinuxSll|Ipv4|Ipv6|IpAuth|Tcp|Macsec|Ip|Ipv4Exts|Ipv6Exts)\((.*)\)\)$", e)
    return "content:" + (m.group(1) if m else e)


def check_reader(op, s, r, out):
    if s.startswith("ok(") and r.startswith("ok("):
        if s != r:
            out.append((op + "-differs", {"slice": s[:700], "read": r[:700]}))
        return
    if s.startswith("err(") and r.startswith("err("):
        cs, cr = err_class(s), err_class(r)
        if cs == "len":
            # the slice does not hold the announced header: a reader may find a content fault in the
            # bytes it could read before running out of data.  But where a length field (not the end of the
            # slice) is what cut the header short, the reader runs into the same limit (LimitedReader) and
            # has to report the same layer, offset, available length and length source
            ms, mr = D._LENERR.search(s), D._LENERR.search(r)
            if ms and mr and ms.group("src") != "Slice":
                fs, fr = ms.groupdict(), mr.groupdict()
                if any(fs[k] != fr[k] for k in ("len", "src", "layer", "off")) or not int(fr["len"]) < int(fr["req"]):
                    out.append((op + "-length-error-differs", {"slice": s, "read": r}))
            return
        if cs != cr and not (cr.startswith("content") and cs.split("{")[0].split(":")[-1].strip() in cr):
            out.append((op + "-rejection-reason-differs", {"slice": s, "read": r}))
        return
    if s.startswith("err(") and r.startswith("ok("):
        # rules that need the slice length: total length / payload length / exact-size rules
        if re.search(r"layer: (Ipv4Packet|Ipv6Packet|Icmpv4Timestamp|Icmpv4TimestampReply)", s):
            return
    if s.startswith("ok(") and r.startswith("err(") and op == "impl.dec.read_iph" and "payload_length: 0," in s and "Ipv6(" in s:
        # a zero IPv6 payload length means "to the end of the slice"; a reader has no such end
        return
    out.append((op + "-verdict-differs", {"slice": s[:500], "read": r[:500]}))


def search(rng, corr_failures, run_cases):
    import sys

    return D.search_decode(sys.modules[__name__], rng, corr_failures, run_cases)
