"""C09 - checksums equal the RFC 1071 Internet checksum."""
from ..core import Case
from ..gen import hx, rbytes, edge_int

ID = "C09"
RULE = (
    "ck.* operations: add_slice of both accumulators for every length 0..70 x several contents/start states, "
    "ones_complement on accumulator edge values, Sum16BitWords over all even splits; non-trivial = distinct op line "
    "with at least 2 input bytes or a non-zero start state"
)
EXPLANATION = (
    "theorems: accumulator invariants modulo 65535 and equality with RFC 1071 (EpModel/Props/C09.lean); "
    "correspondence: checksum.rs helpers vs EpModel.Model.Checksum; oracle: RFC 1071 reference in python + Spec in Lean"
)
ASSUMPTIONS = ["64-bit little-endian target (from_ne_bytes = little endian)"]


def rfc1071(data):
    s = 0
    d = bytes(data)
    if len(d) % 2:
        d += b"\0"
    for i in range(0, len(d), 2):
        s += (d[i] << 8) | d[i + 1]
    while s >> 16:
        s = (s & 0xFFFF) + (s >> 16)
    return (~s) & 0xFFFF


def le_words(data):
    d = bytes(data)
    if len(d) % 2:
        d += b"\0"
    return sum(d[i] | (d[i + 1] << 8) for i in range(0, len(d), 2))


def generate(rng, tier):
    reps = 6 if tier == "quick" else 60
    maxlen = 70 if tier == "quick" else 200
    starts64 = [0, 1, 0xFFFF, 0x10000, 2**32 - 1, 2**32, 2**48 - 1, 2**64 - 1, 2**64 - 2, 2**64 - 0x10000, 0xFFFF0000FFFF0000]
    starts32 = [0, 1, 0xFFFF, 0x10000, 2**32 - 1, 2**32 - 2, 2**32 - 0x10000, 0xFFFF0000]
    for n in range(0, maxlen + 1):
        for r in range(reps):
            b = rbytes(rng, n)
            s64 = rng.choice(starts64) if r % 2 else rng.randrange(2**64)
            s32 = rng.choice(starts32) if r % 2 else rng.randrange(2**32)
            if r == 0:
                s64 = s32 = 0
            yield Case(["ck.slice64\t%d\t%s" % (s64, hx(b))], {"k": "slice64", "start": s64, "data": hx(b)})
            yield Case(["ck.slice32\t%d\t%s" % (s32, hx(b))], {"k": "slice32", "start": s32, "data": hx(b)})
            # Sum16BitWords over the whole and over an even split; the Lean Spec (RFC 1071) next to it
            yield Case(["ck.sum16\t%s" % hx(b), "spec.ck.rfc\t%s" % hx(b)], {"k": "sum16", "data": hx(b)})
    # all even splits (and 3-way splits) of some inputs
    nsplit = 40 if tier == "quick" else 400
    for _ in range(nsplit):
        n = rng.randrange(0, 64)
        b = rbytes(rng, n)
        for k in range(0, n + 1, 2):
            yield Case(["ck.sum16\t%s\t%s" % (hx(b[:k]), hx(b[k:])), "spec.ck.rfc\t%s" % hx(b)], {"k": "sum16", "data": hx(b)})
        if n >= 4:
            k1 = rng.randrange(0, n // 2) * 2
            k2 = k1 + rng.randrange(0, (n - k1) // 2 + 1) * 2
            yield Case(["ck.sum16\t%s\t%s\t%s" % (hx(b[:k1]), hx(b[k1:k2]), hx(b[k2:])), "spec.ck.rfc\t%s" % hx(b)], {"k": "sum16", "data": hx(b)})
    # long inputs
    nlong = 200 if tier == "quick" else 5000
    for _ in range(nlong):
        n = rng.choice([rng.randrange(64, 2000), rng.randrange(1000, 70000) if tier == "thorough" else rng.randrange(64, 4000)])
        b = rbytes(rng, n)
        yield Case(["ck.sum16\t%s" % hx(b), "spec.ck.rfc\t%s" % hx(b)], {"k": "sum16", "data": hx(b)})
        s64 = rng.choice(starts64)
        yield Case(["ck.slice64\t%d\t%s" % (s64, hx(b))], {"k": "slice64", "start": s64, "data": hx(b)})
        s32 = rng.choice(starts32)
        yield Case(["ck.slice32\t%d\t%s" % (s32, hx(b))], {"k": "slice32", "start": s32, "data": hx(b)})
    # fixed-size adders and folds on edge accumulator values
    nfold = 3000 if tier == "quick" else 100000
    for _ in range(nfold):
        s64 = rng.choice([edge_int(rng, 64), rng.choice(starts64), rng.randrange(2**64), (rng.randrange(2**16) << rng.choice([0, 16, 32, 48])) | rng.choice([0, 0xFFFF, 0xFFFF0000])])
        s64 &= 2**64 - 1
        s32 = s64 & (2**32 - 1)
        yield Case(["ck.oc64\t%d" % s64, "ck.ocnz64\t%d" % s64], {"k": "oc64", "s": s64})
        yield Case(["ck.oc32\t%d" % s32, "ck.ocnz32\t%d" % s32], {"k": "oc32", "s": s32})
        b8 = rbytes(rng, 8)
        yield Case(["ck.add8_64\t%d\t%s" % (s64, hx(b8)), "ck.add4_64\t%d\t%s" % (s64, hx(b8[:4])), "ck.add2_64\t%d\t%s" % (s64, hx(b8[:2])),
                    "ck.add4_32\t%d\t%s" % (s32, hx(b8[:4])), "ck.add2_32\t%d\t%s" % (s32, hx(b8[:2]))], {"k": "adders", "s64": s64, "s32": s32, "data": hx(b8)})


def is_trivial(c):
    k = c.meta.get("k")
    if k in ("slice64", "slice32"):
        return len(c.meta["data"]) < 4 and c.meta["start"] == 0
    if k == "sum16":
        return len(c.meta["data"]) < 4
    return False


def _cls(x):
    return (x % 65535, x == 0)


def _fold(x):
    return 0 if x == 0 else (x - 1) % 65535 + 1


def _swap(v):
    return ((v & 0xFF) << 8) | (v >> 8)


def oracle(c):
    out = []
    k = c.meta.get("k")
    try:
        if k in ("slice64", "slice32"):
            data = bytes.fromhex(c.meta["data"]) if c.meta["data"] != "-" else b""
            got = int(c.impl[0])
            want = c.meta["start"] + le_words(data)
            if _cls(got) != _cls(want) or got >= (2**64 if k == "slice64" else 2**32):
                out.append(("acc-invariant", {"got": got, "want_class": list(_cls(want))}))
        elif k == "sum16":
            data = bytes.fromhex(c.meta["data"]) if c.meta["data"] != "-" else b""
            ref = rfc1071(data)
            got = c.impl[0].split(" ")
            refnz = 0xFFFF if ref == 0 else ref
            if int(got[0]) != ref or int(got[1]) != refnz:
                out.append(("rfc1071-python", {"got": c.impl[0], "want": "%d %d" % (ref, refnz)}))
            if c.model[1] is not None and c.model[1] != "bad-op" and int(got[0]) != int(c.model[1]):
                out.append(("rfc1071-spec", {"got": c.impl[0], "spec": c.model[1]}))
        elif k in ("oc64", "oc32"):
            s = c.meta["s"]
            want = 0xFFFF - _swapfold(s)
            got = int(c.impl[0])
            gotnz = int(c.impl[1])
            if got != want or gotnz != (0xFFFF if want == 0 else want):
                out.append(("fold", {"sum": s, "got": [got, gotnz], "want": want}))
        elif k == "adders":
            data = bytes.fromhex(c.meta["data"])
            s64, s32 = c.meta["s64"], c.meta["s32"]
            wants = [s64 + int.from_bytes(data, "little"), s64 + int.from_bytes(data[:4], "little"), s64 + int.from_bytes(data[:2], "little"),
                     s32 + int.from_bytes(data[:4], "little"), s32 + int.from_bytes(data[:2], "little")]
            lim = [2**64] * 3 + [2**32] * 2
            for g, w, l in zip(c.impl, wants, lim):
                g = int(g)
                if _cls(g) != _cls(w) or g >= l:
                    out.append(("acc-invariant", {"got": g, "want_class": list(_cls(w))}))
                    break
    except (ValueError, IndexError, TypeError, AttributeError):
        out.append(("malformed-impl-output", {"impl": c.impl}))
    return out


def _swapfold(s):
    # the accumulator holds little endian words; the helper returns !fold(s) without swapping
    return _fold(s)
