"""C09 - checksums equal the RFC 1071 Internet checksum."""
from ..core import Case
from ..gen import hx, rbytes, edge_int

ID = "C09"
RULE = (
    "ck.* operations: add_slice of both accumulators for every length 0..70 x several contents/start states, "
    "ones_complement on accumulator edge values, Sum16BitWords over all even splits; non-trivial = distinct op line "
    "with at least 2 input bytes or a non-zero start state"
)
EXPLANATION = (
    "theorems: accumulator invariants modulo 65535 and equality with RFC 1071 (EpModel/Props/C09.lean); "
    "correspondence: checksum.rs helpers vs EpModel.Model.Checksum; oracle: RFC 1071 reference in python + Spec in Lean"
)
ASSUMPTIONS = ["64-bit little-endian target (from_ne_bytes = little endian)"]


def rfc1071(data):
    s = 0
    d = bytes(data)
    if len(d) % 2:
        d += b"\0"
    for i in range(0, len(d), 2):
        s += (d[i] << 8) | d[i + 1]
    while s >> 16:
        s = (s & 0xFFFF) + (s >> 16)
    return (~s) & 0xFFFF


def le_words(data):
    d = bytes(data)
    if len(d) % 2:
        d += b"\0"
    return sum(d[i] | (d[i + 1] << 8) for i in range(0, len(d), 2))


def generate(rng, tier):
    reps = 6 if tier == "quick" else 60
    maxlen = 70 if tier == "quick" else 200
    starts64 = [0, 1, 0xFFFF, 0x10000, 2**32 - 1, 2**32, 2**48 - 1, 2**64 - 1, 2**64 - 2, 2**64 - 0x10000, 0xFFFF0000FFFF0000]
    starts32 = [0, 1, 0xFFFF, 0x10000, 2**32 - 1, 2**32 - 2, 2**32 - 0x10000, 0xFFFF0000]
    for n in range(0, maxlen + 1):
        for r in range(reps):
            b = rbytes(rng, n)
            s64 = rng.choice(starts64) if r % 2 else rng.randrange(2**64)
            s32 = rng.choice(starts32) if r % 2 else rng.randrange(2**32)
            if r == 0:
                s64 = s32 = 0
            yield Case(["ck.slice64\t%d\t%s" % (s64, hx(b))], {"k": "slice64", "start": s64, "data": hx(b)})
            yield Case(["ck.slice32\t%d\t%s" % (s32, hx(b))], {"k": "slice32", "start": s32, "data": hx(b)})
            # Sum16BitWords over the whole and over an even split; the Lean Spec (RFC 1071) next to it
            yield Case(["ck.sum16\t%s" % hx(b), "spec.ck.rfc\t%s" % hx(b)], {"k": "sum16", "data": hx(b)})
    # all even splits (and 3-way splits) of some inputs
    nsplit = 40 if tier == "quick" else 400
    for _ in range(nsplit):
        n = rng.randrange(0, 64)
        b = rbytes(rng, n)
        for k in range(0, n + 1, 2):
            yield Case(["ck.sum16\t%s\t%s" % (hx(b[:k]), hx(b[k:])), "spec.ck.rfc\t%s" % hx(b)], {"k": "sum16", "data": hx(b)})
        if n >= 4:
            k1 = rng.randrange(0, n // 2) * 2
            k2 = k1 + rng.randrange(0, (n - k1) // 2 + 1) * 2
            yield Case(["ck.sum16\t%s\t%s\t%s" % (hx(b[:k1]), hx(b[k1:k2]), hx(b[k2:])), "spec.ck.rfc\t%s" % hx(b)], {"k": "sum16", "data": hx(b)})
    # long inputs
    nlong = 200 if tier == "quick" else 5000
    for _ in range(nlong):
        n = rng.choice([rng.randrange(64, 2000), rng.randrange(1000, 70000) if tier == "thorough" else rng.randrange(64, 4000)])
        b = rbytes(rng, n)
        yield Case(["ck.sum16\t%s" % hx(b), "spec.ck.rfc\t%s" % hx(b)], {"k": "sum16", "data": hx(b)})
        s64 = rng.choice(starts64)
        yield Case(["ck.slice64\t%d\t%s" % (s64, hx(b))], {"k": "slice64", "start": s64, "data": hx(b)})
        s32 = rng.choice(starts32)
        yield Case(["ck.slice32\t%d\t%s" % (s32, hx(b))], {"k": "slice32", "start": s32, "data": hx(b)})
    # fixed-size adders and folds on edge accumulator values
    nfold = 3000 if tier == "quick" else 100000
    for _ in range(nfold):
        s64 = rng.choice([edge_int(rng, 64), rng.choice(starts64), rng.randrange(2**64), (rng.randrange(2**16) << rng.choice([0, 16, 32, 48])) | rng.choice([0, 0xFFFF, 0xFFFF0000])])
        s64 &= 2**64 - 1
        s32 = s64 & (2**32 - 1)
        yield Case(["ck.oc64\t%d" % s64, "ck.ocnz64\t%d" % s64], {"k": "oc64", "s": s64})
        yield Case(["ck.oc32\t%d" % s32, "ck.ocnz32\t%d" % s32], {"k": "oc32", "s": s32})
        b8 = rbytes(rng, 8)
        if rng.random() < 0.3:
            b8 = bytes([0xFF] * 8)
        yield Case(["ck.add8_64\t%d\t%s" % (s64, hx(b8)), "ck.add4_64\t%d\t%s" % (s64, hx(b8[:4])), "ck.add2_64\t%d\t%s" % (s64, hx(b8[:2])),
                    "ck.add4_32\t%d\t%s" % (s32, hx(b8[:4])), "ck.add2_32\t%d\t%s" % (s32, hx(b8[:2]))], {"k": "adders", "s64": s64, "s32": s32, "data": hx(b8)})
    yield from wire_cases(rng, tier)


# ---- every route to a protocol checksum, from wire bytes (ck.w.*), and Sum16BitWords method chains (ck.s16)

SAT16 = [bytes([0xFF] * 16), bytes([0xFF] * 8) + bytes(8), bytes.fromhex("20010db8000000000000000000000001"),
         bytes.fromhex("dffef247fffffffffffffffffffffffe"), bytes(16), bytes([0xFF] * 15 + [0xFE])]


def _addr(rng, n):
    r = rng.random()
    if r < 0.25:
        return bytes([0xFF] * n)
    if r < 0.35:
        return bytes(n)
    if r < 0.45 and n == 16:
        return rng.choice(SAT16)
    return rbytes(rng, n)


def _addr_pair(rng, n):
    a = _addr(rng, n)
    r = rng.random()
    if r < 0.25:
        return a, bytes(x ^ 0xFF for x in a)  # complement: the accumulator saturates
    if r < 0.35:
        return a, a
    return a, _addr(rng, n)


def _payload(rng, tier):
    r = rng.random()
    if r < 0.15:
        n = 0
    elif r < 0.7:
        n = rng.randrange(0, 40)
    elif r < 0.95:
        n = rng.randrange(40, 600)
    else:
        n = rng.randrange(600, 3000 if tier == "quick" else 30000)
    if rng.random() < 0.2:
        return bytes([rng.choice([0, 0xFF])] * n)
    return rbytes(rng, n)


def _ipv4_header(rng):
    ihl = rng.choice([5, 5, 5, 6, 7, 10, 15])
    h = bytearray(rbytes(rng, ihl * 4))
    h[0] = 0x40 | ihl
    if rng.random() < 0.2:
        for i in range(len(h)):
            if i != 0:
                h[i] = rng.choice([0, 0xFF])
    h[6] &= 0x7F  # the reserved flag bit has no place in Ipv4Header (the crate writes 0)
    return bytes(h)


def _udp_header(rng, plen):
    h = bytearray(rbytes(rng, 8))
    h[4:6] = (8 + plen).to_bytes(2, "big")
    return bytes(h)


def _tcp_header(rng):
    doff = rng.choice([5, 5, 5, 6, 8, 11, 15])
    h = bytearray(rbytes(rng, 20))
    h[12] = (doff << 4) | (h[12] & 0x01)  # the three reserved bits have no place in TcpHeader
    opts = bytearray()
    while len(opts) < (doff - 5) * 4:
        opts += bytes([1])  # NOP padding keeps the header decodable by every route
    if opts and rng.random() < 0.6:
        # opaque option bytes: an unknown kind with a length that covers the rest
        n = len(opts)
        opts = bytearray([253, n]) + bytearray(rbytes(rng, n - 2)) if n >= 2 else opts
    return bytes(h) + bytes(opts)


def _icmp4_message(rng, tier):
    t = rng.choice(["echo", "echo", "unknown", "unknown", "unreach", "redirect", "timex", "param", "ts"])
    pl = _payload(rng, tier)
    ck = rbytes(rng, 2)
    if t == "echo":
        return bytes([rng.choice([0, 8]), 0]) + ck + rbytes(rng, 4) + pl
    if t == "unknown":
        ty = rng.choice([1, 2, 6, 7, 9, 10, 15, 16, 17, 18, 40, 100, 200, 255])
        return bytes([ty, rng.randrange(256)]) + ck + rbytes(rng, 4) + pl
    if t == "unreach":
        code = rng.choice([0, 1, 2, 3, 5, 6, 7, 8, 9, 10, 11, 12, 13, 14, 15, 4])
        rest = bytes(2) + rbytes(rng, 2) if code == 4 else bytes(4)
        return bytes([3, code]) + ck + rest + pl
    if t == "redirect":
        return bytes([5, rng.randrange(4)]) + ck + rbytes(rng, 4) + pl
    if t == "timex":
        return bytes([11, rng.randrange(2)]) + ck + bytes(4) + pl
    if t == "param":
        code = rng.randrange(3)
        rest = bytes([rng.randrange(256), 0, 0, 0]) if code == 0 else bytes(4)
        return bytes([12, code]) + ck + rest + pl
    return bytes([rng.choice([13, 14]), 0]) + ck + rbytes(rng, 16)


def _icmp6_message(rng, tier, valid_for=None):
    t = rng.choice(["echo", "echo", "unknown", "unknown", "unreach", "toobig", "timex", "param"])
    pl = _payload(rng, tier)
    ck = rbytes(rng, 2)
    if t == "echo":
        m = bytes([rng.choice([128, 129]), 0]) + ck + rbytes(rng, 4) + pl
    elif t == "unknown":
        ty = rng.choice([0, 5, 100, 101, 127, 138, 139, 150, 200, 201, 254, 255])
        m = bytes([ty, rng.randrange(256)]) + ck + rbytes(rng, 4) + pl
    elif t == "unreach":
        m = bytes([1, rng.randrange(7)]) + ck + bytes(4) + pl
    elif t == "toobig":
        m = bytes([2, 0]) + ck + rbytes(rng, 4) + pl
    elif t == "timex":
        m = bytes([3, rng.randrange(2)]) + ck + bytes(4) + pl
    else:
        m = bytes([4, rng.randrange(3)]) + ck + rbytes(rng, 4) + pl
    return m


def _igmp_message(rng, tier):
    t = rng.choice([0x11, 0x11, 0x12, 0x16, 0x17, 0x22, rng.choice([0, 1, 0x13, 0x30, 0xFF])])
    h = bytearray(rbytes(rng, 8))
    h[0] = t
    if t in (0x12, 0x16, 0x17, 0x22):
        h[1] = 0
    if t == 0x11:
        if rng.random() < 0.5:
            return bytes(h)  # IGMPv1/v2 query: exactly 8 bytes
        return bytes(h) + rbytes(rng, 4) + _payload(rng, tier)
    return bytes(h) + _payload(rng, tier)


def pseudo4(src, dst, proto, n):
    return src + dst + bytes([0, proto]) + n.to_bytes(2, "big")


def pseudo6(src, dst, proto, n):
    return src + dst + n.to_bytes(4, "big") + bytes([0, 0, 0, proto])


def zero_at(b, i, n=2):
    return b[:i] + bytes(n) + b[i + n :]


def wire_want(line):
    """what the RFCs prescribe for a ck.w.* line, computed here from the line alone (so that shrunk
    cases are judged by their own bytes); None for lines the harness answers with bad-op"""
    p = line.split("\t")
    op = p[0]
    a = [bytes.fromhex(x) if x != "-" else b"" for x in p[1:]]
    try:
        if op == "ck.w.ipv4":
            h = a[0]
            if len(h) < 20 or h[0] >> 4 != 4 or (h[0] & 15) < 5 or len(h) < (h[0] & 15) * 4:
                return "err"
            if h[6] & 0x80:
                return None
            return "ok(%d)" % rfc1071(zero_at(h[: (h[0] & 15) * 4], 10))
        if op in ("ck.w.udp4", "ck.w.udp6", "ck.w.tcp4", "ck.w.tcp6"):
            src, dst, h, pl = a
            v6 = op.endswith("6")
            if len(src) != (16 if v6 else 4) or len(dst) != len(src):
                return None
            ps = pseudo6 if v6 else pseudo4
            if "udp" in op:
                if len(h) != 8 or int.from_bytes(h[4:6], "big") != 8 + len(pl):
                    return None
                w = rfc1071(ps(src, dst, 17, 8 + len(pl)) + zero_at(h, 6) + pl)
                return "ok(%d)" % (0xFFFF if w == 0 else w)
            if len(h) < 20 or len(h) != (h[12] >> 4) * 4:
                return None
            if not v6 and len(pl) > 0xFFFF - len(h):
                return "err"
            return "ok(%d)" % rfc1071(ps(src, dst, 6, len(h) + len(pl)) + zero_at(h, 16) + pl)
        if op == "ck.w.icmp4" and len(a) == 2:
            m, extra = a
            if len(m) < 8 or (m[0] in (13, 14) and m[1] == 0 and len(m) != 20):
                return None
            return "ok(%d)" % rfc1071(zero_at(m + extra, 2))
        if op in ("ck.w.icmp4", "ck.w.igmp"):
            m = a[0]
            if len(m) < 8:
                return None
            if op == "ck.w.icmp4" and m[0] in (13, 14) and m[1] == 0 and len(m) != 20:
                return None
            if op == "ck.w.igmp" and m[0] == 0x11 and 8 < len(m) < 12:
                return None
            return "ok(%d)" % rfc1071(zero_at(m, 2))
        if op == "ck.w.icmp6":
            src, dst, m = a
            if len(m) < 8 or len(src) != 16 or len(dst) != 16:
                return None
            w = rfc1071(pseudo6(src, dst, 58, len(m)) + zero_at(m, 2))
            valid = rfc1071(pseudo6(src, dst, 58, len(m)) + m) == 0
            return "ok(%d) valid=%s" % (w, "true" if valid else "false")
    except (ValueError, IndexError):
        return None
    return None


def wire_cases(rng, tier):
    n = 500 if tier == "quick" else 12000
    for _ in range(n):
        h = _ipv4_header(rng)
        yield Case(["ck.w.ipv4\t%s" % hx(h)], {"k": "w", "want": rfc1071(zero_at(h, 10)), "data": hx(h)})
        for v in (4, 6):
            src, dst = _addr_pair(rng, 4 if v == 4 else 16)
            pl = _payload(rng, tier)
            ps = pseudo4 if v == 4 else pseudo6
            h = _udp_header(rng, len(pl))
            w = rfc1071(ps(src, dst, 17, 8 + len(pl)) + zero_at(h, 6) + pl)
            yield Case(["ck.w.udp%d\t%s\t%s\t%s\t%s" % (v, hx(src), hx(dst), hx(h), hx(pl))],
                       {"k": "w", "want": 0xFFFF if w == 0 else w, "data": hx(pl)})
            h = _tcp_header(rng)
            w = rfc1071(ps(src, dst, 6, len(h) + len(pl)) + zero_at(h, 16) + pl)
            yield Case(["ck.w.tcp%d\t%s\t%s\t%s\t%s" % (v, hx(src), hx(dst), hx(h), hx(pl))], {"k": "w", "want": w, "data": hx(pl)})
        m = _icmp4_message(rng, tier)
        yield Case(["ck.w.icmp4\t%s" % hx(m)], {"k": "w", "want": rfc1071(zero_at(m, 2)), "data": hx(m)})
        # a timestamp / timestamp reply header (20 bytes) with bytes handed to the checksum functions as payload, and
        # other messages with the payload split between the message and the extra argument
        ts = bytes([rng.choice([13, 14]), 0]) + bytes(rng.randrange(256) for _ in range(18))
        extra = bytes(rng.randrange(256) for _ in range(rng.choice([1, 2, 3, 8, 21, 40])))
        yield Case(["ck.w.icmp4\t%s\t%s" % (hx(ts), hx(extra))], {"k": "w", "want": rfc1071(zero_at(ts + extra, 2)), "data": hx(ts + extra)})
        if len(m) > 9 and not (m[0] in (13, 14) and m[1] == 0):
            cut = rng.randrange(8, len(m))
            yield Case(["ck.w.icmp4\t%s\t%s" % (hx(m[:cut]), hx(m[cut:]))], {"k": "w", "want": rfc1071(zero_at(m, 2)), "data": hx(m)})
        m = _igmp_message(rng, tier)
        yield Case(["ck.w.igmp\t%s" % hx(m)], {"k": "w", "want": rfc1071(zero_at(m, 2)), "data": hx(m)})
        src, dst = _addr_pair(rng, 16)
        m = _icmp6_message(rng, tier)
        w = rfc1071(pseudo6(src, dst, 58, len(m)) + zero_at(m, 2))
        r = rng.random()
        if r < 0.5:
            m = m[:2] + w.to_bytes(2, "big") + m[4:]  # a message that verifies
        elif r < 0.6:
            m = m[:2] + ((w + 1) & 0xFFFF).to_bytes(2, "big") + m[4:]  # off by one
        elif r < 0.85 and m[0] in (128, 129, 2, 4, 0, 5, 100, 101, 127, 138, 139, 150, 200, 201, 254, 255):
            # the two representations of zero: make everything but the checksum field sum to 0xffff (bytes 4..5 are
            # free in these types), then the computed checksum is 0x0000 and a stored 0xffff verifies as well
            m0 = m[:4] + bytes(2) + m[6:]
            w0 = rfc1071(pseudo6(src, dst, 58, len(m0)) + zero_at(m0, 2))
            m = m0[:4] + w0.to_bytes(2, "big") + m0[6:]
            w = rfc1071(pseudo6(src, dst, 58, len(m)) + zero_at(m, 2))
            m = m[:2] + rng.choice([b"\xff\xff", b"\xff\xff", b"\x00\x00"]) + m[4:]
        valid = rfc1071(pseudo6(src, dst, 58, len(m)) + m) == 0
        yield Case(["ck.w.icmp6\t%s\t%s\t%s" % (hx(src), hx(dst), hx(m))],
                   {"k": "w6", "want": w, "valid": valid, "data": hx(m)})
    # segments of 64 KiB and more: the IPv6 pseudo header carries a 32 bit length (RFC 8200 8.1), the IPv4 one
    # cannot represent them (the crate must refuse)
    for n in ([65516, 65517, 65536, 70001] if tier == "quick" else [65515, 65516, 65517, 65535, 65536, 65537, 70001, 131072]):
        for v in (4, 6):
            src, dst = _addr_pair(rng, 4 if v == 4 else 16)
            pl = bytes([rng.randrange(256)]) * n
            h = _tcp_header(rng)
            yield Case(["ck.w.tcp%d\t%s\t%s\t%s\t%s" % (v, hx(src), hx(dst), hx(h), hx(pl))], {"k": "w", "want": 0, "data": hx(pl)})
    # ICMPv6 messages of 64 KiB and more (jumbograms): the pseudo header carries the 32 bit message length
    for n in ([65527, 65528, 70000] if tier == "quick" else [65526, 65527, 65528, 65529, 70000, 131072]):
        src, dst = _addr_pair(rng, 16)
        m = bytes([128, 0]) + rbytes(rng, 2) + rbytes(rng, 4) + bytes([rng.randrange(256)]) * n
        w = rfc1071(pseudo6(src, dst, 58, len(m)) + zero_at(m, 2))
        if rng.random() < 0.5:
            m = m[:2] + w.to_bytes(2, "big") + m[4:]
        yield Case(["ck.w.icmp6\t%s\t%s\t%s" % (hx(src), hx(dst), hx(m))], {"k": "w6", "want": w, "valid": False, "data": hx(m)})
    # TCP headers with reserved bits of octet 12 set (the struct cannot hold them: only the routes that sum the wire bytes)
    for _ in range(60 if tier == "quick" else 1500):
        for v in (4, 6):
            src, dst = _addr_pair(rng, 4 if v == 4 else 16)
            pl = _payload(rng, tier)
            h = bytearray(_tcp_header(rng))
            h[12] |= rng.choice([0x02, 0x04, 0x08, 0x0E, 0x06])
            h = bytes(h)
            ps = pseudo4 if v == 4 else pseudo6
            w = rfc1071(ps(src, dst, 6, len(h) + len(pl)) + zero_at(h, 16) + pl)
            yield Case(["ck.w.tcp%d\t%s\t%s\t%s\t%s" % (v, hx(src), hx(dst), hx(h), hx(pl))], {"k": "w", "want": w, "data": hx(pl)})
    # accumulator states at the very edge: a small sum in front of 16 / 8 byte parts whose halves are all ones or one
    # less, so that the running total lands on 2^64 - 1, 2^64, 2^65 - 2, 2^65 - 1 (a single fold carries out again)
    ones8 = bytes([0xFF] * 8)
    for pre in ([], [b"\x01\x00"], [b"\x02\x00"], [b"\x01\x00", b"\x01\x00"], [b"\xff\xff"], [b"\x00\x01"], [ones8], [b"\x01\x00\x00\x00"]):
        for lo in (ones8, b"\xfe" + ones8[1:], ones8[:7] + b"\xfe", bytes(8)):
            for hi in (ones8, b"\xfe" + ones8[1:], bytes(8)):
                for tail in ([], [b"\x01\x00"], [lo + hi]):
                    parts = list(pre) + [lo + hi] + list(tail)
                    allb = b"".join(parts)
                    yield Case(["ck.s16\t%s\t-" % "\t".join(hx(x) for x in parts), "spec.ck.rfc\t%s" % hx(allb)], {"k": "s16", "data": hx(allb)})
    # Sum16BitWords method chains: random even-sized parts through add_2/4/8/16bytes and add_slice,
    # biased to saturated accumulators (all ones) so that carries out of bit 63 happen
    n = 3000 if tier == "quick" else 60000
    for _ in range(n):
        parts = []
        for _ in range(rng.randrange(1, 7)):
            sz = rng.choice([2, 4, 8, 16, 16, rng.randrange(0, 20) * 2])
            r = rng.random()
            if r < 0.45:
                b = bytes([0xFF] * sz)
            elif r < 0.55:
                b = bytes(sz)
            elif r < 0.65 and parts:
                prev = parts[-1]
                b = bytes((x ^ 0xFF) for x in (prev * (sz // max(1, len(prev)) + 1))[:sz]) if prev else rbytes(rng, sz)
            else:
                b = rbytes(rng, sz)
            parts.append(b)
        last = rbytes(rng, rng.choice([0, 1, 2, 3, 5, 8, 9, 16, 17]))
        allb = b"".join(parts) + last
        yield Case(["ck.s16\t%s" % "\t".join(hx(x) for x in parts + [last]), "spec.ck.rfc\t%s" % hx(allb)],
                   {"k": "s16", "data": hx(allb)})


def is_trivial(c):
    k = c.meta.get("k")
    if k in ("w", "w6"):
        return False
    if k == "s16":
        return len(c.meta["data"]) < 8
    if k in ("slice64", "slice32"):
        return len(c.meta["data"]) < 4 and c.meta["start"] == 0
    if k == "sum16":
        return len(c.meta["data"]) < 4
    return False


def _cls(x):
    return (x % 65535, x == 0)


def _fold(x):
    return 0 if x == 0 else (x - 1) % 65535 + 1


def _swap(v):
    return ((v & 0xFF) << 8) | (v >> 8)


def oracle(c):
    out = []
    k = c.meta.get("k")
    try:
        if k in ("slice64", "slice32"):
            data = bytes.fromhex(c.meta["data"]) if c.meta["data"] != "-" else b""
            got = int(c.impl[0])
            want = c.meta["start"] + le_words(data)
            if _cls(got) != _cls(want) or got >= (2**64 if k == "slice64" else 2**32):
                out.append(("acc-invariant", {"got": got, "want_class": list(_cls(want))}))
        elif k == "sum16":
            data = bytes.fromhex(c.meta["data"]) if c.meta["data"] != "-" else b""
            ref = rfc1071(data)
            got = c.impl[0].split(" ")
            refnz = 0xFFFF if ref == 0 else ref
            if int(got[0]) != ref or int(got[1]) != refnz:
                out.append(("rfc1071-python", {"got": c.impl[0], "want": "%d %d" % (ref, refnz)}))
            if c.model[1] is not None and c.model[1] != "bad-op" and int(got[0]) != int(c.model[1]):
                out.append(("rfc1071-spec", {"got": c.impl[0], "spec": c.model[1]}))
        elif k in ("w", "w6"):
            o = c.impl[0] or ""
            want = wire_want(c.lines[0])
            if want is None:
                return out
            if o != want:
                name = "routes-differ" if "routes-differ" in o else ("header-reencode-differs" if "reencode" in o else "protocol-checksum-not-rfc")
                out.append((name, {"op": c.lines[0].split("\t")[0], "got": o[:400], "want": want}))
        elif k == "s16":
            data = bytes.fromhex(c.meta["data"]) if c.meta["data"] != "-" else b""
            ref = rfc1071(data)
            refnz = 0xFFFF if ref == 0 else ref
            got = c.impl[0].split(" ")
            if int(got[0]) != ref or int(got[1]) != refnz:
                out.append(("method-chain-not-rfc1071", {"got": c.impl[0], "want": "%d %d" % (ref, refnz)}))
        elif k in ("oc64", "oc32"):
            s = c.meta["s"]
            want = 0xFFFF - _swapfold(s)
            got = int(c.impl[0])
            gotnz = int(c.impl[1])
            if got != want or gotnz != (0xFFFF if want == 0 else want):
                out.append(("fold", {"sum": s, "got": [got, gotnz], "want": want}))
        elif k == "adders":
            data = bytes.fromhex(c.meta["data"])
            s64, s32 = c.meta["s64"], c.meta["s32"]
            wants = [s64 + int.from_bytes(data, "little"), s64 + int.from_bytes(data[:4], "little"), s64 + int.from_bytes(data[:2], "little"),
                     s32 + int.from_bytes(data[:4], "little"), s32 + int.from_bytes(data[:2], "little")]
            lim = [2**64] * 3 + [2**32] * 2
            for g, w, l in zip(c.impl, wants, lim):
                g = int(g)
                if _cls(g) != _cls(w) or g >= l:
                    out.append(("acc-invariant", {"got": g, "want_class": list(_cls(w))}))
                    break
    except (ValueError, IndexError, TypeError, AttributeError):
        out.append(("malformed-impl-output", {"impl": c.impl}))
    return out


def _swapfold(s):
    # the accumulator holds little endian words; the helper returns !fold(s) without swapping
    return _fold(s)
