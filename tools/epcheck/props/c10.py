"""C10 - PacketBuilder emits consistent, parseable packets of the announced size."""
import re
import struct
import zlib

from .. import core
from ..core import Case
from ..gen import hx, rbytes, edge_int
from . import c13

ID = "C10"
RULE = (
    "build.write / build.slice over the product of builder paths: start (ethernet2 | linux_sll | none) x VLAN (none | single_vlan | "
    "double_vlan | vlan(Single) | vlan(Double), behind ethernet2) x net (ipv4() | ipv6() | ip(IpHeaders::Ipv4 [+options] [+AH]) | "
    "ip(IpHeaders::Ipv6 + subsets of {hop-by-hop, destination options, routing, final destination options, fragment, AH}) | arp) x "
    "transport (udp | tcp + flag calls + options_raw / options(elements) | tcp_header | icmpv4 / icmpv4_raw / echo request / echo reply "
    "| icmpv6 (same four) | raw write with an ip number), each with payload lengths {0,1,7,8} and limit-2..limit+2 (quick tier: limit, limit+1 on every path, the five on a quarter) for the limit of "
    "the stack (IPv4 total length, IPv6 payload length); random addresses, ports, flags, option areas, extension payload sizes, "
    "edge values over-weighted; plus write_to_slice with capacities required-1 / required / required+3. "
    "non-trivial = distinct case that is not an ARP packet"
)
EXPLANATION = (
    "theorems: EpModel/Props/C10.lean (size, layout with derived fields, checksums = RFC 1071 via C09, rejects/never panics, "
    "Spec.decode of the output); correspondence: packet_builder.rs (all typed steps, write / write_to_vec / write_to_slice compared "
    "inside the harness) vs EpModel.Model.Builder; oracle, independent of the model: (a) a python reference builder written from the RFC "
    "formats (lengths, ether types / protocol numbers, RFC 1071 checksums with pseudo headers) compared byte by byte (digest for "
    "outputs > 2000 bytes), (b) Spec.decode (Lean driver) of the emitted bytes must give exactly the configured layers, addresses, "
    "ports, flags, options, extension headers and the payload window, (c) error iff the configuration is not encodable, with the "
    "right variant and the right prefix already written, (d) size() == bytes written, three serialisers identical"
)
ASSUMPTIONS = [
    "Spec.decode is my transcription of the RFC formats; the python reference builder is a second, separate transcription",
    "the modelled writers accept every byte (I/O failures are property C16)",
    "raw `write` with an ip number that itself announces a transport or extension header (0,1,6,17,43,44,51,58,60) is compared with "
    "the reference bytes only: what the payload then parses as is up to the payload",
]

SPECIAL_NUMS = {0, 1, 6, 17, 43, 44, 51, 58, 60}


def THEOREM_HINT(name):
    return [
        "EpModel.Props.C10.build_size",
        "EpModel.Props.C10.build_layout",
        "EpModel.Props.C10.build_checksums",
        "EpModel.Props.C10.build_rejects",
        "EpModel.Props.C10.build_parses",
        "EpModel.Props.C10.strict_slicing_accepts_ethernet",
    ]


# ------------------------------------------------------------------------------------------------
# RFC 1071


def csum(data):
    if len(data) % 2:
        data = data + b"\0"
    s = sum(struct.unpack("!%dH" % (len(data) // 2), data))
    while s >> 16:
        s = (s & 0xFFFF) + (s >> 16)
    return (~s) & 0xFFFF


def be(n, k):
    return int(n).to_bytes(k, "big")


# ------------------------------------------------------------------------------------------------
# random values


def r_u(rng, bits):
    return edge_int(rng, bits)


def r_addr(rng, n):
    return rbytes(rng, n)


def r_rawext_payload(rng, big=False):
    # payload length 6 + 8k
    k = rng.choice([0, 0, 0, 1, 2, 3]) if not big else rng.choice([0, 1, 30, 255])
    return rbytes(rng, 6 + 8 * k)


def r_icv(rng):
    return rbytes(rng, 4 * rng.choice([0, 0, 1, 2, 3, 4, 8]))


def r_num_plain(rng):
    while True:
        n = rng.choice([253, 254, 255, 200, 89, 132, 47, 50, 2, 4, 41, 59, rng.randrange(256)])
        if n not in SPECIAL_NUMS:
            return n


ICMP4_VARIANTS = ["unknown", "echoreply", "echoreq", "du", "redirect", "te", "pp", "tsreq", "tsreply"]
ICMP6_VARIANTS = ["unknown", "du", "ptb", "te", "pp", "echoreq", "echoreply", "rs", "ra", "ns", "na", "redirect"]


def r_icmp4(rng, v=None):
    v = v or rng.choice(ICMP4_VARIANTS)
    if v == "unknown":
        return (v, [rng.choice([1, 2, 4, 9, 15, 16, 17, 18, 40, 255, 0, 3, 8, rng.randrange(256)]), rng.choice([0, 1, 16, 255, rng.randrange(256)]), rbytes(rng, 4)])
    if v in ("echoreply", "echoreq"):
        return (v, [r_u(rng, 16), r_u(rng, 16)])
    if v == "du":
        return (v, [rng.randrange(16), r_u(rng, 16)])
    if v == "redirect":
        return (v, [rng.randrange(4), rbytes(rng, 4)])
    if v == "te":
        return (v, [rng.randrange(2)])
    if v == "pp":
        return (v, [rng.randrange(3), r_u(rng, 8)])
    return (v, [r_u(rng, 16), r_u(rng, 16), r_u(rng, 32), r_u(rng, 32), r_u(rng, 32)])


def r_icmp6(rng, v=None):
    v = v or rng.choice(ICMP6_VARIANTS)
    if v == "unknown":
        return (v, [rng.choice([0, 5, 100, 127, 130, 138, 200, 255, 1, 128, rng.randrange(256)]), rng.choice([0, 1, 7, 255, rng.randrange(256)]), rbytes(rng, 4)])
    if v == "du":
        return (v, [rng.randrange(7)])
    if v == "ptb":
        return (v, [r_u(rng, 32)])
    if v == "te":
        return (v, [rng.randrange(2)])
    if v == "pp":
        return (v, [rng.randrange(11), r_u(rng, 32)])
    if v in ("echoreq", "echoreply"):
        return (v, [r_u(rng, 16), r_u(rng, 16)])
    if v == "ra":
        return (v, [r_u(rng, 8), rng.randrange(2), rng.randrange(2), r_u(rng, 16)])
    if v == "na":
        return (v, [rng.randrange(2), rng.randrange(2), rng.randrange(2)])
    return (v, [])


def icmp_args_text(args):
    if not args:
        return "-"
    return ",".join(hx(a) if isinstance(a, (bytes, bytearray)) else str(a) for a in args)


def icmp4_wire(v, a):
    """-> (header bytes with zero checksum)"""
    if v == "unknown":
        return bytes([a[0], a[1], 0, 0]) + a[2]
    if v == "echoreply":
        return bytes([0, 0, 0, 0]) + be(a[0], 2) + be(a[1], 2)
    if v == "echoreq":
        return bytes([8, 0, 0, 0]) + be(a[0], 2) + be(a[1], 2)
    if v == "du":
        return bytes([3, a[0], 0, 0, 0, 0]) + be(a[1] if a[0] == 4 else 0, 2)
    if v == "redirect":
        return bytes([5, a[0], 0, 0]) + a[1]
    if v == "te":
        return bytes([11, a[0], 0, 0, 0, 0, 0, 0])
    if v == "pp":
        return bytes([12, a[0], 0, 0, a[1] if a[0] == 0 else 0, 0, 0, 0])
    t = 13 if v == "tsreq" else 14
    return bytes([t, 0, 0, 0]) + be(a[0], 2) + be(a[1], 2) + be(a[2], 4) + be(a[3], 4) + be(a[4], 4)


def icmp6_wire(v, a):
    if v == "unknown":
        return bytes([a[0], a[1], 0, 0]) + a[2]
    if v == "du":
        return bytes([1, a[0], 0, 0, 0, 0, 0, 0])
    if v == "ptb":
        return bytes([2, 0, 0, 0]) + be(a[0], 4)
    if v == "te":
        return bytes([3, a[0], 0, 0, 0, 0, 0, 0])
    if v == "pp":
        return bytes([4, a[0], 0, 0]) + be(a[1], 4)
    if v == "echoreq":
        return bytes([128, 0, 0, 0]) + be(a[0], 2) + be(a[1], 2)
    if v == "echoreply":
        return bytes([129, 0, 0, 0]) + be(a[0], 2) + be(a[1], 2)
    if v == "rs":
        return bytes([133, 0, 0, 0, 0, 0, 0, 0])
    if v == "ra":
        return bytes([134, 0, 0, 0, a[0], (a[1] << 7) | (a[2] << 6)]) + be(a[3], 2)
    if v == "ns":
        return bytes([135, 0, 0, 0, 0, 0, 0, 0])
    if v == "na":
        return bytes([136, 0, 0, 0, (a[0] << 7) | (a[1] << 6) | (a[2] << 5), 0, 0, 0])
    return bytes([137, 0, 0, 0, 0, 0, 0, 0])


FLAG_BITS = {"fin": 1, "syn": 2, "rst": 4, "psh": 8, "ack": 16, "urg": 32, "ece": 64, "cwr": 128, "ns": 256}


def r_tcp_opts(rng):
    k = rng.random()
    if k < 0.25:
        return ("none",)
    if k < 0.6:
        n = rng.choice([0, 1, 2, 3, 4, 5, 8, 12, 20, 37, 38, 39, 40, 40, rng.randrange(41)])
        if rng.random() < 0.04:
            n = rng.choice([41, 44, 60])
        return ("raw", rbytes(rng, n))
    es = []
    for _ in range(rng.choice([0, 1, 1, 2, 3, 4])):
        kind = rng.choice(["nop", "mss", "ws", "sackp", "ts", "sack"])
        if kind in ("nop", "sackp"):
            es.append((kind,))
        elif kind == "mss":
            es.append((kind, r_u(rng, 16)))
        elif kind == "ws":
            es.append((kind, r_u(rng, 8)))
        elif kind == "ts":
            es.append((kind, r_u(rng, 32), r_u(rng, 32)))
        else:
            slots = [(r_u(rng, 32), r_u(rng, 32)) if rng.random() < 0.4 else None for _ in range(3)]
            es.append((kind, (r_u(rng, 32), r_u(rng, 32)), tuple(slots)))
    return ("el", es)


def r_tp(rng, kind):
    if kind == "udp":
        return ("udp", r_u(rng, 16), r_u(rng, 16))
    if kind in ("tcp", "tcp_el"):
        ops = []
        for _ in range(rng.choice([0, 1, 2, 3, 5, 9])):
            f = rng.choice(list(FLAG_BITS))
            if f == "ack":
                ops.append(("ack", r_u(rng, 32)))
            elif f == "urg":
                ops.append(("urg", r_u(rng, 16)))
            else:
                ops.append((f,))
        o = r_tcp_opts(rng)
        if kind == "tcp_el" and o[0] != "el":
            o = ("el", [("mss", r_u(rng, 16)), ("nop",), ("ws", r_u(rng, 8))][: rng.randrange(4)])
        return ("tcp", r_u(rng, 16), r_u(rng, 16), r_u(rng, 32), r_u(rng, 16), ops, o)
    if kind == "tcph":
        n = 4 * rng.choice([0, 0, 1, 2, 5, 10])
        raw = rbytes(rng, rng.choice([n, n, max(0, n - rng.randrange(4))]))
        return ("tcph", dict(sp=r_u(rng, 16), dp=r_u(rng, 16), seq=r_u(rng, 32), ack=r_u(rng, 32), flags=rng.randrange(512), win=r_u(rng, 16), ck=r_u(rng, 16), urg=r_u(rng, 16), opts=raw))
    if kind.startswith("i4"):
        c = kind[3:]
        if c == "t":
            return ("i4", "t", r_icmp4(rng))
        if c == "raw":
            return ("i4", "raw", r_icmp4(rng, "unknown"))
        return ("i4", c, (None, [r_u(rng, 16), r_u(rng, 16)]))
    if kind.startswith("i6"):
        c = kind[3:]
        if c == "t":
            return ("i6", "t", r_icmp6(rng))
        if c == "raw":
            return ("i6", "raw", r_icmp6(rng, "unknown"))
        return ("i6", c, (None, [r_u(rng, 16), r_u(rng, 16)]))
    if kind == "raw":
        return ("raw", r_num_plain(rng) if rng.random() < 0.9 else rng.choice(sorted(SPECIAL_NUMS)))
    raise ValueError(kind)


def r_link(rng, kind):
    if kind == "none":
        return ("none",)
    if kind == "eth":
        return ("eth", r_addr(rng, 6), r_addr(rng, 6))
    return ("sll", rng.randrange(8), rng.choice([0, 6, 8, 9, 65535, rng.randrange(65536)]), r_addr(rng, 8))


def r_vlan_h(rng):
    return (rng.randrange(8), rng.randrange(2), rng.choice([0, 1, 4095, rng.randrange(4096)]), r_u(rng, 16))


def r_vlan(rng, kind):
    if kind == "none":
        return ("none",)
    if kind == "s":
        return ("s", rng.choice([0, 1, 4095, rng.randrange(4096)]))
    if kind == "d":
        return ("d", rng.randrange(4096), rng.randrange(4096))
    if kind == "vs":
        return ("vs", r_vlan_h(rng))
    return ("vd", r_vlan_h(rng), r_vlan_h(rng))


EXT6 = ["hbh", "dst", "rt", "fd", "fr", "au"]


def r_net(rng, kind, exts=None):
    if kind == "arp":
        hl = rng.choice([6, 6, 0, 1, 8, 255])
        pl = rng.choice([4, 4, 0, 16, 255])
        return ("arp", r_u(rng, 16), r_u(rng, 16), r_u(rng, 16), rbytes(rng, hl), rbytes(rng, pl), rbytes(rng, hl), rbytes(rng, pl))
    if kind == "v4":
        return ("v4", r_addr(rng, 4), r_addr(rng, 4), r_u(rng, 8))
    if kind == "v6":
        return ("v6", r_addr(rng, 16), r_addr(rng, 16), r_u(rng, 8))
    if kind in ("ip4", "ip4au"):
        frag = rng.random() < 0.08
        f = dict(
            dscp=rng.randrange(64), ecn=rng.randrange(4), tlen=r_u(rng, 16), id=r_u(rng, 16), df=rng.randrange(2),
            mf=1 if frag and rng.random() < 0.5 else 0, fo=0, ttl=r_u(rng, 8), proto=r_u(rng, 8), ck=r_u(rng, 16),
            src=r_addr(rng, 4), dst=r_addr(rng, 4), opts=rbytes(rng, 4 * rng.choice([0, 0, 0, 1, 2, 5, 10])),
        )
        if frag and not f["mf"]:
            f["fo"] = rng.choice([1, 8191, rng.randrange(1, 8192)])
        au = None
        if kind == "ip4au":
            au = (r_u(rng, 8), r_u(rng, 32), r_u(rng, 32), r_icv(rng))
        return ("ip4", f, au)
    # ip6 with the given extension set
    f = dict(tc=r_u(rng, 8), fl=rng.choice([0, 1, 0xFFFFF, rng.randrange(1 << 20)]), plen=r_u(rng, 16), nh=r_u(rng, 8), hop=r_u(rng, 8), src=r_addr(rng, 16), dst=r_addr(rng, 16))
    e = {}
    names = list(exts or [])
    for n in names:
        if n in ("hbh", "dst", "rt", "fd"):
            e[n] = (r_u(rng, 8), r_rawext_payload(rng, big=rng.random() < 0.05))
        elif n == "fr":
            fragm = rng.random() < 0.1
            e[n] = (r_u(rng, 8), rng.choice([1, 8191]) if fragm and rng.random() < 0.5 else 0, 1 if fragm and rng.random() < 0.5 else 0, r_u(rng, 32))
            if fragm and e[n][1] == 0 and e[n][2] == 0:
                e[n] = (e[n][0], 5, 0, e[n][3])
        else:
            e[n] = (r_u(rng, 8), r_u(rng, 32), r_u(rng, 32), r_icv(rng))
    rng.shuffle(names)  # order of the sub-sections in the text does not matter
    return ("ip6", f, e, names)


# ------------------------------------------------------------------------------------------------
# cfg text


def link_text(l):
    if l[0] == "none":
        return "none"
    if l[0] == "eth":
        return "eth:%s:%s" % (hx(l[1]), hx(l[2]))
    return "sll:%d:%d:%s" % (l[1], l[2], hx(l[3]))


def vlan_text(v):
    if v[0] == "none":
        return "none"
    if v[0] == "s":
        return "s:%d" % v[1]
    if v[0] == "d":
        return "d:%d:%d" % (v[1], v[2])
    if v[0] == "vs":
        return "vs:%d:%d:%d:%d" % v[1]
    return "vd:%d:%d:%d:%d:%d:%d:%d:%d" % (v[1] + v[2])


def ext_text(n, x):
    if n in ("hbh", "dst", "rt", "fd"):
        return "%s:%d:%s" % (n, x[0], hx(x[1]))
    if n == "fr":
        return "fr:%d:%d:%d:%d" % x
    return "au:%d:%d:%d:%s" % (x[0], x[1], x[2], hx(x[3]))


def net_text(n):
    if n[0] == "arp":
        return "arp:%d:%d:%d:%s:%s:%s:%s" % (n[1], n[2], n[3], hx(n[4]), hx(n[5]), hx(n[6]), hx(n[7]))
    if n[0] in ("v4", "v6"):
        return "%s:%s:%s:%d" % (n[0], hx(n[1]), hx(n[2]), n[3])
    if n[0] == "ip4":
        f = n[1]
        s = "ip4:%d:%d:%d:%d:%d:%d:%d:%d:%d:%d:%s:%s:%s" % (f["dscp"], f["ecn"], f["tlen"], f["id"], f["df"], f["mf"], f["fo"], f["ttl"], f["proto"], f["ck"], hx(f["src"]), hx(f["dst"]), hx(f["opts"]))
        if n[2] is not None:
            s += "|" + ext_text("au", n[2])
        return s
    f = n[1]
    s = "ip6:%d:%d:%d:%d:%d:%s:%s" % (f["tc"], f["fl"], f["plen"], f["nh"], f["hop"], hx(f["src"]), hx(f["dst"]))
    for name in n[3]:
        s += "|" + ext_text(name, n[2][name])
    return s


def tp_text(t):
    k = t[0]
    if k == "none":
        return "none"
    if k == "raw":
        return "raw:%d" % t[1]
    if k == "udp":
        return "udp:%d:%d" % (t[1], t[2])
    if k == "tcp":
        ops = ",".join(o[0] if len(o) == 1 else "%s=%d" % o for o in t[5]) or "-"
        o = t[6]
        ot = "-" if o[0] == "none" else ("raw=" + hx(o[1]) if o[0] == "raw" else "el=" + c13.elems_text(o[1]))
        return "tcp:%d:%d:%d:%d|%s|%s" % (t[1], t[2], t[3], t[4], ops, ot)
    if k == "tcph":
        h = t[1]
        fl = h["flags"]
        bits = "".join("1" if fl & FLAG_BITS[n] else "0" for n in ["ns", "fin", "syn", "rst", "psh", "ack", "urg", "ece", "cwr"])
        return "tcph:%d:%d:%d:%d:%s:%d:%d:%d:%s" % (h["sp"], h["dp"], h["seq"], h["ack"], bits, h["win"], h["ck"], h["urg"], hx(h["opts"]))
    # icmp
    ctor, (v, a) = t[1], t[2]
    if ctor == "t":
        return "%s:t:%s:%s" % (k, v, icmp_args_text(a))
    if ctor == "raw":
        return "%s:raw:%d:%d:%s" % (k, a[0], a[1], hx(a[2]))
    return "%s:%s:%d:%d" % (k, ctor, a[0], a[1])


def cfg_text(c):
    return "/".join([link_text(c["link"]), vlan_text(c["vlan"]), net_text(c["net"]), tp_text(c["tp"])])


def payload_arg(p):
    """p = ('hex', bytes) | ('len', n, byte)"""
    if p[0] == "hex":
        return hx(p[1])
    return "len:%d:%d" % (p[1], p[2])


def payload_bytes(p):
    return p[1] if p[0] == "hex" else bytes([p[2]]) * p[1]


# ------------------------------------------------------------------------------------------------
# reference builder (from the RFC formats; shares nothing with the Lean model)


class Ref:
    """result of the reference construction"""

    def __init__(self):
        self.status = None  # 'ok' | 'err' | 'ctor'
        self.bytes = b""
        self.err = None
        self.written = b""
        self.spec = None  # expected Spec.decode rendering, or ('err-prefix', text), or None = not compared
        self.size = None


def tcp_header_ref(t):
    """-> dict(sp,dp,seq,ack,flags9,win,urg,opts) or ('ctor', n)"""
    if t[0] == "tcph":
        h = t[1]
        raw = h["opts"]
        if len(raw) > 40:
            return ("ctor", len(raw))
        return dict(sp=h["sp"], dp=h["dp"], seq=h["seq"], ack=h["ack"], flags=h["flags"], win=h["win"], urg=h["urg"], opts=raw + bytes((-len(raw)) % 4))
    flags, ack, urg = 0, 0, 0
    for o in t[5]:
        flags |= FLAG_BITS[o[0]]
        if o[0] == "ack":
            ack = o[1]
        if o[0] == "urg":
            urg = o[1]
    o = t[6]
    if o[0] == "none":
        opts = b""
    elif o[0] == "raw":
        if len(o[1]) > 40:
            return ("ctor", len(o[1]))
        opts = o[1] + bytes((-len(o[1])) % 4)
    else:
        r = c13.ref_encode([c13.norm(e) for e in o[1]])
        if isinstance(r, tuple):
            return ("ctor", r[1])
        opts = r
    return dict(sp=t[1], dp=t[2], seq=t[3], ack=ack, flags=flags, win=t[4], urg=urg, opts=opts)


def w(o, l):
    return "(%d,%d)" % (o, l)


def ref_build(c, payload):
    r = Ref()
    link, vlan, net, tp = c["link"], c["vlan"], c["net"], c["tp"]
    # ---- transport header (zero checksum) and ip number
    tph = None
    th = b""
    num = None
    if tp[0] == "udp":
        num = 17
        th = be(tp[1], 2) + be(tp[2], 2) + be((8 + len(payload)) & 0xFFFF, 2) + b"\0\0"
    elif tp[0] in ("tcp", "tcph"):
        num = 6
        tph = tcp_header_ref(tp)
        if isinstance(tph, tuple):
            r.status = "ctor"
            r.err = "err(ctor(TcpOptions(NotEnoughSpace(%d))))" % tph[1]
            return r
        doff = 5 + len(tph["opts"]) // 4
        th = be(tph["sp"], 2) + be(tph["dp"], 2) + be(tph["seq"], 4) + be(tph["ack"], 4) + bytes([(doff << 4) | (tph["flags"] >> 8), tph["flags"] & 0xFF]) + be(tph["win"], 2) + b"\0\0" + be(tph["urg"], 2) + tph["opts"]
    elif tp[0] == "i4":
        num = 1
        v, a = tp[2]
        if tp[1] in ("ereq", "erep"):
            v = "echoreq" if tp[1] == "ereq" else "echoreply"
        th = icmp4_wire(v, a)
    elif tp[0] == "i6":
        num = 58
        v, a = tp[2]
        if tp[1] in ("ereq", "erep"):
            v = "echoreq" if tp[1] == "ereq" else "echoreply"
        th = icmp6_wire(v, a)
    elif tp[0] == "raw":
        num = tp[1]

    # ---- link + vlan
    net_et = {"arp": 0x0806, "v4": 0x0800, "ip4": 0x0800, "v6": 0x86DD, "ip6": 0x86DD}[net[0]]
    tags = []
    if vlan[0] == "s":
        tags = [(0, 0, vlan[1])]
    elif vlan[0] == "d":
        tags = [(0, 0, vlan[1]), (0, 0, vlan[2])]
    elif vlan[0] == "vs":
        tags = [vlan[1][:3]]
    elif vlan[0] == "vd":
        tags = [vlan[1][:3], vlan[2][:3]]
    first_et = net_et if not tags else (0x8100 if len(tags) == 1 else 0x88A8)
    pre = b""
    if link[0] == "eth":
        pre = link[2] + link[1] + be(first_et, 2)
    elif link[0] == "sll":
        pre = be(link[1], 2) + be(1, 2) + be(link[2], 2) + link[3] + be(net_et, 2)
    link_len = len(pre)
    tag_ets = []
    for i, (pcp, dei, vid) in enumerate(tags):
        et = net_et if i == len(tags) - 1 else 0x8100
        tag_ets.append(et)
        pre += be((pcp << 13) | (dei << 12) | vid, 2) + be(et, 2)

    # ---- net
    if net[0] == "arp":
        hl, pl = len(net[4]), len(net[5])
        body = be(net[1], 2) + be(net[2], 2) + bytes([hl, pl]) + be(net[3], 2) + net[4] + net[5] + net[6] + net[7]
        out = pre + body
        r.status, r.bytes, r.size = "ok", out, len(out)
        r.spec = spec_text(c, r, link_len, tags, tag_ets, first_et, None, None, None, payload, out)
        return r

    v4 = net[0] in ("v4", "ip4")
    if v4:
        if net[0] == "v4":
            f = dict(dscp=0, ecn=0, id=0, df=1, mf=0, fo=0, ttl=net[3], src=net[1], dst=net[2], opts=b"")
            au = None
        else:
            f, au = net[1], net[2]
        ext = b""
        chain = []
        if au is not None:
            ext = bytes([num, (12 + len(au[3])) // 4 - 2, 0, 0]) + be(au[1], 4) + be(au[2], 4) + au[3]
            chain = [("au", 51, len(ext))]
        ihl_len = 20 + len(f["opts"])
        inner = len(ext) + len(th) + len(payload)
        r.size = len(pre) + ihl_len + inner
        maxp = 65535 - ihl_len
        if inner > maxp:
            r.status = "err"
            r.err = "PayloadLen(actual=%d,max=%d,type=Ipv4PayloadLength)" % (inner, maxp)
            r.written = pre
            return r
        proto = 51 if au is not None else num
        tl = ihl_len + inner
        hdr = bytes([0x40 | (ihl_len // 4), (f["dscp"] << 2) | f["ecn"]]) + be(tl, 2) + be(f["id"], 2) + be((f["df"] << 14) | (f["mf"] << 13) | f["fo"], 2) + bytes([f["ttl"], proto]) + b"\0\0" + f["src"] + f["dst"] + f["opts"]
        ck = csum(hdr)
        hdr = hdr[:10] + be(ck, 2) + hdr[12:]
        if tp[0] == "i6":
            r.status = "err"
            r.err = "Icmpv6InIpv4"
            r.written = pre + hdr + ext
            return r
        pseudo = f["src"] + f["dst"] + bytes([0, num & 0xFF]) + be(len(th) + len(payload), 2)
        frag = bool(f["mf"] or f["fo"])
        ipinfo = dict(v4=True, f=f, hl=ihl_len, tl=tl, proto=proto, ck=ck, au=au, frag=frag)
    else:
        if net[0] == "v6":
            f = dict(tc=0, fl=0, hop=net[3], src=net[1], dst=net[2])
            e = {}
        else:
            f, e = net[1], net[2]
        order = [n for n in ["hbh", "dst", "rt", "fr", "au", "fd"] if n in e]
        nums = {"hbh": 0, "dst": 60, "rt": 43, "fr": 44, "au": 51, "fd": 60}
        ext = b""
        chain = []
        frag = False
        for i, n in enumerate(order):
            nxt = nums[order[i + 1]] if i + 1 < len(order) else num
            x = e[n]
            if n in ("hbh", "dst", "rt", "fd"):
                b = bytes([nxt, (len(x[1]) - 6) // 8]) + x[1]
            elif n == "fr":
                b = bytes([nxt, 0]) + be((x[1] << 3) | x[2], 2) + be(x[3], 4)
                frag = frag or bool(x[1] or x[2])
            else:
                b = bytes([nxt, (12 + len(x[3])) // 4 - 2, 0, 0]) + be(x[1], 4) + be(x[2], 4) + x[3]
            chain.append((n, nxt, len(b)))
            ext += b
        inner = len(ext) + len(th) + len(payload)
        r.size = len(pre) + 40 + inner
        if inner > 65535:
            r.status = "err"
            r.err = "PayloadLen(actual=%d,max=65535,type=Ipv6PayloadLength)" % inner
            r.written = pre
            return r
        first_nh = nums[order[0]] if order else num
        hdr = be((6 << 28) | (f["tc"] << 20) | f["fl"], 4) + be(inner, 2) + bytes([first_nh, f["hop"]]) + f["src"] + f["dst"]
        # RFC 8200 8.1 pseudo header: addresses, 32 bit upper-layer length, 3 zero bytes, next header
        pseudo = f["src"] + f["dst"] + be(len(th) + len(payload), 4) + bytes([0, 0, 0, (num or 0) & 0xFF])
        ipinfo = dict(v4=False, f=f, plen=inner, nh=first_nh, frag=frag, chain=chain)

    # ---- transport checksum
    if tp[0] == "udp":
        ck = csum(pseudo + th + payload)
        if ck == 0:
            ck = 0xFFFF
        th = th[:6] + be(ck, 2)
    elif tp[0] in ("tcp", "tcph"):
        ck = csum(pseudo + th + payload)
        th = th[:16] + be(ck, 2) + th[18:]
    elif tp[0] == "i4":
        ck = csum(th + payload)
        th = th[:2] + be(ck, 2) + th[4:]
    elif tp[0] == "i6":
        ck = csum(pseudo + th + payload)
        th = th[:2] + be(ck, 2) + th[4:]
    out = pre + hdr + ext + th + payload
    r.status, r.bytes = "ok", out
    r.spec = spec_text(c, r, link_len, tags, tag_ets, first_et, ipinfo, (hdr, ext, th), num, payload, out)
    return r


def spec_text(c, r, link_len, tags, tag_ets, first_et, ip, parts, num, payload, out):
    """the rendering Spec.decode must produce for `out` (EpModel/Driver/DecRender.lean `packet`),
    computed from the *configured* values and the reference lengths / checksums."""
    link, net, tp = c["link"], c["net"], c["tp"]
    n = len(out)
    if n > 2000:
        return None
    if link[0] == "none":
        ls = "none"
    elif link[0] == "eth":
        ls = "eth2(s=%s,dst=%s,src=%s,et=%d,pl=%s)" % (w(0, n), hx(link[2]), hx(link[1]), first_et, w(14, n - 14))
    else:
        et = 0x0806 if net[0] == "arp" else (0x0800 if net[0] in ("v4", "ip4") else 0x86DD)
        ls = "sll(s=%s,pt=%d,hw=1,alen=%d,addr=%s,proto=EtherType(%d),sa=%s,pl=%s)" % (w(0, n), link[1], link[2], hx(link[3]), et, w(6, min(link[2], 8)), w(16, n - 16))
    o = link_len
    es = []
    for (pcp, dei, vid), et in zip(tags, tag_ets):
        es.append("vlan(s=%s,pcp=%d,dei=%d,vid=%d,et=%d,pl=%s)" % (w(o, n - o), pcp, dei, vid, et, w(o + 4, n - o - 4)))
        o += 4
    if net[0] == "arp":
        hl, pl = len(net[4]), len(net[5])
        total = 8 + 2 * hl + 2 * pl
        ns = "arp(s=%s,hw=%d,proto=%d,hlen=%d,plen=%d,op=%d,sha=%s,spa=%s,tha=%s,tpa=%s)" % (w(o, total), net[1], net[2], hl, pl, net[3], w(o + 8, hl), w(o + 8 + hl, pl), w(o + 8 + hl + pl, hl), w(o + 8 + hl * 2 + pl, pl))
        return "ok(link=%s;exts=[%s];net=%s;tp=none;stop=none)" % (ls, ",".join(es), ns)
    hdr, ext, th = parts
    if tp[0] == "raw" and num in SPECIAL_NUMS:
        return None
    f = ip["f"]
    if ip["v4"]:
        hl = ip["hl"]
        po = o + hl
        if ip["au"] is not None:
            au = ip["au"]
            al = 12 + len(au[3])
            aus = "ah(s=%s,nh=%d,spi=%d,seq=%d,icv=%s)" % (w(po, al), num, au[1], au[2], w(po + 12, al - 12))
            po += al
        else:
            aus = "none"
        stop = o + ip["tl"]
        ns = "ipv4(h=%s,ihl=%d,dscp=%d,ecn=%d,tl=%d,id=%d,df=%d,mf=%d,fo=%d,ttl=%d,proto=%d,ck=%d,src=%s,dst=%s,opts=%s,auth=%s,pl=(num=%d,frag=%d,src=Ipv4HeaderTotalLen,w=%s,inc=0))" % (
            w(o, hl), hl // 4, f["dscp"], f["ecn"], ip["tl"], f["id"], f["df"], f["mf"], f["fo"], f["ttl"], ip["proto"], ip["ck"], hx(f["src"]), hx(f["dst"]), w(o + 20, hl - 20), aus, num, 1 if ip["frag"] else 0, w(po, stop - po))
    else:
        eo = o + 40
        items = []
        names = {"hbh": "HopByHop", "dst": "DestinationOptions", "rt": "Routing", "fd": "DestinationOptions"}
        e = net[2] if net[0] == "ip6" else {}
        for name, nxt, ln in ip["chain"]:
            if name in names:
                items.append("%s(s=%s,nh=%d)" % (names[name], w(eo, ln), nxt))
            elif name == "fr":
                x = e["fr"]
                items.append("Fragment(s=%s,nh=%d,fo=%d,mf=%d,id=%d)" % (w(eo, 8), nxt, x[1], x[2], x[3]))
            else:
                x = e["au"]
                items.append("Authentication(s=%s,nh=%d,spi=%d,seq=%d,icv=%s)" % (w(eo, ln), nxt, x[1], x[2], w(eo + 12, ln - 12)))
            eo += ln
        stop = o + 40 + ip["plen"]
        ns = "ipv6(h=%s,tc=%d,fl=%d,plen=%d,nh=%d,hop=%d,src=%s,dst=%s,exts=%s,first=%s,iter=[%s],pl=(num=%d,frag=%d,src=Ipv6HeaderPayloadLen,w=%s,inc=0))" % (
            w(o, 40), f["tc"], f["fl"], ip["plen"], ip["nh"], f["hop"], hx(f["src"]), hx(f["dst"]), w(o + 40, eo - o - 40), ("%d" % ip["nh"]) if ip["chain"] else "none", ",".join(items), num, 1 if ip["frag"] else 0, w(eo, stop - eo))
        po = eo
    avail = stop - po
    pstart = n - len(payload)
    ts = "none"
    if not ip["frag"]:
        if tp[0] == "udp":
            ck = int.from_bytes(th[6:8], "big")
            ts = "udp(s=%s,sp=%d,dp=%d,len=%d,ck=%d,pl=%s)" % (w(po, avail), tp[1], tp[2], 8 + len(payload), ck, w(po + 8, avail - 8))
            if po + 8 != pstart:
                return ("bad-ref", "udp payload start")
        elif tp[0] in ("tcp", "tcph"):
            h = tcp_header_ref(tp)
            hl = 20 + len(h["opts"])
            ck = int.from_bytes(th[16:18], "big")
            ts = "tcp(s=%s,hl=%d,sp=%d,dp=%d,seq=%d,ack=%d,doff=%d,flags=%d,win=%d,ck=%d,urg=%d,opts=%s,pl=%s)" % (
                w(po, avail), hl, h["sp"], h["dp"], h["seq"], h["ack"], hl // 4, h["flags"], h["win"], ck, h["urg"], w(po + 20, hl - 20), w(po + hl, avail - hl))
            if out[po + 20 : po + hl] != h["opts"]:
                return ("bad-ref", "tcp options")
        elif tp[0] in ("i4", "i6"):
            ck = int.from_bytes(th[2:4], "big")
            t, code = th[0], th[1]
            if tp[0] == "i4":
                phl = 20 if (t in (13, 14) and code == 0) else 8
                if phl == 20 and avail != 20:
                    return ("err-prefix", "err(fault(cls=%s,unit=icmp4," % ("cutShort" if avail < 20 else "tooLong"))
                ts = "icmp4(s=%s,type=%d,code=%d,ck=%d,b58=%s,hl=%d,pl=%s)" % (w(po, avail), t, code, ck, hx(th[4:8]), phl, w(po + phl, avail - phl))
            else:
                ts = "icmp6(s=%s,type=%d,code=%d,ck=%d,b58=%s,pl=%s)" % (w(po, avail), t, code, ck, hx(th[4:8]), w(po + 8, avail - 8))
    return "ok(link=%s;exts=[%s];net=%s;tp=%s;stop=none)" % (ls, ",".join(es), ns, ts)


def digest(b):
    return zlib.adler32(bytes(b)) & 0xFFFFFFFF


def show_bytes(b):
    if len(b) > 2000:
        return "head=%s,tail=%s,ck=%d" % (hx(b[:128]), hx(b[-16:]), digest(b))
    return "b=" + hx(b)


# ------------------------------------------------------------------------------------------------
# cases


def stack_limit(c):
    """largest payload length the stack can encode (None for ARP)"""
    net, tp = c["net"], c["tp"]
    if net[0] == "arp":
        return None
    tl = 0
    if tp[0] == "udp":
        tl = 8
    elif tp[0] in ("tcp", "tcph"):
        h = tcp_header_ref(tp)
        if isinstance(h, tuple):
            return None
        tl = 20 + len(h["opts"])
    elif tp[0] == "i4":
        v = tp[2][0]
        tl = 20 if (tp[1] == "t" and v in ("tsreq", "tsreply")) else 8
    elif tp[0] == "i6":
        tl = 8
    if net[0] == "v4":
        return 65535 - 20 - tl
    if net[0] == "ip4":
        au = net[2]
        return 65535 - 20 - len(net[1]["opts"]) - (12 + len(au[3]) if au else 0) - tl
    if net[0] == "v6":
        return 65535 - tl
    e = net[2]
    el = 0
    for n, x in e.items():
        if n in ("hbh", "dst", "rt", "fd"):
            el += 2 + len(x[1])
        elif n == "fr":
            el += 8
        else:
            el += 12 + len(x[3])
    return 65535 - el - tl


def start_of(c):
    return {"none": "ip", "eth": "eth", "sll": "sll"}[c["link"][0]]


def make_case(c, p, slice_caps=()):
    """stage-1 form of a case (the Spec line is added once the implementation's bytes are known)"""
    text = cfg_text(c)
    lines = ["build.write\t%s\t%s" % (text, payload_arg(p))]
    meta = {"cfg": c, "payload": p, "caps": list(slice_caps), "path": path_name(c)}
    return Case(lines, meta)


def path_name(c):
    n = c["net"]
    nk = n[0]
    if nk == "ip4" and n[2] is not None:
        nk = "ip4+au"
    if nk == "ip6":
        nk = "ip6[" + "+".join(x for x in ["hbh", "dst", "rt", "fr", "au", "fd"] if x in n[2]) + "]"
    t = c["tp"]
    tk = t[0] + ("." + t[1] if t[0] in ("i4", "i6") else "")
    if t[0] == "tcp":
        tk += "." + t[6][0]
    return "%s/%s/%s/%s" % (c["link"][0], c["vlan"][0], nk, tk)


HEXB = re.compile(r"[,(]b=([0-9a-f]+|-)\)")


def finish_cases(cases):
    """stage 2: run the implementation on the build lines, append the Spec.decode line for the
    bytes it emitted (outputs of at most 2000 bytes) and the write_to_slice lines."""
    lines = [c.lines[0] for c in cases]
    outs = core._run_stream(core.EPHAR, lines, True) if lines else []
    done = []
    for c, o in zip(cases, outs):
        cfg, p = c.meta["cfg"], c.meta["payload"]
        meta = dict(c.meta)
        # meta must be JSON serialisable for replay files: keep the texts only
        meta = {"path": meta["path"], "cfg_text": c.lines[0].split("\t")[1], "payload": payload_arg(p), "caps": meta["caps"]}
        newlines = [c.lines[0]]
        m = HEXB.search(o or "")
        if o and o.startswith("ok(") and m:
            newlines.append("spec.dec.decode\t%s\t%s" % (start_of(cfg), m.group(1)))
        for cap in c.meta["caps"]:
            newlines.append("build.slice\t%s\t%s\t%d" % (meta["cfg_text"], payload_arg(p), cap))
        nc = Case(newlines, meta)
        nc.meta["_ref"] = None
        done.append((nc, cfg, p))
    return done


_REF = {}


def generate(rng, tier):
    quick = tier == "quick"
    stage1 = []
    lv = [("none", "none"), ("eth", "none"), ("eth", "s"), ("eth", "d"), ("eth", "vs"), ("eth", "vd"), ("sll", "none")]
    tps = ["udp", "tcp", "tcp_el", "tcph", "i4_t", "i4_raw", "i4_ereq", "i4_erep", "i6_t", "i6_raw", "i6_ereq", "i6_erep", "raw"]
    all_sets = []
    for m in range(64):
        s = [EXT6[i] for i in range(6) if m >> i & 1]
        if "fd" in s and "rt" not in s:
            continue
        all_sets.append(s)
    if quick:
        base_sets = [[], ["hbh"], ["dst"], ["rt"], ["rt", "fd"], ["fr"], ["au"], list(EXT6)]
        ext_sets = base_sets + rng.sample([s for s in all_sets if s not in base_sets], 4)
    else:
        ext_sets = all_sets
    nets = [("v4", None), ("v6", None), ("ip4", None), ("ip4au", None)] + [("ip6", s) for s in ext_sets]
    reps = 1 if quick else 2
    for _ in range(reps):
        for lk, vk in lv:
            # ARP
            if lk != "none":
                for _ in range(2 if quick else 6):
                    c = dict(link=r_link(rng, lk), vlan=r_vlan(rng, vk), net=r_net(rng, "arp"), tp=("none",))
                    rb = ref_build(c, b"")
                    stage1.append(make_case(c, ("hex", b""), [rb.size - 1, rb.size, rb.size + 3]))
            for nk, exts in nets:
                for tk in tps:
                    c = dict(link=r_link(rng, lk), vlan=r_vlan(rng, vk), net=r_net(rng, nk, exts), tp=r_tp(rng, tk))
                    lim = stack_limit(c)
                    small = [0, 1, 7, 8]
                    if rng.random() < 0.3:
                        small.append(rng.choice([2, 3, 9, 15, 16, 31, 100, 1400, 1999, 2500]))
                    for n in small:
                        p = ("hex", rbytes(rng, n))
                        caps = []
                        if n in (0, 7) or rng.random() < 0.15:
                            rb = ref_build(c, payload_bytes(p))
                            if rb.size is not None:
                                caps = [max(0, rb.size - 1), rb.size, rb.size + 3]
                        stage1.append(make_case(c, p, caps))
                    if lim is None:
                        continue
                    # around the limit of the stack: lim-2 .. lim+2 (quick: lim-1..lim+1 always, +-2 for a third)
                    ds = [0, 1]
                    if not quick or rng.random() < 0.25:
                        ds = [-2, -1, 0, 1, 2]
                    for d in ds:
                        n = lim + d
                        if n < 0:
                            continue
                        p = ("len", n, rng.choice([0, 0xFF, 0x55, rng.randrange(256)]))
                        stage1.append(make_case(c, p, []))
    # fixed-field limits regardless of the stack: UDP 65 507 / 65 527, 65 535, 65 536
    for n in (65507, 65508, 65515, 65516, 65527, 65528, 65535, 65536, 70000):
        for nk in ("v4", "v6"):
            for tk in ("udp", "tcp", "i4_ereq", "i6_ereq", "raw"):
                c = dict(link=r_link(rng, "eth"), vlan=("none",), net=r_net(rng, nk), tp=r_tp(rng, tk))
                stage1.append(make_case(c, ("len", n, 0xA5), []))
    # stage 2
    B = 4000
    for i in range(0, len(stage1), B):
        for nc, cfg, p in finish_cases(stage1[i : i + B]):
            key = (nc.lines[0])
            _REF[key] = (cfg, p)
            del nc.meta["_ref"]
            yield nc


def is_trivial(c):
    return "/arp:" in c.lines[0]


# ------------------------------------------------------------------------------------------------
# oracle


def parse_cfg_text(text):
    return None


def oracle(c):
    out = []
    impl = c.impl[0]
    if impl is None:
        return [("missing-output", {})]
    key = c.lines[0]
    if key not in _REF:
        # replayed case: the configuration is only known as text; check the generic relations
        return oracle_generic(c)
    cfg, p = _REF[key]
    payload = payload_bytes(p)
    for marker in ("panic", "fault(", "!serialisers-differ", "!mk-", "bad-op"):
        if marker in impl:
            out.append(("runtime-" + marker.strip("!(-"), {"impl": impl[:300], "line": c.lines[0][:300]}))
    if out:
        return out
    ref = ref_build(cfg, payload)
    if ref.status == "ctor":
        if impl != ref.err:
            out.append(("constructor-error-differs", {"impl": impl[:200], "expected": ref.err}))
        return out
    if ref.status == "err":
        exp = "err(%s,size=%d,written=%s)" % (ref.err, ref.size, hx(ref.written))
        if impl.startswith("ok("):
            out.append(("accepts-unencodable", {"impl": impl[:300], "expected": exp, "line": c.lines[0][:300]}))
        elif impl != exp:
            out.append(("error-differs", {"impl": impl[:400], "expected": exp, "line": c.lines[0][:300]}))
    else:
        exp = "ok(size=%d,len=%d,%s)" % (len(ref.bytes), len(ref.bytes), show_bytes(ref.bytes))
        if impl.startswith("err("):
            out.append(("rejects-encodable", {"impl": impl[:300], "line": c.lines[0][:300]}))
        elif impl != exp:
            m = re.match(r"ok\(size=(\d+),len=(\d+),", impl)
            if m and m.group(1) != m.group(2):
                out.append(("size-differs-from-written", {"impl": impl[:200], "line": c.lines[0][:300]}))
            else:
                out.append(("bytes-differ-from-reference", {"impl": impl[:700], "expected": exp[:700], "diff": first_diff(impl, exp), "line": c.lines[0][:300]}))
    # Spec.decode of the emitted bytes
    li = 1
    if len(c.lines) > 1 and c.lines[1].startswith("spec.dec.decode"):
        spec = c.model[1]
        li = 2
        if ref.status == "ok" and ref.spec is not None:
            if isinstance(ref.spec, tuple) and ref.spec[0] == "err-prefix":
                if not (spec or "").startswith(ref.spec[1]):
                    out.append(("parse-should-reject-inadmissible-payload", {"spec": spec, "expected": ref.spec[1]}))
            elif isinstance(ref.spec, tuple):
                out.append(("reference-inconsistent", {"what": ref.spec[1]}))
            elif spec != ref.spec:
                kind = "strict-parse-rejects-output" if not (spec or "").startswith("ok(") else "parsed-layers-differ-from-configuration"
                out.append((kind, {"spec": spec, "expected": ref.spec, "diff": first_diff(spec or "", ref.spec), "line": c.lines[0][:300]}))
    elif ref.status == "ok" and len(ref.bytes) <= 2000 and impl.startswith("ok("):
        out.append(("no-spec-line", {}))
    # write_to_slice with other capacities
    for cap, line_i in zip(c.meta.get("caps", []), range(li, len(c.lines))):
        got = c.impl[line_i]
        if ref.size is None:
            continue
        if cap < ref.size:
            exp = "err(Space(%d))" % ref.size
        elif ref.status == "err":
            exp = "err(%s)" % ref.err
        else:
            exp = "ok(n=%d,len=%d,%s)" % (len(ref.bytes), len(ref.bytes), show_bytes(ref.bytes))
        if got != exp:
            out.append(("write-to-slice-differs", {"cap": cap, "impl": (got or "")[:400], "expected": exp[:400], "line": c.lines[line_i][:300]}))
    return out


def oracle_generic(c):
    out = []
    impl = c.impl[0] or ""
    for marker in ("panic", "fault(", "!serialisers-differ", "!mk-"):
        if marker in impl:
            out.append(("runtime-" + marker.strip("!(-"), {"impl": impl[:300]}))
    m = re.match(r"ok\(size=(\d+),len=(\d+),", impl)
    if m and m.group(1) != m.group(2):
        out.append(("size-differs-from-written", {"impl": impl[:200]}))
    if len(c.lines) > 1 and c.lines[1].startswith("spec.dec.decode") and impl.startswith("ok("):
        mm = HEXB.search(impl)
        if mm and c.lines[1].split("\t")[-1] != mm.group(1):
            out.append(("bytes-differ-from-recorded", {"impl": impl[:400]}))
    return out


def first_diff(a, b):
    n = min(len(a), len(b))
    for i in range(n):
        if a[i] != b[i]:
            return {"at": i, "impl": a[max(0, i - 30) : i + 40], "expected": b[max(0, i - 30) : i + 40]}
    return {"at": n, "len_impl": len(a), "len_expected": len(b)}


def extra_coverage(cases):
    paths = {}
    big = 0
    errs = {}
    for c in cases:
        paths[c.meta.get("path", "?")] = paths.get(c.meta.get("path", "?"), 0) + 1
        o = c.impl[0] or ""
        if ",head=" in o:
            big += 1
        if o.startswith("err("):
            k = re.sub(r"[0-9a-f]{6,}|\d+", "#", o.split(",size=")[0])
            errs[k] = errs.get(k, 0) + 1
    return {"builder_paths": len(paths), "outputs_over_2000_bytes": big, "error_kinds": errs}
