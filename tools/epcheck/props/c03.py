"""C03 - strict packet slicing matches the wire formats for every byte string."""
from ..core import Case
from .. import decsupport as D
from ..gen import hx

ID = "C03"
RULE = (
    "structured packets from the layer-stack grammar (Ethernet|SLL|ether type|IP start x 0-4 VLAN/MACsec x ARP|IPv4[+AH]|"
    "IPv6[+ext chain] x UDP|TCP|ICMPv4|ICMPv6|other), 68% with perturbed length/type fields, trailing bytes and cuts, 7% noise, "
    "plus every truncation of base packets; each through the strict slicing door of its start point and, for Ethernet/IP starts, "
    "the single-layer doors; non-trivial = distinct input whose first header is decodable"
)
EXPLANATION = (
    "theorems: EpModel/Props/C03.lean (model of SlicedPacket refines Spec.decode; payload bounds); correspondence: "
    "sliced_packet_cursor.rs + strict slice types vs EpModel.Model.Dec; oracle: implementation output vs Spec.decode "
    "(EpModel/Spec/Decode.lean, run by the Lean driver) - layers, field values, windows, fragmentation flags, verdict"
)
ASSUMPTIONS = ["Spec is my transcription of the RFC formats and the crate's documented conventions"]


def build(meta):
    start, et, data = meta["start"], meta["et"], D.meta_bytes(meta)
    suf, pre = D.entry_suffix(start, et)
    lines = ["dec.sp_%s\t%s%s" % (suf, pre, hx(data)), D.spec_line(start, et, data)]
    if start == "eth":
        lines.append("dec.eth2\t" + hx(data))
    elif start == "sll":
        lines.append("dec.sll\t" + hx(data))
    elif start == "ip":
        lines += ["dec.ip_slice\t" + hx(data), "dec.ipv4_slice\t" + hx(data), "dec.ipv6_slice\t" + hx(data)]
        lines.append(["dec.udp\t", "dec.tcp\t", "dec.icmp4\t", "dec.icmp6\t"][meta.get("k", 0)] + hx(data))
    elif start == "et":
        if et == 0x88E5:
            lines.append("dec.macsec\t" + hx(data))
        elif et in (0x8100, 0x88A8, 0x9100):
            lines.append("dec.vlan\t" + hx(data))
        elif et == 0x0806:
            lines.append("dec.arp\t" + hx(data))
    return Case(lines, meta)


rebuild = build


def generate(rng, tier):
    n = 14000 if tier == "quick" else 400000
    tb = 60 if tier == "quick" else 1500
    for start, et, data, meta in D.base_inputs(rng, n, tb):
        yield build(meta)


def is_trivial(c):
    o = c.impl[0] or ""
    return o.startswith("err(") and "off=0)" in o and "layer=Ethernet2Header" in o


def oracle(c):
    out = []
    impl = c.impl[0]
    spec = c.model[1]
    if impl is None or spec is None:
        return [("missing-output", {})]
    for m in D.bad_markers(impl):
        out.append(("runtime-" + m.strip("!("), {"impl": impl[:300]}))
    if impl.startswith("ok("):
        if not spec.startswith("ok("):
            out.append(("accepts-what-format-rejects", {"impl": impl[:400], "spec": spec}))
        elif D.strip_src(impl) != D.strip_src(spec):
            out.append(("layers-differ-from-format", {"impl": impl, "spec": spec}))
    elif impl.startswith("err("):
        if spec.startswith("ok("):
            out.append(("rejects-what-format-accepts", {"impl": impl, "spec": spec[:400]}))
        else:
            # both reject; which fault is named and how is C07's subject
            if D.parse_fault(spec) is None:
                out.append(("bad-spec-output", {"spec": spec}))
    else:
        out.append(("malformed-impl-output", {"impl": impl}))
    return out


def search(rng, corr_failures, run_cases):
    import sys

    return D.search_decode(sys.modules[__name__], rng, corr_failures, run_cases)
