"""C04 - decoding into header structs agrees with slicing."""
import re

from ..core import Case
from .. import decsupport as D
from ..gen import hx

ID = "C04"
RULE = (
    "structured packets (emphasis on inner length fields that disagree with the buffer, duplicated / misordered IPv6 extension "
    "headers, MACsec short lengths with trailing bytes) through PacketHeaders next to SlicedPacket and LaxPacketHeaders next to "
    "LaxSlicedPacket at the same start point; non-trivial = distinct input accepted by at least one of the doors"
)
EXPLANATION = (
    "theorems: EpModel/Props/C04.lean; correspondence: dec.ph_*, dec.lph_*, dec.sp_*, dec.lsp_*, dec.exts*; oracle "
    "(implementation vs implementation, computed in the harness by converting the slicing result with to_header()): same "
    "headers, same remaining payload range, same verdict, except behind an IPv6 extension header that does not fit the struct"
)
ASSUMPTIONS = ["required_len may differ between the copies where both values are valid lower bounds (20 vs ihl*4 on a cut IPv4 header)"]


def build(meta):
    start, et, data = meta["start"], meta["et"], D.meta_bytes(meta)
    if start == "sll":
        return None
    suf, pre = D.entry_suffix(start, et)
    h = hx(data)
    lines = [
        "dec.ph_%s\t%s%s" % (suf, pre, h),
        "impl.dec.sp2ph_%s\t%s%s" % (suf, pre, h),
        "dec.lph_%s\t%s%s" % (suf, pre, h),
        "impl.dec.lsp2lph_%s\t%s%s" % (suf, pre, h),
        "dec.sp_%s\t%s%s" % (suf, pre, h),
        "dec.lsp_%s\t%s%s" % (suf, pre, h),
    ]
    return Case(lines, meta)


rebuild = build


def generate(rng, tier):
    n = 14000 if tier == "quick" else 400000
    tb = 50 if tier == "quick" else 1500
    for start, et, data, meta in D.base_inputs(rng, n, tb):
        c = build(meta)
        if c is not None:
            yield c


def is_trivial(c):
    return not any((o or "").startswith("ok(") for o in c.impl)


KIND_RE = re.compile(r"(HopByHop|Routing|DestinationOptions|Fragment|Authentication)\(")


def misfit(sliced_out):
    """does the sliced IPv6 extension chain contain a header that no longer fits Ipv6Extensions?"""
    m = re.search(r"iter=\[(.*?)\],pl=", sliced_out or "")
    if not m:
        return False
    kinds = KIND_RE.findall(m.group(1))
    dest = routing = fdest = frag = auth = False
    for i, k in enumerate(kinds):
        if k == "HopByHop":
            if i != 0:
                return True
        elif k == "DestinationOptions":
            if routing:
                if fdest:
                    return True
                fdest = True
            else:
                if dest:
                    return True
                dest = True
        elif k == "Routing":
            if routing:
                return True
            routing = True
        elif k == "Fragment":
            if frag:
                return True
            frag = True
        elif k == "Authentication":
            if auth:
                return True
            auth = True
    # the struct walk also stops when the protocol behind the chain is an extension header number
    # that does not fit (e.g. a second fragment header announced but the sliced chain ended there)
    return False


def struct_stopped_at_ext(h_out):
    """documented exception: struct decoding of an IPv6 chain ended at an extension header that does not
    fit the struct; that header's number is then the payload protocol and faults behind it go unnoticed."""
    if not h_out or not h_out.startswith("ok(") or "net=ipv6(" not in h_out:
        return False
    m = re.search(r"pay=Ip\(num=(\d+),", h_out)
    return bool(m) and int(m.group(1)) in (0, 43, 44, 51, 60)


def norm_err(s):
    # required_len of a cut IPv4 header may be 20 or ihl*4; content error naming Ip(..) vs Ipv4(..)
    s = re.sub(r"len\(req=\d+,(len=\d+,src=\w+,layer=Ipv4Header)", r"len(req=_,\1", s)
    return s


def compare(name, h_out, conv_out, sliced_out, out):
    if h_out is None or conv_out is None:
        return
    if misfit(sliced_out) or struct_stopped_at_ext(h_out):
        # documented exception: only the part in front of the misfit must agree
        a, b = D.split_top(h_out), D.split_top(conv_out)
        if a and b and (a.get("link") != b.get("link") or a.get("exts") != b.get("exts")):
            out.append((name + "-link-differs", {"headers": h_out[:500], "from_slices": conv_out[:500]}))
        return
    if h_out.startswith("err(") or conv_out.startswith("err("):
        # same verdict; which of several simultaneous faults is named is not prescribed (C07 checks each)
        if h_out.startswith("err(") != conv_out.startswith("err("):
            out.append((name + "-verdict-differs", {"headers": h_out[:600], "from_slices": conv_out[:600]}))
        return
    a, b = D.split_top(h_out), D.split_top(conv_out)
    if a is None or b is None:
        out.append((name + "-malformed", {"headers": h_out[:300], "from_slices": conv_out[:300]}))
        return
    for k in ("link", "exts", "net", "tp"):
        if a.get(k) != b.get(k):
            out.append((name + "-" + k + "-differs", {"headers": a.get(k), "from_slices": b.get(k)}))
            return
    # remaining payload: same kind and byte range (len_source / ether type annotations are metadata)
    pa, pb = a.get("pay", ""), b.get("pay", "")
    ka, kb = pa.split("(", 1)[0], pb.split("(", 1)[0]
    wa, wb = re.findall(r"w=\((\d+),(\d+)\)", pa), re.findall(r"w=\((\d+),(\d+)\)", pb)
    if name == "lax" and kb == "ArpNoPayload":
        return
    if ka != kb or wa != wb:
        out.append((name + "-payload-differs", {"headers": pa, "from_slices": pb}))
        return
    ia, ib = re.findall(r"inc=(\d)", pa), re.findall(r"inc=(\d)", pb)
    if ia != ib and name == "lax":
        out.append((name + "-incomplete-flag-differs", {"headers": pa, "from_slices": pb}))
    if name == "lax" and (a.get("stop", "") == "none") != (b.get("stop", "") == "none"):
        out.append((name + "-stop-error-presence-differs", {"headers": a.get("stop"), "from_slices": b.get("stop")}))


def oracle(c):
    out = []
    compare("strict", c.impl[0], c.impl[1], c.impl[4], out)
    compare("lax", c.impl[2], c.impl[3], c.impl[5], out)
    for o in c.impl:
        for m in D.bad_markers(o):
            out.append(("runtime-" + m.strip("!("), {"impl": (o or "")[:300]}))
    return out


def search(rng, corr_failures, run_cases):
    import sys

    return D.search_decode(sys.modules[__name__], rng, corr_failures, run_cases)
