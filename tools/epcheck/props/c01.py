"""C01 - decoding arbitrary bytes never touches memory outside the given slice."""
import random
from ..core import Case
from .. import decsupport as D
from ..gen import hx

ID = "C01"
RELEASE_SEARCH = True  # after a correspondence difference: look for an out-of-bounds access in the optimised build
RULE = (
    "structured/perturbed/noise inputs and all truncations of base packets through every decoding door of the dec family "
    "(14 whole-packet entries, 13 IP boundary implementations, 4 extension-chain walkers, 12 single-layer slices), every accessor, "
    "conversion and iterator of each result; every input runs on two guard-page placements (ending at / starting behind an "
    "inaccessible page, different neighbouring bytes); non-trivial = distinct input accepted by at least one door"
)
EXPLANATION = (
    "theorems: EpModel/Props/C01.lean (every window handed out lies inside the input window; the unchecked re-walk iterator "
    "never leaves the slice a (lax) walk produced; results depend only on bytes inside the window); correspondence: all dec.* "
    "ops; runtime oracles (validation, not proof): guard pages, core's unsafe-precondition checks (debug build), pointer-range "
    "check of every returned slice, placement independence"
)
ASSUMPTIONS = [
    "proof level covers the index arithmetic of the modelled decoders; that the compiled code performs only those accesses is validated at run time (guard pages, debug assertions), not proved",
]


def all_lines(meta):
    start, et, data = meta["start"], meta["et"], D.meta_bytes(meta)
    h = hx(data)
    suf, pre = D.entry_suffix(start, et)
    lines = []
    if start == "eth":
        lines += ["dec.%s_eth\t%s" % (f, h) for f in ("sp", "lsp", "ph", "lph")] + ["dec.eth2\t" + h, "dec.eth2_fcs\t" + h]
    elif start == "sll":
        lines += ["dec.sp_sll\t" + h, "dec.lph_sll\t" + h, "dec.sll\t" + h]
    elif start == "et":
        lines += ["dec.%s_et\t%d\t%s" % (f, et, h) for f in ("sp", "lsp", "ph", "lph")]
        if et == 0x88E5:
            lines += ["dec.macsec\t" + h, "dec.lax_macsec\t" + h]
        elif et in (0x8100, 0x88A8, 0x9100):
            lines += ["dec.vlan\t" + h]
        elif et == 0x0806:
            lines += ["dec.arp\t" + h]
    else:
        lines += ["dec.%s_ip\t%s" % (f, h) for f in ("sp", "lsp", "ph", "lph")]
        lines += ["dec.%s\t%s" % (o, h) for o in D.IPOPS_SLICE + D.IPOPS_STRUCT]
        lines += ["dec.udp\t" + h, "dec.udp_lax\t" + h, "dec.tcp\t" + h, "dec.icmp4\t" + h, "dec.icmp6\t" + h]
        nh = meta.get("nh", 0)
        rest = hx(data[40:]) if len(data) >= 40 else h
        lines += ["dec.%s\t%d\t%s" % (o, nh, rest) for o in ("exts", "exts_lax", "exts_struct", "exts_struct_lax")]
    return lines


def generate(rng, tier):
    n = 9000 if tier == "quick" else 250000
    tb = 40 if tier == "quick" else 1000
    for start, et, data, meta in D.base_inputs(rng, n, tb):
        yield build(meta)
    # the reader-based decoders (C06's operations, run on both guard-page placements like every decoding door): a
    # value handed out by `read` has to be the one the slice decoder hands out for the same bytes - a reader that
    # leaves part of its result unwritten shows up here as a result that is no function of the input
    from . import c06
    r2 = random.Random(rng.randrange(1 << 30))
    for start, et, data, meta in D.base_inputs(r2, 2500 if tier == "quick" else 60000, 10 if tier == "quick" else 300):
        m2 = dict(meta)
        m2["k3"] = "read"
        c = c06.build(m2)
        if c is not None:
            yield Case(c.lines, dict(c.meta, reader=1))
    for c in c06.reader_byte_sweeps(random.Random(rng.randrange(1 << 30)), tier):
        yield Case(c.lines, {"reader": 1, "start": "sweep", "et": 0, "data": "-", "k3": "read"})
    # ARP with every address size class through both doors (the sizes are attacker controlled octets)
    for hl, pl in [(6, 4), (8, 4), (6, 16), (0, 0), (255, 255), (1, 255), (255, 0), (7, 5), (20, 4)]:
        for hw, pt in [(1, 0x0800), (1, 0x86DD), (6, 0x0800), (rng.randrange(65536), rng.randrange(65536))]:
            body = bytes(rng.randrange(1, 256) for _ in range(2 * hl + 2 * pl + rng.choice([0, 0, 5])))
            d = bytes([hw >> 8, hw & 255, pt >> 8, pt & 255, hl, pl, 0, rng.choice([1, 2])]) + body
            for cut in (len(d), 28, 8 + 2 * hl + 2 * pl - 1):
                if 0 <= cut <= len(d):
                    yield Case(["impl.dec.read_arp\t" + hx(d[:cut]), "dec.arp\t" + hx(d[:cut])], {"reader": 1, "start": "et", "et": 0x0806, "data": hx(d[:cut]), "k3": "read"})
    # the chain that stops early (regression input of the repaired defect F1) and relatives
    base = bytes.fromhex("6000000000100040" + "00" * 32)
    for nh2 in (0, 43, 44, 51, 60):
        for cut in range(0, 17):
            d = base + bytes([nh2, 0]) + bytes(6) + bytes([nh2, 0]) + bytes(6)
            d = d[: 40 + cut]
            yield build({"start": "ip", "et": 0, "data": hx(d), "nh": nh2, "k": 0, "notes": ["early-stop-chain"]})


def build(meta):
    return Case(all_lines(meta), meta)


rebuild = build


def is_trivial(c):
    return not any((o or "").startswith("ok(") for o in c.impl)


MARKERS = ("fault(", "!outside", "!placement")


def oracle(c):
    out = []
    if c.meta.get("reader"):
        from . import c06
        for line, o in zip(c.lines, c.impl):
            if o and o.startswith("slice=") and "|read=" in o:
                s_, r_ = o[6:].split("|read=", 1)
                if s_.startswith("ok(") and r_.startswith("ok(") and s_ != r_.replace("!accessor-mismatch", ""):
                    out.append(("reader-result-is-no-function-of-the-input", {"line": line[:300], "slice": s_[:400], "read": r_[:400]}))
    for line, o in zip(c.lines, c.impl):
        if o is None:
            out.append(("no-output", {"line": line[:200]}))
            continue
        for m in MARKERS:
            if m in o:
                name = {"fault(": "memory-fault-or-ub-check", "!outside": "slice-outside-input", "!placement": "placement-dependent-result"}[m]
                out.append((name, {"line": line[:300], "impl": o[:400]}))
    return out


def search(rng, corr_failures, run_cases):
    import sys

    return D.search_decode(sys.modules[__name__], rng, corr_failures, run_cases)
