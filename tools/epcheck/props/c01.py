"""C01 - decoding arbitrary bytes never touches memory outside the given slice."""
from ..core import Case
from .. import decsupport as D
from ..gen import hx

ID = "C01"
RELEASE_SEARCH = True  # after a correspondence difference: look for an out-of-bounds access in the optimised build
RULE = (
    "structured/perturbed/noise inputs and all truncations of base packets through every decoding door of the dec family "
    "(14 whole-packet entries, 13 IP boundary implementations, 4 extension-chain walkers, 12 single-layer slices), every accessor, "
    "conversion and iterator of each result; every input runs on two guard-page placements (ending at / starting behind an "
    "inaccessible page, different neighbouring bytes); non-trivial = distinct input accepted by at least one door"
)
EXPLANATION = (
    "theorems: EpModel/Props/C01.lean (every window handed out lies inside the input window; the unchecked re-walk iterator "
    "never leaves the slice a (lax) walk produced; results depend only on bytes inside the window); correspondence: all dec.* "
    "ops; runtime oracles (validation, not proof): guard pages, core's unsafe-precondition checks (debug build), pointer-range "
    "check of every returned slice, placement independence"
)
ASSUMPTIONS = [
    "proof level covers the index arithmetic of the modelled decoders; that the compiled code performs only those accesses is validated at run time (guard pages, debug assertions), not proved",
]


def all_lines(meta):
    start, et, data = meta["start"], meta["et"], D.meta_bytes(meta)
    h = hx(data)
    suf, pre = D.entry_suffix(start, et)
    lines = []
    if start == "eth":
        lines += ["dec.%s_eth\t%s" % (f, h) for f in ("sp", "lsp", "ph", "lph")] + ["dec.eth2\t" + h, "dec.eth2_fcs\t" + h]
    elif start == "sll":
        lines += ["dec.sp_sll\t" + h, "dec.lph_sll\t" + h, "dec.sll\t" + h]
    elif start == "et":
        lines += ["dec.%s_et\t%d\t%s" % (f, et, h) for f in ("sp", "lsp", "ph", "lph")]
        if et == 0x88E5:
            lines += ["dec.macsec\t" + h, "dec.lax_macsec\t" + h]
        elif et in (0x8100, 0x88A8, 0x9100):
            lines += ["dec.vlan\t" + h]
        elif et == 0x0806:
            lines += ["dec.arp\t" + h]
    else:
        lines += ["dec.%s_ip\t%s" % (f, h) for f in ("sp", "lsp", "ph", "lph")]
        lines += ["dec.%s\t%s" % (o, h) for o in D.IPOPS_SLICE + D.IPOPS_STRUCT]
        lines += ["dec.udp\t" + h, "dec.udp_lax\t" + h, "dec.tcp\t" + h, "dec.icmp4\t" + h, "dec.icmp6\t" + h]
        nh = meta.get("nh", 0)
        rest = hx(data[40:]) if len(data) >= 40 else h
        lines += ["dec.%s\t%d\t%s" % (o, nh, rest) for o in ("exts", "exts_lax", "exts_struct", "exts_struct_lax")]
    return lines


def generate(rng, tier):
    n = 9000 if tier == "quick" else 250000
    tb = 40 if tier == "quick" else 1000
    for start, et, data, meta in D.base_inputs(rng, n, tb):
        yield build(meta)
    # the chain that stops early (regression input of the repaired defect F1) and relatives
    base = bytes.fromhex("6000000000100040" + "00" * 32)
    for nh2 in (0, 43, 44, 51, 60):
        for cut in range(0, 17):
            d = base + bytes([nh2, 0]) + bytes(6) + bytes([nh2, 0]) + bytes(6)
            d = d[: 40 + cut]
            yield build({"start": "ip", "et": 0, "data": hx(d), "nh": nh2, "k": 0, "notes": ["early-stop-chain"]})


def build(meta):
    return Case(all_lines(meta), meta)


rebuild = build


def is_trivial(c):
    return not any((o or "").startswith("ok(") for o in c.impl)


MARKERS = ("fault(", "!outside", "!placement")


def oracle(c):
    out = []
    for line, o in zip(c.lines, c.impl):
        if o is None:
            out.append(("no-output", {"line": line[:200]}))
            continue
        for m in MARKERS:
            if m in o:
                name = {"fault(": "memory-fault-or-ub-check", "!outside": "slice-outside-input", "!placement": "placement-dependent-result"}[m]
                out.append((name, {"line": line[:300], "impl": o[:400]}))
    return out


def search(rng, corr_failures, run_cases):
    import sys

    return D.search_decode(sys.modules[__name__], rng, corr_failures, run_cases)
