"""C17 - typed control-message views (ICMPv4/ICMPv6, NDP, IGMP, ARP) follow their formats."""
import itertools
import re

from ..core import Case
from ..gen import hx, rbytes

ID = "C17"
RULE = (
    "view.* operations on byte strings of 0..300 bytes: all 65536 (type, code) pairs of ICMPv4 and ICMPv6 with a fixed "
    "tail, every assigned pair at every length 0..44, noise with type/code/length-unit bytes drawn from assigned values, "
    "their neighbours and random values; NDP option areas built from valid options with perturbed length units and "
    "truncations plus exhaustive areas of up to 2 (thorough: 3) options over an option type x length unit x present size alphabet; "
    "each per-type option from_slice on structured and noise inputs; every IGMP type at lengths 0..20; ARP with "
    "hardware/protocol type and size fields from matching, neighbouring and random values at lengths need-9..need+8. "
    "non-trivial = distinct op line whose input has at least 8 bytes (NDP option ops: at least 2 bytes)"
)
EXPLANATION = (
    "theorems: model views = format tables (EpModel/Props/C17.lean: icmp4_view, icmp6_view, icmp_rejects_iff, ndp_tiles, "
    "ndp_refines_spec, ndp_payload_split, igmp_view, group_records_view, arp_eth_ipv4_view); correspondence: etherparse "
    "Icmpv4Slice/Icmpv6Slice/Icmpv6PayloadSlice/NdpOptionsIterator/IgmpHeader/ReportGroupRecordV3Header/ArpPacketSlice/"
    "ArpPacket::try_eth_ipv4 vs EpModel.Model.{Icmp,Ndp,Igmp,ArpView}; oracle: the RFC format tables of EpModel/Spec "
    "evaluated by the Lean driver (spec.view.*), python reference tables / NDP TLV parser, tiling checks on the windows the "
    "implementation hands out"
)
ASSUMPTIONS = [
    "64-bit target (the ICMPv6 maximum length 2^32-1 is not reachable by the explored inputs)",
    "typed views exist only for the (type, code) pairs the crate documents; other assigned ICMP types are expected in raw form",
]

# ------------------------------------------------------------------------------------------------
# python reference tables (written from the RFCs / IANA registries, independent of the Lean files)

ICMP4 = {(0, 0): "EchoReply", (8, 0): "EchoRequest", (13, 0): "TimestampRequest", (14, 0): "TimestampReply"}
_DU4 = ["Network", "Host", "Protocol", "Port", "FragmentationNeeded", "SourceRouteFailed", "NetworkUnknown", "HostUnknown",
        "Isolated", "NetworkProhibited", "HostProhibited", "TosNetwork", "TosHost", "FilterProhibited",
        "HostPrecedenceViolation", "PrecedenceCutoff"]
for _i, _n in enumerate(_DU4):
    ICMP4[(3, _i)] = "DestinationUnreachable." + _n
for _i, _n in enumerate(["RedirectForNetwork", "RedirectForHost", "RedirectForTypeOfServiceAndNetwork", "RedirectForTypeOfServiceAndHost"]):
    ICMP4[(5, _i)] = "Redirect." + _n
ICMP4[(11, 0)] = "TimeExceeded.TtlExceededInTransit"
ICMP4[(11, 1)] = "TimeExceeded.FragmentReassemblyTimeExceeded"
ICMP4[(12, 0)] = "ParameterProblem.PointerIndicatesError"
ICMP4[(12, 1)] = "ParameterProblem.MissingRequiredOption"
ICMP4[(12, 2)] = "ParameterProblem.BadLength"

ICMP6 = {(2, 0): "PacketTooBig", (128, 0): "EchoRequest", (129, 0): "EchoReply", (133, 0): "RouterSolicitation",
         (134, 0): "RouterAdvertisement", (135, 0): "NeighborSolicitation", (136, 0): "NeighborAdvertisement", (137, 0): "Redirect"}
for _i, _n in enumerate(["NoRoute", "Prohibited", "BeyondScope", "Address", "Port", "SourceAddressFailedPolicy", "RejectRoute"]):
    ICMP6[(1, _i)] = "DestinationUnreachable." + _n
ICMP6[(3, 0)] = "TimeExceeded.HopLimitExceeded"
ICMP6[(3, 1)] = "TimeExceeded.FragmentReassemblyTimeExceeded"
for _i, _n in enumerate(["ErroneousHeaderField", "UnrecognizedNextHeader", "UnrecognizedIpv6Option", "Ipv6FirstFragmentIncompleteHeaderChain",
                         "SrUpperLayerHeaderError", "UnrecognizedNextHeaderByIntermediateNode", "ExtensionHeaderTooBig",
                         "ExtensionHeaderChainTooLong", "TooManyExtensionHeaders", "TooManyOptionsInExtensionHeader", "OptionTooBig"]):
    ICMP6[(4, _i)] = "ParameterProblem." + _n

NDP_FIXED = {133: 0, 134: 8, 135: 16, 136: 16, 137: 32}  # payload bytes in front of the options (RFC 4861 4.1-4.5)
NDP_OPT_NAMES = {1: "SourceLinkLayerAddress", 2: "TargetLinkLayerAddress", 3: "PrefixInformation", 4: "RedirectedHeader", 5: "Mtu"}
NDP_OPT_UNITS = {3: 4, 5: 1}
IGMP_TYPES = {0x11: "MembershipQuery", 0x12: "MembershipReportV1", 0x16: "MembershipReportV2", 0x17: "LeaveGroup", 0x22: "MembershipReportV3"}

T4_INTEREST = sorted(set([0, 3, 5, 8, 11, 12, 13, 14, 1, 2, 4, 6, 7, 9, 10, 15, 16, 17, 18, 30, 40, 42, 43, 255]))
T6_INTEREST = sorted(set([1, 2, 3, 4, 128, 129, 130, 131, 132, 133, 134, 135, 136, 137, 138, 0, 5, 100, 127, 141, 142, 160, 161, 255]))
C_INTEREST = list(range(0, 18)) + [127, 128, 254, 255]


def _data(h):
    return b"" if h == "-" else bytes.fromhex(h)


def _input(c):
    """the byte string of a case, read from its first op line (the shrinker edits lines, not meta)"""
    return _data(c.lines[0].split("\t")[-1])


def be(d, o, n):
    return int.from_bytes(d[o:o + n], "big")


# ------------------------------------------------------------------------------------------------
# generators


def _case(kind, d, extra_lines=()):
    h = hx(d)
    lines = ["view.%s\t%s" % (kind, h), "spec.view.%s\t%s" % (kind, h)]
    lines.extend(extra_lines)
    return Case(lines, {"k": kind, "d": h})


def _pick_tc(rng, tint):
    r = rng.random()
    if r < 0.6:
        t = rng.choice(tint)
    elif r < 0.8:
        t = (rng.choice(tint) + rng.choice([-1, 1])) % 256
    else:
        t = rng.randrange(256)
    r = rng.random()
    if r < 0.5:
        c = 0
    elif r < 0.85:
        c = rng.choice(C_INTEREST)
    else:
        c = rng.randrange(256)
    return t, c


def gen_ndp_option(rng, t=None):
    """one well-formed option (bytes) of a random or given type"""
    if t is None:
        t = rng.choice([1, 2, 3, 4, 5, 1, 2, 3, 5, 0, 6, 14, 24, 25, 31, 255, rng.randrange(256)])
    if t == 3:
        u = 4
    elif t == 5:
        u = 1
    elif t == 4:
        u = rng.choice([1, 2, 6, 9])
    else:
        u = rng.choice([1, 1, 1, 2, 3])
    return bytes([t, u]) + rbytes(rng, 8 * u - 2)


def gen_ndp_area(rng, maxopts=6):
    n = rng.randrange(0, maxopts + 1)
    opts = [gen_ndp_option(rng) for _ in range(n)]
    area = bytearray(b"".join(opts))
    r = rng.random()
    if area and r < 0.55:
        # perturb the unit byte (or the type byte) of one option
        offs = []
        o = 0
        for op in opts:
            offs.append(o)
            o += len(op)
        k = rng.choice(offs)
        if rng.random() < 0.8:
            u = area[k + 1]
            area[k + 1] = rng.choice([0, 0, u - 1, u + 1, u + 8, 1, 4, 255, rng.randrange(256)]) % 256
        else:
            area[k] = rng.choice([1, 2, 3, 4, 5, 0, 6, 255])
    r = rng.random()
    if area and r < 0.35:
        cut = rng.choice([len(area) - 1, len(area) - 7, len(area) - 8, rng.randrange(0, len(area) + 1), 1, 2])
        area = area[:max(0, cut)]
    elif r < 0.45:
        area += rbytes(rng, rng.choice([1, 2, 7, 8, 9]))
    return bytes(area)


def generate(rng, tier):
    quick = tier == "quick"
    # -- 1. every (type, code) pair of both ICMP versions, fixed tail (20 bytes in total so that the
    #       ICMPv4 timestamp messages are accepted), plus one byte more for the exact-size rule
    tail = bytes([0x81, 0xC2, 0x23, 0x44]) + bytes(range(0xA0, 0xAC))
    tail6 = bytes([0x81, 0xC2, 0x23, 0x44]) + bytes(range(0xA0, 0xA0 + 36))
    for t in range(256):
        for c in range(256):
            yield _case("icmp4", bytes([t, c, 0x12, 0x34]) + tail)
            yield _case("icmp6", bytes([t, c, 0x12, 0x34]) + tail)
    for t in range(256):
        for c in (range(256) if (t in T6_INTEREST or not quick) else [0, 1, 255]):
            yield _case("icmp6_payload", bytes([t, c, 0x12, 0x34]) + tail6)
    # -- 2. every assigned pair (and neighbours) at every length 0..44
    pairs4 = sorted(set(list(ICMP4.keys()) + [(t, c + 1) for (t, c) in ICMP4] + [(t + 1, c) for (t, c) in ICMP4] + [(13, 1), (14, 1), (15, 0), (255, 255)]))
    for (t, c) in pairs4:
        base = bytes([t % 256, c % 256]) + rbytes(rng, 44, None)
        for n in range(0, 45):
            yield _case("icmp4", base[:n])
    pairs6 = sorted(set(list(ICMP6.keys()) + [(t, c + 1) for (t, c) in ICMP6] + [(t + 1, c) for (t, c) in ICMP6] + [(130, 0), (255, 255)]))
    for (t, c) in pairs6:
        base = bytes([t % 256, c % 256]) + rbytes(rng, 62, None)
        for n in range(0, 65):
            yield _case("icmp6", base[:n])
            if n >= 7:
                yield _case("icmp6_payload", base[:n])
    # -- 3. noise with interesting type/code bytes, 0..300 bytes
    nrand = 6000 if quick else 150000
    for _ in range(nrand):
        n = rng.choice([rng.randrange(0, 301), rng.randrange(0, 48), 8, 20, 19, 21])
        for kind, tint in (("icmp4", T4_INTEREST), ("icmp6", T6_INTEREST)):
            t, c = _pick_tc(rng, tint)
            d = (bytes([t, c]) + rbytes(rng, max(0, n - 2)))[:n]
            yield _case(kind, d)
    # -- 4. NDP messages: fixed part + generated option area
    nndp = 6000 if quick else 150000
    for _ in range(nndp):
        t = rng.choice([133, 134, 135, 136, 137])
        c = 0 if rng.random() < 0.9 else rng.choice([1, 255])
        fixed = NDP_FIXED[t]
        body = rbytes(rng, fixed) + gen_ndp_area(rng)
        if rng.random() < 0.15:
            body = body[: rng.randrange(0, fixed + 3)]
        yield _case("icmp6_payload", bytes([t, c]) + rbytes(rng, 6) + body)
    # -- 5. NDP option areas
    nareas = 10000 if quick else 300000
    for _ in range(nareas):
        yield _case("ndp_opts", gen_ndp_area(rng))
    for _ in range(1500 if quick else 50000):
        yield _case("ndp_opts", rbytes(rng, rng.randrange(0, 41)))
    # exhaustive small areas: slots (type, unit byte, bytes actually present) over small alphabets
    types = [0, 1, 2, 3, 4, 5, 6, 255]
    units = [0, 1, 2, 4, 5]
    present = [1, 2, 4]
    if not quick:
        # depth 3: 84^3 = 592 704 areas
        types = [0, 1, 2, 3, 4, 5, 255]
        units = [0, 1, 2, 4]
    slots = [(t, u, p) for t in types for u in units for p in present]
    depth = 2 if quick else 3
    for k in range(1, depth + 1):
        for combo in itertools.product(slots, repeat=k):
            area = b"".join(bytes([t, u]) + bytes((0x10 * (i + 1) + j) % 256 for j in range(8 * p - 2)) for i, (t, u, p) in enumerate(combo))
            yield _case("ndp_opts", area)
            if k == 1 or (k == 2 and not quick):
                for cut in (1, 2, 7, len(area) - 1):
                    if 0 < cut < len(area):
                        yield _case("ndp_opts", area[:cut])
    # single option slices through each per-type from_slice
    kinds = ["sll", "tll", "prefix", "redirected", "mtu", "unknown", "header"]
    for _ in range(1200 if quick else 60000):
        k = rng.choice(kinds)
        if rng.random() < 0.7:
            d = bytearray(gen_ndp_option(rng, rng.choice([{"sll": 1, "tll": 2, "prefix": 3, "redirected": 4, "mtu": 5}.get(k, rng.choice([0, 7, 200])), rng.randrange(256)]) if rng.random() < 0.85 else None))
            if rng.random() < 0.4:
                d[1] = rng.choice([0, d[1] + 1, d[1] - 1, 1, 4, 255]) % 256
            if rng.random() < 0.25:
                d = d[: rng.randrange(0, len(d) + 1)]
            elif rng.random() < 0.1:
                d += rbytes(rng, rng.choice([1, 8]))
            d = bytes(d)
        else:
            d = rbytes(rng, rng.randrange(0, 40))
        h = hx(d)
        yield Case(["view.ndp_opt\t%s\t%s" % (k, h)], {"k": "ndp_opt", "kind": k, "d": h})
    # -- 6. IGMP: every type at every length 0..20, noise
    for t in range(256):
        base = bytes([t]) + rbytes(rng, 20, None)
        for n in (range(0, 21) if (t in IGMP_TYPES or (t ^ 1) in IGMP_TYPES or not quick) else [0, 7, 8, 9, 12]):
            yield _case("igmp", base[:n])
    for _ in range(4000 if quick else 200000):
        t = rng.choice(list(IGMP_TYPES) * 3 + [0x10, 0x13, 0x21, 0x23, 0, 255, rng.randrange(256)])
        n = rng.choice([rng.randrange(0, 301), rng.randrange(6, 16), 8, 12])
        d = (bytes([t, rng.choice([0, 100, 127, 128, 0x8F, 0xFF, rng.randrange(256)])]) + rbytes(rng, max(0, n - 2)))[:n]
        yield _case("igmp", d)
    for _ in range(1500 if quick else 50000):
        n = rng.choice([rng.randrange(0, 301), rng.randrange(0, 12), 7, 8, 9])
        yield _case("igmp_record", rbytes(rng, n))
    # -- 7. ARP
    hrds = [1, 1, 1, 0, 2, 6, 0x0100, 0xFFFF]
    pros = [0x0800, 0x0800, 0x0800, 0x0806, 0x86DD, 0x0008, 0x0801, 0]
    for _ in range(6000 if quick else 200000):
        hrd = rng.choice(hrds + [rng.randrange(65536)])
        pro = rng.choice(pros + [rng.randrange(65536)])
        hln = rng.choice([6, 6, 6, 6, 0, 1, 5, 7, 8, 16, 255, rng.randrange(256)])
        pln = rng.choice([4, 4, 4, 4, 0, 3, 5, 6, 16, 255, rng.randrange(256)])
        need = 8 + 2 * hln + 2 * pln
        n = max(0, need + rng.choice([0, 0, 0, 1, 8, -1, -8, -9, rng.randrange(-30, 30)]))
        if rng.random() < 0.1:
            n = rng.randrange(0, 12)
        d = (bytes([hrd >> 8, hrd & 255, pro >> 8, pro & 255, hln, pln]) + rbytes(rng, 2) + rbytes(rng, max(0, n - 8), None))[:n]
        yield _case("arp_eth_ipv4", d)
    for hln in range(0, 9):
        for pln in range(0, 9):
            need = 8 + 2 * hln + 2 * pln
            d = bytes([0, 1, 8, 0, hln, pln, 0, 2]) + bytes(range(1, need - 8 + 2))
            for n in (need - 1, need, need + 1):
                yield _case("arp_eth_ipv4", d[:n])


def is_trivial(c):
    n = len(_input(c))
    if c.meta.get("k") in ("ndp_opts", "ndp_opt"):
        return n < 2
    return n < 8


# ------------------------------------------------------------------------------------------------
# parsing of canonical lines


def split_top(s, sep=","):
    """split at separators that are not nested in () or []"""
    out, depth, cur = [], 0, []
    for ch in s:
        if ch in "([":
            depth += 1
        elif ch in ")]":
            depth -= 1
        if ch == sep and depth == 0:
            out.append("".join(cur))
            cur = []
        else:
            cur.append(ch)
    out.append("".join(cur))
    return out


def fields_of(s):
    """'Kind(a=1,b=(2,3))' -> ('Kind', {'a': '1', 'b': '(2,3)'}, [ordered keys])"""
    i = s.index("(")
    if not s.endswith(")"):
        raise ValueError("no closing paren: " + s[:80])
    name = s[:i]
    body = s[i + 1:-1]
    d = {}
    if body:
        for part in split_top(body):
            if "=" in part:
                k, v = part.split("=", 1)
                d[k] = v
            else:
                d.setdefault("_", []).append(part)
    return name, d


def win_of(s):
    m = re.fullmatch(r"\((\d+),(\d+)\)", s)
    if not m:
        raise ValueError("bad window " + s)
    return int(m.group(1)), int(m.group(2))


BAD_MARKERS = ("panic", "fault(", "differs", "!outside", "runaway", "Other", "bad-op")


def lenerr(req, n, src, layer):
    return "err(len(req=%d,len=%d,src=%s,layer=%s,off=0))" % (req, n, src, layer)


# ------------------------------------------------------------------------------------------------
# NDP reference (python, RFC 4861 4.6) and tiling checks


def ndp_ref(area):
    """-> (list of (off, len, type), reject or None); reject = (name, type, need, have)"""
    opts = []
    o = 0
    n = len(area)
    while o < n:
        left = n - o
        if left < 2:
            return opts, ("UnexpectedSize", area[o], 2, left)
        t, u = area[o], area[o + 1]
        if u == 0:
            return opts, ("ZeroLength", t, None, None)
        if 8 * u > left:
            return opts, ("UnexpectedEndOfSlice", t, 8 * u, left)
        if t in NDP_OPT_UNITS and NDP_OPT_UNITS[t] != u:
            return opts, ("UnexpectedSize", t, 8 * NDP_OPT_UNITS[t], 8 * u)
        opts.append((o, 8 * u, t))
        o += 8 * u
    return opts, None


def ndp_item_ref(area, base, o, l, t):
    """expected canonical item text for the option at area[o:o+l]"""
    b = area[o:o + l]
    w = "(%d,%d)" % (base + o, l)
    if t in (1, 2):
        return "%s(w=%s,addr=(%d,%d))" % (NDP_OPT_NAMES[t], w, base + o + 2, l - 2)
    if t == 3:
        return "PrefixInformation(w=%s,plen=%d,l=%d,a=%d,valid=%d,pref=%d,prefix=%s)" % (
            w, b[2], (b[3] >> 7) & 1, (b[3] >> 6) & 1, be(b, 4, 4), be(b, 8, 4), b[16:32].hex())
    if t == 4:
        return "RedirectedHeader(w=%s,pkt=(%d,%d))" % (w, base + o + 8, l - 8)
    if t == 5:
        return "Mtu(w=%s,mtu=%d)" % (w, be(b, 4, 4))
    return "Unknown(w=%s,type=%d,data=(%d,%d))" % (w, t, base + o + 2, l - 2)


def check_ndp_iteration(it_text, area, base, spec_text, out):
    """it_text: '[item@rest,...];tail=a,b' from the implementation; spec_text: '[views];reject' or None"""
    if ";tail=" not in it_text:
        out.append(("ndp-iterator-bounded", {"impl": it_text[:200]}))
        return
    body, tail = it_text.rsplit(";tail=", 1)
    if tail != "none,none":
        out.append(("ndp-exhausted-after-end", {"tail": tail[:200]}))
    if not (body.startswith("[") and body.endswith("]")):
        raise ValueError("bad list")
    items = split_top(body[1:-1]) if body != "[]" else []
    if len(items) > len(area) // 8 + 1:
        out.append(("ndp-iterator-bounded", {"items": len(items), "len": len(area)}))
    oks, errs = [], []
    for idx, itx in enumerate(items):
        v, r = itx.rsplit("@", 1)
        if v.startswith("err("):
            errs.append((idx, v, r))
        else:
            oks.append((idx, v, r))
    if errs and (len(errs) > 1 or errs[0][0] != len(items) - 1):
        out.append(("ndp-stops-at-first-reject", {"impl": it_text[:300]}))
        return
    # tiling on what the implementation handed out (python side, from the input bytes only)
    pos = 0
    end = len(area)
    for idx, v, r in oks:
        _, f = fields_of(v)
        o, l = win_of(f["w"])
        o -= base
        if o != pos or l <= 0 or o + l > end or l != 8 * area[o + 1]:
            out.append(("ndp-tiling", {"item": v, "expected_off": base + pos, "unit_byte": area[o + 1] if o + 1 < end else None}))
            return
        pos += l
        ro, rl = win_of(r)
        if (ro - base, rl) != (pos, end - pos):
            out.append(("ndp-tiling", {"rest": r, "expected": [base + pos, end - pos]}))
            return
    if not errs and pos != end:
        out.append(("ndp-tiling", {"covered": pos, "len": end, "error": None}))
        return
    # python reference parser
    ropts, rrej = ndp_ref(area)
    want = [ndp_item_ref(area, base, o, l, t) for (o, l, t) in ropts]
    got = [v for _, v, _ in oks]
    if got != want:
        out.append(("ndp-python-reference", {"got": got[:6], "want": want[:6]}))
    if (rrej is None) != (not errs):
        out.append(("ndp-rejects-iff", {"impl_err": errs[0][1] if errs else None, "reference": rrej}))
    elif rrej is not None:
        name, t, need, have = rrej
        if name == "ZeroLength":
            w = "err(ZeroLength(id=%d))" % t
        else:
            w = "err(%s(id=%d,exp=%d,act=%d))" % (name, t, need, have)
        if errs[0][1] != w or errs[0][2] != "0":
            out.append(("ndp-reject-reason", {"got": errs[0][1], "want": w}))
    # Lean Spec
    if spec_text is not None:
        sbody, srej = spec_text.rsplit(";", 1)
        sitems = split_top(sbody[1:-1]) if sbody != "[]" else []
        if sitems != got:
            out.append(("ndp-spec", {"got": got[:6], "spec": sitems[:6]}))
        if (srej == "none") != (not errs):
            out.append(("ndp-spec-rejects-iff", {"impl_err": errs[0][1] if errs else None, "spec": srej}))
        elif srej != "none":
            rn, rf = fields_of(srej)
            m = {"TruncatedHeader": "UnexpectedSize", "ZeroLength": "ZeroLength", "Truncated": "UnexpectedEndOfSlice", "WrongSize": "UnexpectedSize"}[rn]
            if m == "ZeroLength":
                w = "err(ZeroLength(id=%s))" % rf["type"]
            else:
                w = "err(%s(id=%s,exp=%s,act=%s))" % (m, rf["type"], rf.get("need", "2"), rf["have"])
            if errs[0][1] != w:
                out.append(("ndp-spec-reject-reason", {"got": errs[0][1], "want": w}))


# ------------------------------------------------------------------------------------------------
# oracles per operation


def _icmp(c, v6, out):
    d = _input(c)
    n = len(d)
    impl, spec = c.impl[0], c.model[1]
    sl, hd = impl.split(";hd=", 1)
    sl = sl[3:]
    table = ICMP6 if v6 else ICMP4
    if spec.startswith("err("):
        m = re.fullmatch(r"err\(req=(\d+),len=(\d+)\)", spec)
        req, ln = int(m.group(1)), int(m.group(2))
        if v6:
            layer = "Icmpv6"
        else:
            layer = "Icmpv4" if n < 8 else {13: "Icmpv4Timestamp", 14: "Icmpv4TimestampReply"}.get(d[0], "?")
        w = lenerr(req, ln, "Slice", layer)
        if sl != w or hd != w or ln != n:
            out.append(("icmp-rejects-iff", {"impl": impl[:300], "want": w}))
        # python: rejected only if short or timestamp with a size other than 20
        if not (n < 8 or (not v6 and d[0] in (13, 14) and d[1] == 0 and n != 20)):
            out.append(("icmp-rejects-iff-python", {"impl": impl[:300]}))
        return
    if not sl.startswith(spec + ","):
        out.append(("icmp-view-spec", {"impl": sl[:300], "spec": spec[:300]}))
        return
    if n < 8 or (not v6 and d[0] in (13, 14) and d[1] == 0 and n != 20):
        out.append(("icmp-rejects-iff-python", {"impl": impl[:300]}))
        return
    name, f = fields_of(sl)
    ty = f["type"]
    kind = ty[: ty.index("(")]
    t, cd = d[0], d[1]
    want_kind = table.get((t, cd), "Unknown")
    if kind != want_kind:
        out.append(("icmp-kind-python-table", {"type": t, "code": cd, "got": kind, "want": want_kind}))
    if want_kind == "Unknown" and ty != "Unknown(type=%d,code=%d,b58=%s)" % (t, cd, d[4:8].hex()):
        out.append(("icmp-unknown-raw", {"got": ty}))
    hl = int(f["hl"])
    want_hl = 20 if (not v6 and (t, cd) in ((13, 0), (14, 0))) else 8
    raw_ok = (hl == want_hl and f["pl"] == "(%d,%d)" % (hl, n - hl) and f["t"] == str(t) and f["c"] == str(cd)
              and f["ck"] == str(be(d, 2, 2)) and f["b58"] == d[4:8].hex() and f["sl"] == "(0,%d)" % n and f["thl"] == str(hl)
              and f["fps"] == ("some(0)" if hl == 20 else "none"))
    if v6:
        raw_ok = raw_ok and f["tt"] == str(t) and f["tc"] == str(cd)
    if not raw_ok:
        out.append(("icmp-raw-accessors", {"impl": sl[:300]}))
    if hd != "ok(type=%s,ck=%d,rest=(%d,%d))" % (ty, be(d, 2, 2), hl, n - hl):
        out.append(("icmp-header-from-slice", {"hd": hd[:300], "sl": sl[:300]}))


def _icmp6_payload(c, out):
    d = _input(c)
    n = len(d)
    impl, spec = c.impl[0], c.model[1]
    if spec == "short":
        if impl != lenerr(8, n, "Slice", "Icmpv6"):
            out.append(("icmp-rejects-iff", {"impl": impl[:200]}))
        return
    if not (impl.startswith("ok(ps=") and impl.endswith(")")):
        out.append(("icmp6-payload", {"impl": impl[:200]}))
        return
    ps, tps = impl[6:-1].split(";tps=", 1)
    if ps != tps:
        out.append(("icmp6-payload-two-dispatch-copies", {"ps": ps[:200], "tps": tps[:200]}))
    t, cd = d[0], d[1]
    pl = n - 8
    if spec == "other":
        kind = ICMP6.get((t, cd), "Unknown").split(".")[0]
        if kind == "Unknown":
            w = "Raw(sl=(8,%d),tp=none)" % pl
        else:
            w = "%s(sl=(8,%d),data=(8,%d),tp=none)" % (kind, pl, pl)
        if kind in ("RouterSolicitation", "RouterAdvertisement", "NeighborSolicitation", "NeighborAdvertisement", "Redirect") or ps != w:
            out.append(("icmp6-payload-kind", {"got": ps[:200], "want": w}))
        return
    if t not in NDP_FIXED or cd != 0:
        out.append(("ndp-payload-spec-table", {"spec": spec[:100]}))
        return
    fixed = NDP_FIXED[t]
    if spec.startswith("err("):
        w = lenerr(fixed, pl, "Slice", "Icmpv6")
        if ps != w or pl >= fixed or spec != "err(req=%d,len=%d)" % (fixed, pl):
            out.append(("ndp-payload-split", {"got": ps[:200], "want": w, "spec": spec}))
        return
    head, sp_it = spec.split(";", 1)
    if not ps.startswith(head + ","):
        out.append(("ndp-payload-split", {"got": ps[:300], "spec": head[:300]}))
        return
    if pl < fixed:
        out.append(("ndp-payload-split", {"got": ps[:200], "python": "payload shorter than the fixed part"}))
        return
    name, f = fields_of(ps)
    if f["opts"] != "(%d,%d)" % (8 + fixed, pl - fixed) or f["sl"] != "(8,%d)" % pl:
        out.append(("ndp-payload-split", {"got": ps[:200], "python": [8 + fixed, pl - fixed]}))
    # to_payload repeats the fields and the option window
    want_tp = "some(" + ",".join(p for p in split_top(head[head.index("(") + 1:]) if not p.startswith("sl=")) + ")"
    if f["tp"] != want_tp:
        out.append(("ndp-to-payload", {"got": f["tp"][:200], "want": want_tp[:200]}))
    # fixed fields by python
    fx = d[8:8 + fixed]
    if t == 134 and (f.get("reachable"), f.get("retrans")) != (str(be(fx, 0, 4)), str(be(fx, 4, 4))):
        out.append(("ndp-fixed-fields", {"got": ps[:200]}))
    if t in (135, 136, 137) and f.get("target") != fx[0:16].hex():
        out.append(("ndp-fixed-fields", {"got": ps[:200]}))
    if t == 137 and f.get("dest") != fx[16:32].hex():
        out.append(("ndp-fixed-fields", {"got": ps[:200]}))
    # the iteration (ps ends with ",it=<iteration>)")
    it = ps[ps.index(",it=") + 4:-1]
    check_ndp_iteration(it, d[8 + fixed:], 8 + fixed, sp_it, out)


def _ndp_opt(c, out):
    d = _input(c)
    k = c.lines[0].split("\t")[1]
    impl = c.impl[0]
    n = len(d)
    if k == "header":
        if n < 2:
            w = "err(UnexpectedSize(id=%d,exp=2,act=%d))" % (d[0] if n else 0, n)
        else:
            w = "ok(type=%d,units=%d,blen=%d,rest=(2,%d))" % (d[0], d[1], 8 * d[1], n - 2)
        if impl != w:
            out.append(("ndp-option-header", {"got": impl, "want": w}))
        return
    want_t = {"sll": 1, "tll": 2, "prefix": 3, "redirected": 4, "mtu": 5}.get(k)
    valid = n >= 2 and d[1] != 0 and 8 * d[1] == n and (want_t is None or d[0] == want_t)
    if valid and want_t in NDP_OPT_UNITS:
        valid = d[1] == NDP_OPT_UNITS[want_t]
    if impl.startswith("ok(") != valid:
        out.append(("ndp-option-accepts-iff", {"kind": k, "impl": impl[:200], "valid": valid}))
    elif valid:
        w = "ok(%s)" % ndp_item_ref(d, 0, 0, n, want_t if want_t is not None else (d[0] if d[0] not in NDP_OPT_NAMES else 999))
        if want_t is None:
            w = "ok(Unknown(w=(0,%d),type=%d,data=(2,%d)))" % (n, d[0], n - 2)
        if impl != w:
            out.append(("ndp-option-fields", {"got": impl[:200], "want": w[:200]}))


def _tenths(code):
    if code < 128:
        return code
    return ((code & 0x0F) | 0x10) << (((code >> 4) & 7) + 3)


def _igmp(c, out):
    d = _input(c)
    n = len(d)
    impl, spec = c.impl[0], c.model[1]
    rec = c.meta["k"] == "igmp_record"
    # python: rejected iff shorter than 8, or a query of 9..11 bytes
    rej = n < 8 or (not rec and d[0] == 0x11 and 8 < n < 12)
    if spec.startswith("err("):
        m = re.fullmatch(r"err\(req=(\d+),len=(\d+)\)", spec)
        w = lenerr(int(m.group(1)), int(m.group(2)), "Slice", "Igmp")
        if impl != w or int(m.group(2)) != n or not rej or int(m.group(1)) != (8 if n < 8 else 12):
            out.append(("igmp-rejects-iff", {"impl": impl[:200], "want": w, "python_rejects": rej}))
        return
    if rej or not impl.startswith(spec + (")" if rec else ",")):
        out.append(("igmp-view-spec", {"impl": impl[:300], "spec": spec[:300], "python_rejects": rej}))
        return
    name, f = fields_of(impl)
    ty = f["type"]
    kind = ty[: ty.index("(")]
    if rec:
        w = "GroupRecord(type=%d,aux=%d,nsrc=%d,addr=%s)" % (d[0], d[1], be(d, 2, 2), d[4:8].hex())
        if ty != w or f["rest"] != "(8,%d)" % (n - 8):
            out.append(("igmp-record-python", {"got": ty, "want": w}))
        return
    wk = IGMP_TYPES.get(d[0], "Unknown")
    if d[0] == 0x11 and n >= 12:
        wk = "MembershipQueryWithSources"
    hl = 12 if wk == "MembershipQueryWithSources" else 8
    if kind != wk or f["hl"] != str(hl) or f["rest"] != "(%d,%d)" % (hl, n - hl) or f["ck"] != str(be(d, 2, 2)):
        out.append(("igmp-kind-python-table", {"got": impl[:200], "want_kind": wk}))
    if wk == "Unknown" and ty != "Unknown(type=%d,b1=%d,b47=%s)" % (d[0], d[1], d[4:8].hex()):
        out.append(("igmp-unknown-raw", {"got": ty}))
    wt = str(_tenths(d[1])) if wk == "MembershipQueryWithSources" else "-"
    if f["tenths"] != wt:
        out.append(("igmp-max-resp-code", {"got": f["tenths"], "want": wt}))


def _arp(c, out):
    d = _input(c)
    n = len(d)
    impl, spec = c.impl[0], c.model[1]
    parts = dict(p.split("=", 1) for p in impl.split(";"))
    if spec.startswith("short("):
        _, f = fields_of(spec)
        req = int(f["req"])
        src = "ArpAddrLengths" if f["addr"] == "1" else "Slice"
        w = lenerr(req, n, src, "Arp")
        pyreq = 8 if n < 8 else 8 + 2 * d[4] + 2 * d[5]
        if parts.get("sl") != w or parts.get("pk") != w or "v" in parts or req != pyreq or n >= pyreq:
            out.append(("arp-rejects-iff", {"impl": impl[:300], "want": w}))
        return
    if n < 8 or n < 8 + 2 * d[4] + 2 * d[5]:
        out.append(("arp-rejects-iff", {"impl": impl[:300], "python": "too short"}))
        return
    h, p = d[4], d[5]
    need = 8 + 2 * h + 2 * p
    wsl = "ok(w=(0,%d),hrd=%d,pro=%d,hln=%d,pln=%d,op=%d,sha=(8,%d),spa=(%d,%d),tha=(%d,%d),tpa=(%d,%d))" % (
        need, be(d, 0, 2), be(d, 2, 2), h, p, be(d, 6, 2), h, 8 + h, p, 8 + h + p, h, 8 + 2 * h + p, p)
    wpk = "ok(hrd=%d,pro=%d,hln=%d,pln=%d,op=%d,sha=%s,spa=%s,tha=%s,tpa=%s)" % (
        be(d, 0, 2), be(d, 2, 2), h, p, be(d, 6, 2), hx(d[8:8 + h]), hx(d[8 + h:8 + h + p]), hx(d[8 + h + p:8 + 2 * h + p]), hx(d[8 + 2 * h + p:need]))
    if parts.get("sl") != wsl or parts.get("pk") != wpk:
        out.append(("arp-generic-fields", {"impl": impl[:400], "want_sl": wsl, "want_pk": wpk}))
    if parts.get("v") != parts.get("tf"):
        out.append(("arp-try-from-differs", {"impl": impl[:300]}))
    if spec.startswith("mismatch("):
        w = "err(" + spec[len("mismatch("):-1] + ")"
    else:
        sv, sl_ = spec.rsplit(";len=", 1)
        w = sv
        if int(sl_) != need:
            out.append(("arp-view-spec", {"spec": spec[:200]}))
    if parts.get("v") != w:
        out.append(("arp-view-spec", {"got": parts.get("v", "")[:300], "spec": w[:300]}))
    # python: the view exists iff hrd=1, pro=0x0800, hln=6, pln=4
    is_eth = (be(d, 0, 2), be(d, 2, 2), h, p) == (1, 0x0800, 6, 4)
    if parts.get("v", "").startswith("ok(") != is_eth:
        out.append(("arp-view-iff-python", {"got": parts.get("v", "")[:200]}))
    elif is_eth:
        wv = "ok(ArpEthIpv4(op=%d,smac=%s,sip=%s,tmac=%s,tip=%s))" % (be(d, 6, 2), d[8:14].hex(), d[14:18].hex(), d[18:24].hex(), d[24:28].hex())
        if parts["v"] != wv:
            out.append(("arp-view-python", {"got": parts["v"], "want": wv}))


def oracle(c):
    for _line, _o in zip(c.lines, c.impl):
        if _o and "!doors-differ" in _o:
            return [("sibling-functions-differ", {"line": _line[:300], "impl": _o[:400]})]
    out = []
    k = c.meta.get("k")
    try:
        impl = c.impl[0]
        if impl is None:
            return [("malformed-impl-output", {"impl": None})]
        for mk in BAD_MARKERS:
            if mk in impl:
                out.append(("impl-" + ("panic-or-fault" if mk in ("panic", "fault(") else "self-inconsistent"), {"marker": mk, "impl": impl[:300]}))
                return out
        if len(c.lines) > 1 and c.lines[1].split("\t")[1:] != c.lines[0].split("\t")[1:]:
            # (a shrinking candidate that cut only one of the two lines: not a case of this property)
            return [("inconsistent-case", {"lines": [l[:80] for l in c.lines]})]
        if len(c.lines) > 1 and (c.model[1] is None or c.model[1] == "bad-op"):
            return [("spec-missing", {"line": c.lines[1][:100]})]
        if k == "icmp4":
            _icmp(c, False, out)
        elif k == "icmp6":
            _icmp(c, True, out)
        elif k == "icmp6_payload":
            _icmp6_payload(c, out)
        elif k == "ndp_opts":
            check_ndp_iteration(impl, _input(c), 0, c.model[1], out)
        elif k == "ndp_opt":
            _ndp_opt(c, out)
        elif k in ("igmp", "igmp_record"):
            _igmp(c, out)
        elif k == "arp_eth_ipv4":
            _arp(c, out)
    except (ValueError, IndexError, TypeError, AttributeError, KeyError) as e:
        out.append(("malformed-impl-output", {"impl": str(c.impl)[:300], "error": repr(e)}))
    return out


THEOREMS = {
    "icmp": ["EpModel.Props.C17.icmp4_view", "EpModel.Props.C17.icmp6_view", "EpModel.Props.C17.icmp_rejects_iff"],
    "ndp": ["EpModel.Props.C17.ndp_tiles", "EpModel.Props.C17.ndp_refines_spec", "EpModel.Props.C17.ndp_payload_split"],
    "igmp": ["EpModel.Props.C17.igmp_view", "EpModel.Props.C17.group_records_view"],
    "arp": ["EpModel.Props.C17.arp_eth_ipv4_view"],
}


def THEOREM_HINT(name):
    for key, ths in THEOREMS.items():
        if name.startswith(key):
            return ths
    return [t for ths in THEOREMS.values() for t in ths]
