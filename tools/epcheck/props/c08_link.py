"""C08 (link layer + ARP + transport half) - every header value survives encode -> decode unchanged.

Types: eth2, vlan, sll, macsec, arp, arpeth, udp, tcp, icmpv4, icmpv6, igmp, igmprec.

Two streams per type:
  value cases  `enc.<t>.to_bytes <fields> <tail>`   (value built through the crate's public
               constructors/fields; the three serialisers, header_len and the decode of
               to_bytes ++ tail are printed)
  bytes cases  `enc.<t>.from_slice <hex>`            (decode, re-encode, decode again)
The oracle looks only at the implementation's output: serialisers agree and have header_len bytes,
the decode of the encoding prints the fields the generator put in and leaves exactly the tail,
re-encoding an accepted byte string differs from the original only inside the reserved /
normalised bit positions of the python table RESERVED (written from the RFCs) and decodes to the
same fields again.
"""
import re

from ..core import Case
from ..gen import hx, rbytes

ID = "C08"
RULE = (
    "link/ARP/transport half: per type (eth2 vlan sll macsec arp arpeth udp tcp icmpv4 icmpv6 igmp igmprec) "
    ">=2k generated values with extremes over-weighted (all TCP option lengths 0..41, all ARP address lengths 0..255 (+256), "
    "all MACsec flag combinations, every ICMP/IGMP type/code with a typed variant and its neighbours, out-of-range values "
    "through the checked constructors) and >=2k mostly accepted byte strings with a tail; non-trivial = distinct op line whose "
    "value was accepted by the constructors / whose byte string was accepted by the decoder"
)
EXPLANATION = (
    "theorems: encoders_agree / decode_encode / encode_decode per type in EpModel/Props/C08Link.lean; correspondence: "
    "to_bytes/write/write_to_slice/header_len/from_slice of the crate vs EpModel.Model.Codec.{LinkEth,LinkArp,TpUdpTcp,TpIcmp,TpIgmp}; "
    "oracle: round-trip relations on the implementation's own outputs + python table of reserved bits"
)
ASSUMPTIONS = [
    "MacsecHeader::from_slice and ArpPacket::from_slice return no remainder; the remainder is taken as slice[header_len..]",
    "Icmpv6 slices longer than u32::MAX (rejected by the crate) are not exercised by the correspondence runs",
]

U16 = 0xFFFF
U32 = 0xFFFFFFFF
U64 = 0xFFFFFFFFFFFFFFFF


def ev(rng, mx):
    """value in 0..mx, extremes over-weighted."""
    r = rng.random()
    if r < 0.5:
        return rng.choice([0, 1, mx - 1, mx, mx >> 1, (mx >> 1) + 1]) if mx > 1 else rng.randrange(mx + 1)
    if r < 0.6:
        return rng.choice([0x00FF, 0xFF00, 0x0100, 0x8000, 0x7FFF, 0x00FFFF00, 0xFF0000FF, 0x80000000]) & mx
    return rng.randrange(mx + 1)


def eb(rng, n):
    r = rng.random()
    if r < 0.15:
        return bytes([0xFF] * n)
    if r < 0.3:
        return bytes(n)
    return rbytes(rng, n)


def tail(rng):
    r = rng.random()
    if r < 0.25:
        return b""
    if r < 0.5:
        return rbytes(rng, rng.choice([1, 2, 3, 4]))
    return rbytes(rng, rng.randrange(1, 48))


def b01(x):
    return "1" if x else "0"


# ----------------------------------------------------------------------------------------------
# per type: value -> (args, constructible, round_trip_wf, expected fields, header_len)
# A value is a dict; `args` the positional arguments of the to_bytes line (without the tail).


class T:
    name = None

    def gen(self, rng):  # -> value dict
        raise NotImplementedError

    def args(self, v):
        raise NotImplementedError

    def constructible(self, v):  # accepted by the checked constructors
        return True

    def wf(self, v, tl):  # round trip expected (C08 well-formedness), given the tail
        return True

    def fields(self, v):  # canonical text the decoder must print
        raise NotImplementedError

    def hlen(self, v):
        raise NotImplementedError

    def accepted_bytes(self, rng):  # a byte string the decoder should mostly accept
        raise NotImplementedError

    def reserved(self, b):  # list of per-byte masks of reserved/normalised bits for header bytes b
        return [0] * len(b)

    def systematic(self, rng, tier):  # extra enumerated values
        return []


class Eth2(T):
    name = "eth2"

    def gen(self, rng):
        return {"dst": eb(rng, 6), "src": eb(rng, 6), "et": ev(rng, U16)}

    def args(self, v):
        return [hx(v["dst"]), hx(v["src"]), str(v["et"])]

    def fields(self, v):
        return "dst=%s,src=%s,et=%d" % (hx(v["dst"]), hx(v["src"]), v["et"])

    def hlen(self, v):
        return 14

    def accepted_bytes(self, rng):
        return rbytes(rng, 14) + tail(rng)


class Vlan(T):
    name = "vlan"

    def gen(self, rng):
        v = {"pcp": ev(rng, 7), "dei": rng.random() < 0.5, "vid": ev(rng, 4095), "et": ev(rng, U16)}
        r = rng.random()
        if r < 0.04:
            v["pcp"] = rng.choice([8, 9, 15, 16, 128, 255, rng.randrange(8, 256)])
        elif r < 0.08:
            v["vid"] = rng.choice([4096, 4097, 8191, 32768, 65535, rng.randrange(4096, 65536)])
        return v

    def args(self, v):
        return [str(v["pcp"]), b01(v["dei"]), str(v["vid"]), str(v["et"])]

    def constructible(self, v):
        return v["pcp"] <= 7 and v["vid"] <= 4095

    def fields(self, v):
        return "pcp=%d,dei=%s,vid=%d,et=%d" % (v["pcp"], b01(v["dei"]), v["vid"], v["et"])

    def hlen(self, v):
        return 4

    def accepted_bytes(self, rng):
        return rbytes(rng, 4) + tail(rng)

    def systematic(self, rng, tier):
        for pcp in range(0, 9):
            for dei in (False, True):
                for vid in (0, 1, 255, 256, 0xF00, 0x0FF, 4094, 4095, 4096):
                    yield {"pcp": pcp, "dei": dei, "vid": vid, "et": rng.choice([0, 0x8100, U16])}


NONSTD = set(list(range(1, 10)) + [0x0C, 0x0D, 0x0E, 0x10, 0x11] + list(range(0x15, 0x1D)) + list(range(0xF5, 0xFB)))
SLL_HRD = {824: ("netlink",), 778: ("gre",), 803: ("ign",), 770: ("ign",), 1: ("et", "nonstd")}


def sll_tag(hrd, val):
    if hrd == 1:
        return "nonstd" if val in NONSTD else "et"
    return SLL_HRD[hrd][0]


class Sll(T):
    name = "sll"

    def gen(self, rng):
        hrd = rng.choice([824, 778, 803, 770, 1, 1, 1])
        val = rng.choice([ev(rng, U16), rng.choice(sorted(NONSTD)), rng.choice([0, 0x0A, 0x0B, 0x0F, 0x12, 0x14, 0x1D, 0xF4, 0xFB, 0x0800, 0x86DD])])
        v = {"pt": ev(rng, 7), "hrd": hrd, "alen": ev(rng, U16), "addr": eb(rng, 8), "tag": sll_tag(hrd, val), "val": val}
        r = rng.random()
        if r < 0.04:
            v["pt"] = rng.choice([8, 9, 255, 256, 65535, rng.randrange(8, 65536)])
        elif r < 0.10:
            # inconsistent (hardware id, variant) pairs: serialisable but not well-formed
            v["hrd"] = rng.choice([0, 2, 769, 771, 777, 779, 802, 804, 823, 825, 65535, 824, 778, 803, 770, 1])
            v["tag"] = rng.choice(["ign", "netlink", "gre", "et", "nonstd"])
        elif r < 0.13:
            v["tag"] = "nonstd"  # possibly with a value that is not a non-standard ether type
        return v

    def args(self, v):
        return [str(v["pt"]), str(v["hrd"]), str(v["alen"]), hx(v["addr"]), v["tag"], str(v["val"])]

    def constructible(self, v):
        return v["pt"] <= 7 and (v["tag"] != "nonstd" or v["val"] in NONSTD)

    def wf(self, v, tl):
        return v["hrd"] in SLL_HRD and sll_tag(v["hrd"], v["val"]) == v["tag"]

    def fields(self, v):
        return "pt=%d,hrd=%d,alen=%d,addr=%s,proto=%s(%d)" % (v["pt"], v["hrd"], v["alen"], hx(v["addr"]), v["tag"], v["val"])

    def hlen(self, v):
        return 16

    def accepted_bytes(self, rng):
        b = bytearray(rbytes(rng, 16))
        if rng.random() < 0.9:
            b[0] = 0
            b[1] = rng.randrange(8)
            hrd = rng.choice([824, 778, 803, 770, 1, 1])
            b[2], b[3] = hrd >> 8, hrd & 0xFF
            if hrd == 1 and rng.random() < 0.5:
                b[14] = 0
                b[15] = rng.choice(sorted(NONSTD) + [0, 0x0A, 0x0F, 0x1D, 0xFB])
        return bytes(b) + tail(rng)

    def systematic(self, rng, tier):
        for hrd in (824, 778, 803, 770, 1):
            for val in list(range(0, 0x20)) + list(range(0xF3, 0xFD)) + [0x0800, U16]:
                yield {"pt": val % 8, "hrd": hrd, "alen": val, "addr": eb(rng, 8), "tag": sll_tag(hrd, val), "val": val}


class Macsec(T):
    name = "macsec"

    def gen(self, rng):
        v = {
            "pt": rng.choice(["unmod", "unmod", "mod", "enc", "encunmod"]),
            "et": ev(rng, U16),
            "es": rng.random() < 0.5,
            "scb": rng.random() < 0.5,
            "an": ev(rng, 3),
            "sl": rng.choice([0, 1, 2, 3, 62, 63, rng.randrange(64)]),
            "pn": ev(rng, U32),
            "sci": None if rng.random() < 0.4 else ev(rng, U64),
        }
        r = rng.random()
        if r < 0.04:
            v["an"] = rng.choice([4, 5, 255, rng.randrange(4, 256)])
        elif r < 0.08:
            v["sl"] = rng.choice([64, 65, 127, 128, 255, rng.randrange(64, 256)])
        return v

    def args(self, v):
        return [v["pt"], str(v["et"]), b01(v["es"]), b01(v["scb"]), str(v["an"]), str(v["sl"]), str(v["pn"]), "none" if v["sci"] is None else str(v["sci"])]

    def constructible(self, v):
        return v["an"] <= 3 and v["sl"] <= 63

    def wf(self, v, tl):
        return not (v["pt"] == "unmod" and v["sl"] == 1)

    def fields(self, v):
        p = "unmod(%d)" % v["et"] if v["pt"] == "unmod" else v["pt"]
        return "ptype=%s,es=%s,scb=%s,an=%d,sl=%d,pn=%d,sci=%s" % (
            p, b01(v["es"]), b01(v["scb"]), v["an"], v["sl"], v["pn"], "none" if v["sci"] is None else "some(%d)" % v["sci"])

    def hlen(self, v):
        return 6 + (0 if v["sci"] is None else 8) + (2 if v["pt"] == "unmod" else 0)

    def accepted_bytes(self, rng):
        b = bytearray(rbytes(rng, 16))
        if rng.random() < 0.9:
            b[0] &= 0x7F
        if rng.random() < 0.3:
            b[1] = rng.choice([0, 1, 2, 0x3F, 0x40, 0x41, 0x80, 0x81, 0xC0, 0xC1, 0xFF])
        return bytes(b) + tail(rng)

    def reserved(self, b):
        m = [0] * len(b)
        m[1] = 0xC0
        return m

    def systematic(self, rng, tier):
        for pt in ("unmod", "mod", "enc", "encunmod"):
            for es in (False, True):
                for scb in (False, True):
                    for an in range(5):
                        for sci in (None, 0, U64, 0x0102030405060708):
                            for sl in (0, 1, 2, 63):
                                yield {"pt": pt, "et": rng.choice([0, 0x88E5, U16]), "es": es, "scb": scb, "an": an, "sl": sl, "pn": ev(rng, U32), "sci": sci}


class Arp(T):
    name = "arp"

    def _val(self, rng, hl, pl):
        return {"hw": ev(rng, U16), "proto": ev(rng, U16), "op": ev(rng, U16),
                "shw": rbytes(rng, hl), "sp": rbytes(rng, pl), "thw": rbytes(rng, hl), "tp": rbytes(rng, pl)}

    def gen(self, rng):
        hl = rng.choice([0, 1, 6, 6, 8, 20, 254, 255, rng.randrange(256)])
        pl = rng.choice([0, 1, 4, 4, 16, 254, 255, rng.randrange(256)])
        v = self._val(rng, hl, pl)
        r = rng.random()
        if r < 0.03:
            v["thw"] = rbytes(rng, rng.choice([0, max(hl - 1, 0), hl + 1, 255, 256]))
        elif r < 0.06:
            v["tp"] = rbytes(rng, rng.choice([0, max(pl - 1, 0), pl + 1, 255, 256]))
        elif r < 0.08:
            n = rng.choice([256, 257, 300])
            v["shw"] = rbytes(rng, n)
            v["thw"] = rbytes(rng, n)
        elif r < 0.10:
            n = rng.choice([256, 257, 300])
            v["sp"] = rbytes(rng, n)
            v["tp"] = rbytes(rng, n)
        return v

    def args(self, v):
        return [str(v["hw"]), str(v["proto"]), str(v["op"]), hx(v["shw"]), hx(v["sp"]), hx(v["thw"]), hx(v["tp"])]

    def constructible(self, v):
        return len(v["shw"]) == len(v["thw"]) and len(v["sp"]) == len(v["tp"]) and len(v["shw"]) <= 255 and len(v["sp"]) <= 255

    def fields(self, v):
        return "hw=%d,proto=%d,op=%d,hs=%d,ps=%d,shw=%s,sp=%s,thw=%s,tp=%s" % (
            v["hw"], v["proto"], v["op"], len(v["shw"]), len(v["sp"]), hx(v["shw"]), hx(v["sp"]), hx(v["thw"]), hx(v["tp"]))

    def hlen(self, v):
        return 8 + 2 * len(v["shw"]) + 2 * len(v["sp"])

    def accepted_bytes(self, rng):
        hl = rng.choice([0, 1, 6, 6, 6, 255, rng.randrange(256), rng.randrange(32)])
        pl = rng.choice([0, 1, 4, 4, 4, 255, rng.randrange(256), rng.randrange(32)])
        n = 8 + 2 * hl + 2 * pl
        b = bytearray(rbytes(rng, n))
        b[4], b[5] = hl, pl
        b = bytes(b) + tail(rng)
        if rng.random() < 0.1:
            b = b[: rng.randrange(len(b) + 1)]
        return b

    def systematic(self, rng, tier):
        for n in list(range(0, 256)):
            yield self._val(rng, n, rng.choice([0, 4, 16, 255]))
            yield self._val(rng, rng.choice([0, 6, 8, 255]), n)
        yield self._val(rng, 255, 255)
        yield self._val(rng, 256, 4)
        yield self._val(rng, 6, 256)


class ArpEth(T):
    name = "arpeth"

    def gen(self, rng):
        return {"op": ev(rng, U16), "smac": eb(rng, 6), "sip": eb(rng, 4), "tmac": eb(rng, 6), "tip": eb(rng, 4)}

    def args(self, v):
        return [str(v["op"]), hx(v["smac"]), hx(v["sip"]), hx(v["tmac"]), hx(v["tip"])]

    def fields(self, v):
        return "op=%d,smac=%s,sip=%s,tmac=%s,tip=%s" % (v["op"], hx(v["smac"]), hx(v["sip"]), hx(v["tmac"]), hx(v["tip"]))

    def hlen(self, v):
        return 28

    def accepted_bytes(self, rng):
        b = bytearray(b"\x00\x01\x08\x00\x06\x04" + rbytes(rng, 22))
        if rng.random() < 0.12:
            i = rng.randrange(6)
            b[i] = (b[i] + rng.choice([1, 255, 0x80])) & 0xFF
            b += rbytes(rng, 40)
        return bytes(b) + tail(rng)


class Udp(T):
    name = "udp"

    def gen(self, rng):
        return {"sp": ev(rng, U16), "dp": ev(rng, U16), "len": ev(rng, U16), "ck": ev(rng, U16)}

    def args(self, v):
        return [str(v["sp"]), str(v["dp"]), str(v["len"]), str(v["ck"])]

    def fields(self, v):
        return "sp=%d,dp=%d,len=%d,ck=%d" % (v["sp"], v["dp"], v["len"], v["ck"])

    def hlen(self, v):
        return 8

    def accepted_bytes(self, rng):
        return rbytes(rng, 8) + tail(rng)


class Tcp(T):
    name = "tcp"

    def _val(self, rng, optlen):
        return {"sp": ev(rng, U16), "dp": ev(rng, U16), "seq": ev(rng, U32), "ack": ev(rng, U32),
                "fl": [rng.random() < 0.5 for _ in range(9)] if rng.random() < 0.8 else [rng.random() < 0.5] * 9,
                "win": ev(rng, U16), "ck": ev(rng, U16), "urg": ev(rng, U16), "opts": rbytes(rng, optlen)}

    def gen(self, rng):
        r = rng.random()
        if r < 0.7:
            n = rng.choice(range(0, 41, 4))
        elif r < 0.95:
            n = rng.randrange(0, 41)
        else:
            n = rng.choice([41, 42, 44, 60, 100])
        return self._val(rng, n)

    def args(self, v):
        return [str(v["sp"]), str(v["dp"]), str(v["seq"]), str(v["ack"]), "".join(b01(x) for x in v["fl"]),
                str(v["win"]), str(v["ck"]), str(v["urg"]), hx(v["opts"])]

    def constructible(self, v):
        return len(v["opts"]) <= 40

    def _padded(self, v):
        o = v["opts"]
        return o + bytes((-len(o)) % 4)

    def fields(self, v):
        o = self._padded(v)
        return "sp=%d,dp=%d,seq=%d,ack=%d,fl=%s,win=%d,ck=%d,urg=%d,doff=%d,opts=%s" % (
            v["sp"], v["dp"], v["seq"], v["ack"], "".join(b01(x) for x in v["fl"]), v["win"], v["ck"], v["urg"], 5 + len(o) // 4, hx(o))

    def hlen(self, v):
        return 20 + len(self._padded(v))

    def accepted_bytes(self, rng):
        doff = rng.choice([5, 5, 6, 7, 14, 15, rng.randrange(5, 16), rng.randrange(0, 16)])
        b = bytearray(rbytes(rng, max(doff * 4, 20)))
        b[12] = (doff << 4) | (b[12] & 0x0F)
        b = bytes(b) + tail(rng)
        if rng.random() < 0.08:
            b = b[: rng.randrange(len(b) + 1)]
        return b

    def reserved(self, b):
        m = [0] * len(b)
        m[12] = 0x0E
        return m

    def systematic(self, rng, tier):
        for n in range(0, 43):
            for _ in range(4):
                yield self._val(rng, n)
        for i in range(9):
            v = self._val(rng, 0)
            v["fl"] = [j == i for j in range(9)]
            yield v
            v = self._val(rng, 40)
            v["fl"] = [j != i for j in range(9)]
            yield v


def icmp4_typed(t, c):
    return (t, c) in ((0, 0), (8, 0), (13, 0), (14, 0)) or (t == 3 and c <= 15) or (t == 5 and c <= 3) or (t == 11 and c <= 1) or (t == 12 and c <= 2)


class Icmpv4(T):
    name = "icmpv4"
    VARIANTS = ["unknown", "echoreply", "echoreq", "du", "redirect", "te", "pp", "tsreq", "tsreply"]

    def _val(self, rng, k):
        v = {"ck": ev(rng, U16), "k": k}
        if k == "unknown":
            t = rng.choice([0, 1, 2, 3, 4, 5, 6, 7, 8, 9, 10, 11, 12, 13, 14, 15, 16, 17, 18, 255, rng.randrange(256)])
            c = rng.choice([0, 1, 2, 3, 4, 15, 16, 17, 255, rng.randrange(256)])
            v["a"] = [t, c, eb(rng, 4)]
        elif k in ("echoreply", "echoreq"):
            v["a"] = [ev(rng, U16), ev(rng, U16)]
        elif k == "du":
            v["a"] = [rng.choice(list(range(16)) + [4, 4, 4, 16, 17, 255]), ev(rng, U16)]
        elif k == "redirect":
            v["a"] = [rng.choice([0, 1, 2, 3, 3, 4, 255]), eb(rng, 4)]
        elif k == "te":
            v["a"] = [rng.choice([0, 1, 0, 1, 0, 1, 2, 255])]
        elif k == "pp":
            v["a"] = [rng.choice([0, 0, 1, 2, 0, 1, 2, 3, 255]), ev(rng, 255)]
        else:
            v["a"] = [ev(rng, U16), ev(rng, U16), ev(rng, U32), ev(rng, U32), ev(rng, U32)]
        return v

    def gen(self, rng):
        return self._val(rng, rng.choice(self.VARIANTS))

    def args(self, v):
        return [str(v["ck"]), v["k"], ",".join(hx(x) if isinstance(x, bytes) else str(x) for x in v["a"]) or "-"]

    def constructible(self, v):
        k, a = v["k"], v["a"]
        return not ((k == "du" and a[0] > 15) or (k == "redirect" and a[0] > 3) or (k == "te" and a[0] > 1) or (k == "pp" and a[0] > 2))

    def wf(self, v, tl):
        k, a = v["k"], v["a"]
        if k == "unknown":
            return not icmp4_typed(a[0], a[1])
        if k in ("tsreq", "tsreply"):
            return len(tl) == 0  # the decoder accepts timestamp messages only as exactly 20 bytes
        return True

    def fields(self, v):
        k, a = v["k"], list(v["a"])
        if k == "du" and a[0] != 4:
            a[1] = 0
        if k == "pp" and a[0] != 0:
            a[1] = 0
        return "ty=%s(%s),ck=%d" % (k, ",".join(hx(x) if isinstance(x, bytes) else str(x) for x in a), v["ck"])

    def hlen(self, v):
        return 20 if v["k"] in ("tsreq", "tsreply") else 8

    def accepted_bytes(self, rng):
        t = rng.choice([0, 3, 3, 5, 8, 11, 12, 13, 14, 4, 9, 15, rng.randrange(256)])
        c = rng.choice([0, 0, 0, 1, 2, 3, 4, 4, 5, 15, 16, rng.randrange(256)])
        if t in (13, 14) and c == 0 and rng.random() < 0.9:
            return bytes([t, c]) + rbytes(rng, 18)
        return bytes([t, c]) + rbytes(rng, 6) + tail(rng)

    def reserved(self, b):
        m = [0] * len(b)
        t, c = b[0], b[1]
        if t == 3 and c <= 15:
            m[4:8] = [0xFF, 0xFF, 0, 0] if c == 4 else [0xFF] * 4      # RFC 792 unused / RFC 1191 next-hop MTU
        elif t == 11 and c <= 1:
            m[4:8] = [0xFF] * 4                                        # RFC 792 unused
        elif t == 12 and c <= 2:
            m[4:8] = [0, 0xFF, 0xFF, 0xFF] if c == 0 else [0xFF] * 4   # RFC 792 pointer + unused
        return m

    def systematic(self, rng, tier):
        for t in range(0, 20):
            for c in list(range(0, 18)) + [255]:
                yield {"ck": ev(rng, U16), "k": "unknown", "a": [t, c, eb(rng, 4)]}
        for c in range(0, 18):
            yield {"ck": ev(rng, U16), "k": "du", "a": [c, ev(rng, U16)]}
            yield {"ck": ev(rng, U16), "k": "redirect", "a": [c, eb(rng, 4)]}
            yield {"ck": ev(rng, U16), "k": "te", "a": [c]}
            yield {"ck": ev(rng, U16), "k": "pp", "a": [c, ev(rng, 255)]}

    def systematic_bytes(self, rng, tier):
        for t in range(0, 20):
            for c in list(range(0, 18)) + [255]:
                for n in ((20, 8, 21, 19) if t in (13, 14) else (8, 12)):
                    yield bytes([t, c]) + rbytes(rng, n - 2, None if n % 2 else "ff")


def icmp6_typed(t, c):
    return (t == 1 and c <= 6) or (t == 3 and c <= 1) or (t == 4 and c <= 10) or (c == 0 and t in (2, 128, 129, 133, 134, 135, 136, 137))


class Icmpv6(T):
    name = "icmpv6"
    VARIANTS = ["unknown", "du", "ptb", "te", "pp", "echoreq", "echoreply", "rs", "ra", "ns", "na", "redirect"]

    def _val(self, rng, k):
        v = {"ck": ev(rng, U16), "k": k}
        if k == "unknown":
            t = rng.choice([0, 1, 2, 3, 4, 5, 127, 128, 129, 130, 132, 133, 134, 135, 136, 137, 138, 255, rng.randrange(256)])
            c = rng.choice([0, 1, 2, 6, 7, 10, 11, 255, rng.randrange(256)])
            v["a"] = [t, c, eb(rng, 4)]
        elif k == "du":
            v["a"] = [rng.choice(list(range(7)) + [7, 8, 255])]
        elif k == "ptb":
            v["a"] = [ev(rng, U32)]
        elif k == "te":
            v["a"] = [rng.choice([0, 1, 0, 1, 2, 255])]
        elif k == "pp":
            v["a"] = [rng.choice(list(range(11)) + [11, 12, 255]), ev(rng, U32)]
        elif k in ("echoreq", "echoreply"):
            v["a"] = [ev(rng, U16), ev(rng, U16)]
        elif k == "ra":
            v["a"] = [ev(rng, 255), rng.random() < 0.5, rng.random() < 0.5, ev(rng, U16)]
        elif k == "na":
            v["a"] = [rng.random() < 0.5, rng.random() < 0.5, rng.random() < 0.5]
        else:
            v["a"] = []
        return v

    def gen(self, rng):
        return self._val(rng, rng.choice(self.VARIANTS))

    @staticmethod
    def _s(x):
        if isinstance(x, bytes):
            return hx(x)
        if isinstance(x, bool):
            return b01(x)
        return str(x)

    def args(self, v):
        return [str(v["ck"]), v["k"], ",".join(self._s(x) for x in v["a"]) or "-"]

    def constructible(self, v):
        k, a = v["k"], v["a"]
        return not ((k == "du" and a[0] > 6) or (k == "te" and a[0] > 1) or (k == "pp" and a[0] > 10))

    def wf(self, v, tl):
        if v["k"] == "unknown":
            return not icmp6_typed(v["a"][0], v["a"][1])
        return True

    def fields(self, v):
        a = ",".join(self._s(x) for x in v["a"])
        return "ty=%s%s,ck=%d" % (v["k"], "(%s)" % a if v["a"] else "", v["ck"])

    def hlen(self, v):
        return 8

    def accepted_bytes(self, rng):
        t = rng.choice([1, 2, 3, 4, 128, 129, 133, 134, 135, 136, 137, 0, 130, rng.randrange(256)])
        c = rng.choice([0, 0, 0, 0, 1, 2, 6, 7, 10, 11, rng.randrange(256)])
        return bytes([t, c]) + rbytes(rng, 6) + tail(rng)

    def reserved(self, b):
        m = [0] * len(b)
        t, c = b[0], b[1]
        if (t == 1 and c <= 6) or (t == 3 and c <= 1) or (c == 0 and t in (133, 135, 137)):
            m[4:8] = [0xFF] * 4                      # RFC 4443 unused / RFC 4861 reserved
        elif t == 134 and c == 0:
            m[5] = 0x3F                              # RFC 4861 router advertisement: M, O, 6 reserved bits
        elif t == 136 and c == 0:
            m[4:8] = [0x1F, 0xFF, 0xFF, 0xFF]        # RFC 4861 neighbor advertisement: R, S, O, 29 reserved bits
        return m

    def systematic(self, rng, tier):
        for t in list(range(0, 7)) + list(range(126, 140)) + [255]:
            for c in list(range(0, 13)) + [255]:
                yield {"ck": ev(rng, U16), "k": "unknown", "a": [t, c, eb(rng, 4)]}
        for c in range(0, 13):
            yield {"ck": ev(rng, U16), "k": "du", "a": [c]}
            yield {"ck": ev(rng, U16), "k": "te", "a": [c]}
            yield {"ck": ev(rng, U16), "k": "pp", "a": [c, ev(rng, U32)]}
        for m in (False, True):
            for o in (False, True):
                for r in (False, True):
                    yield {"ck": ev(rng, U16), "k": "ra", "a": [ev(rng, 255), m, o, ev(rng, U16)]}
                    yield {"ck": ev(rng, U16), "k": "na", "a": [m, o, r]}

    def systematic_bytes(self, rng, tier):
        for t in list(range(0, 7)) + list(range(126, 140)) + [255]:
            for c in list(range(0, 13)) + [255]:
                yield bytes([t, c]) + rbytes(rng, 6, "ff") + tail(rng)
                yield bytes([t, c]) + rbytes(rng, 6) + tail(rng)


IGMP_TYPED = (0x11, 0x12, 0x16, 0x17, 0x22)


class Igmp(T):
    name = "igmp"
    VARIANTS = ["query", "querysrc", "reportv1", "reportv2", "reportv3", "leave", "unknown"]

    def _val(self, rng, k):
        v = {"ck": ev(rng, U16), "k": k}
        if k == "query":
            v["a"] = [ev(rng, 255), eb(rng, 4)]
        elif k == "querysrc":
            v["a"] = [ev(rng, 255), eb(rng, 4), ev(rng, 255), ev(rng, 255), ev(rng, U16)]
        elif k in ("reportv1", "reportv2", "leave"):
            v["a"] = [eb(rng, 4)]
        elif k == "reportv3":
            v["a"] = [eb(rng, 2), ev(rng, U16)]
        else:
            v["a"] = [rng.choice([0, 0x10, 0x11, 0x12, 0x13, 0x15, 0x16, 0x17, 0x18, 0x21, 0x22, 0x23, 0xFF, rng.randrange(256)]), ev(rng, 255), eb(rng, 4)]
        return v

    def gen(self, rng):
        return self._val(rng, rng.choice(self.VARIANTS))

    def args(self, v):
        return [str(v["ck"]), v["k"], ",".join(hx(x) if isinstance(x, bytes) else str(x) for x in v["a"])]

    def wf(self, v, tl):
        if v["k"] == "unknown":
            return v["a"][0] not in IGMP_TYPED
        if v["k"] == "query":
            return len(tl) == 0  # an 8 byte query is the IGMPv1/v2 form only when nothing follows
        return True

    def fields(self, v):
        return "ty=%s(%s),ck=%d" % (v["k"], ",".join(hx(x) if isinstance(x, bytes) else str(x) for x in v["a"]), v["ck"])

    def hlen(self, v):
        return 12 if v["k"] == "querysrc" else 8

    def accepted_bytes(self, rng):
        t = rng.choice([0x11, 0x11, 0x12, 0x16, 0x17, 0x22, 0x10, 0x13, rng.randrange(256)])
        if t == 0x11:
            n = rng.choice([8, 8, 9, 11, 12, 12, 13, 40])
            return bytes([t]) + rbytes(rng, n - 1)
        return bytes([t]) + rbytes(rng, 7) + tail(rng)

    def reserved(self, b):
        m = [0] * len(b)
        if b[0] in (0x12, 0x16, 0x17, 0x22):
            m[1] = 0xFF   # RFC 1112 unused / RFC 2236 max resp time unused in reports+leave / RFC 3376 reserved
        return m

    def systematic(self, rng, tier):
        for t in range(256):
            yield {"ck": ev(rng, U16), "k": "unknown", "a": [t, ev(rng, 255), eb(rng, 4)]}

    def systematic_bytes(self, rng, tier):
        for t in range(256):
            yield bytes([t]) + rbytes(rng, 7)
            yield bytes([t]) + rbytes(rng, 7) + tail(rng)
        for n in range(0, 16):
            yield bytes([0x11]) + rbytes(rng, n)


class IgmpRec(T):
    name = "igmprec"

    def gen(self, rng):
        return {"rt": ev(rng, 255), "aux": ev(rng, 255), "n": ev(rng, U16), "addr": eb(rng, 4)}

    def args(self, v):
        return [str(v["rt"]), str(v["aux"]), str(v["n"]), hx(v["addr"])]

    def fields(self, v):
        return "rt=%d,aux=%d,n=%d,addr=%s" % (v["rt"], v["aux"], v["n"], hx(v["addr"]))

    def hlen(self, v):
        return 8

    def accepted_bytes(self, rng):
        return rbytes(rng, 8) + tail(rng)


TYPES = [Eth2(), Vlan(), Sll(), Macsec(), Arp(), ArpEth(), Udp(), Tcp(), Icmpv4(), Icmpv6(), Igmp(), IgmpRec()]
BY_NAME = {t.name: t for t in TYPES}


# ----------------------------------------------------------------------------------------------


def _value_case(t, v, tl):
    line = "enc.%s.to_bytes\t%s\t%s" % (t.name, "\t".join(t.args(v)), hx(tl))
    cons = t.constructible(v)
    # "head": the value part of the line; the generic shrinker may only shorten the tail
    meta = {"k": "val", "t": t.name, "cons": cons, "head": line.rsplit("\t", 1)[0]}
    if cons:
        meta["hlen"] = t.hlen(v)
        # well-formedness may depend on whether a tail follows (ICMPv4 timestamp, IGMP query)
        meta["wf0"] = bool(t.wf(v, b""))
        meta["wf1"] = bool(t.wf(v, b"x"))
        if meta["wf0"] or meta["wf1"]:
            meta["expect"] = t.fields(v)
    return Case([line], meta)


def _bytes_case(t, b):
    return Case(["enc.%s.from_slice\t%s" % (t.name, hx(b))], {"k": "bytes", "t": t.name, "data": hx(b)})


def generate(rng, tier):
    nval = 2200 if tier == "quick" else 40000
    nbytes = 2400 if tier == "quick" else 40000
    for t in TYPES:
        for v in t.systematic(rng, tier):
            yield _value_case(t, v, tail(rng))
            if t.name in ("icmpv4", "igmp"):
                yield _value_case(t, v, b"")
        for _ in range(nval):
            yield _value_case(t, t.gen(rng), tail(rng))
        if hasattr(t, "systematic_bytes"):
            for b in t.systematic_bytes(rng, tier):
                yield _bytes_case(t, b)
        for _ in range(nbytes):
            yield _bytes_case(t, t.accepted_bytes(rng))
        # malformed stream: noise of every short length, and truncations
        for n in range(0, 48):
            for _ in range(2 if tier == "quick" else 20):
                yield _bytes_case(t, rbytes(rng, n))
    # write_to_slice into every buffer size around the header length
    e, s = BY_NAME["eth2"], BY_NAME["sll"]
    for cap in list(range(0, 24)) + [64, 1500]:
        for _ in range(3):
            v = e.gen(rng)
            yield Case(["enc.eth2.wslice\t%s\t%d" % ("\t".join(e.args(v)), cap)], {"k": "wslice", "t": "eth2", "cap": cap, "hlen": 14, "line": "enc.eth2.wslice\t%s\t%d" % ("\t".join(e.args(v)), cap)})
            v = s.gen(rng)
            if s.constructible(v):
                yield Case(["enc.sll.wslice\t%s\t%d" % ("\t".join(s.args(v)), cap)], {"k": "wslice", "t": "sll", "cap": cap, "hlen": 16, "line": "enc.sll.wslice\t%s\t%d" % ("\t".join(s.args(v)), cap)})


def is_trivial(c):
    o = c.impl[0]
    return o is None or not o.startswith("ok(")


_ENC = re.compile(r"^ok\(b=([0-9a-f]+|-),w=(same|na|[0-9a-f]+|-),s=(same|na|[0-9a-f-]+\+\d+|err\(.*?\)\)),len=(\d+),dec=(.*)\)$")
_FROM = re.compile(r"^ok\((.*?),rest=\((\d+),(\d+)\),re=([0-9a-f]+|-),again=(.*)\)$")


def _unhex(h):
    return b"" if h == "-" else bytes.fromhex(h)


def oracle(c):
    out = []
    k = c.meta.get("k")
    o = c.impl[0]
    try:
        if k == "val" and c.lines[0].rsplit("\t", 1)[0] != c.meta["head"]:
            return []  # a shrinking candidate that altered the value itself: meta no longer describes it
        if o is None or o in ("panic", "bad-op") or o.startswith("fault("):
            return [("no-result", {"impl": o})]
        if k == "val":
            if not c.meta["cons"]:
                if not o.startswith("err("):
                    out.append(("out-of-range-accepted", {"impl": o[:300]}))
                return out
            if o.startswith("err("):
                return [("valid-value-rejected", {"impl": o})]
            m = _ENC.match(o)
            if not m:
                return [("malformed-impl-output", {"impl": o[:300]})]
            b = _unhex(m.group(1))
            if m.group(2) not in ("same", "na"):
                out.append(("serialisers-differ", {"to_bytes": m.group(1), "write": m.group(2)}))
            if m.group(3) not in ("same", "na"):
                out.append(("serialisers-differ", {"to_bytes": m.group(1), "write_to_slice": m.group(3)}))
            if len(b) != int(m.group(4)) or len(b) != c.meta["hlen"]:
                out.append(("header-len", {"to_bytes_len": len(b), "header_len": int(m.group(4)), "expected": c.meta["hlen"]}))
            tl = c.lines[0].rsplit("\t", 1)[1]
            ntail = 0 if tl == "-" else len(tl) // 2
            if c.meta["wf1"] if ntail else c.meta["wf0"]:
                want = "ok(%s,rest=(%d,%d))" % (c.meta["expect"], c.meta["hlen"], ntail)
                if m.group(5) != want:
                    out.append(("decode-of-encode", {"got": m.group(5)[:400], "want": want[:400]}))
        elif k == "bytes":
            if o.startswith("err("):
                return out
            m = _FROM.match(o)
            if not m:
                return [("malformed-impl-output", {"impl": o[:300]})]
            data = _unhex(c.lines[0].split("\t")[1])
            off, rl = int(m.group(2)), int(m.group(3))
            re_ = _unhex(m.group(4))
            if off + rl != len(data):
                out.append(("rest-window", {"off": off, "len": rl, "input_len": len(data)}))
            orig = data[:off]
            if len(re_) != len(orig):
                out.append(("reencode-length", {"orig": len(orig), "re": len(re_)}))
            else:
                mask = BY_NAME[c.meta["t"]].reserved(orig) if orig else []
                bad = [i for i in range(len(orig)) if ((orig[i] ^ re_[i]) & ~mask[i] & 0xFF) or (re_[i] & mask[i])]
                if bad:
                    out.append(("reencode-differs-outside-reserved", {"at": bad[:8], "orig": hx(orig), "re": hx(re_)}))
            if m.group(5) != "same":
                out.append(("second-decode-differs", {"again": m.group(5)[:400], "first": m.group(1)[:400]}))
        elif k == "wslice":
            if c.lines[0] != c.meta["line"]:
                return []
            cap, hl = c.meta["cap"], c.meta["hlen"]
            if cap < hl:
                if not o.startswith("err(space(req=%d,len=%d," % (hl, cap)):
                    out.append(("slice-space-error", {"impl": o, "cap": cap}))
            else:
                mm = re.match(r"^ok\(written=([0-9a-f]+),rest=(\d+)\)$", o)
                if not mm or len(mm.group(1)) != 2 * hl or int(mm.group(2)) != cap - hl:
                    out.append(("slice-write", {"impl": o, "cap": cap}))
    except (ValueError, IndexError, TypeError, AttributeError, KeyError) as e:
        out.append(("malformed-impl-output", {"impl": str(o)[:300], "exc": repr(e)}))
    return out
