"""C05 - lax parsing extends strict parsing and flags truncation honestly."""
import re

from ..core import Case
from .. import decsupport as D
from ..gen import hx

ID = "C05"
RULE = (
    "structured / perturbed / truncated packets through the strict and the lax twin of every door (LaxSlicedPacket, "
    "LaxPacketHeaders, LaxIpSlice, LaxIpv4Slice, LaxIpv6Slice, LaxMacsecSlice, UdpSlice::from_slice_lax, extension chains); "
    "non-trivial = distinct input whose first header is decodable"
)
EXPLANATION = (
    "theorems: EpModel/Props/C05.lean; correspondence: the lax and strict dec.* ops; oracles: (1) implementation vs "
    "implementation: strict Ok => lax identical with no stop error and nothing incomplete; strict Err => lax Ok with a stop "
    "error unless the first header is undecodable; (2) implementation vs Spec.decodeLax: layers in front of the fault, "
    "incomplete flags (length field promised more than the slice holds)"
)
ASSUMPTIONS = ["documented leniency: lax doors decode IPv4/IPv6 by version nibble whatever the ether type says"]


def build(meta):
    start, et, data = meta["start"], meta["et"], D.meta_bytes(meta)
    meta = dict(meta)
    suf, pre = D.entry_suffix(start, et)
    h = hx(data)
    if start == "sll":
        lines = ["dec.sp_sll\t" + h, "dec.lph_sll\t" + h, D.spec_line(start, et, data, lax=True)]
        meta["k2"] = "sll"
    else:
        lines = ["dec.sp_%s\t%s%s" % (suf, pre, h), "dec.lsp_%s\t%s%s" % (suf, pre, h), D.spec_line(start, et, data, lax=True),
                 "dec.ph_%s\t%s%s" % (suf, pre, h), "dec.lph_%s\t%s%s" % (suf, pre, h)]
        meta["k2"] = "pkt"
        if start == "ip":
            lines += ["dec.ip_slice\t" + h, "dec.lax_ip_slice\t" + h, "dec.ipv4_slice\t" + h, "dec.lax_ipv4_slice\t" + h,
                      "dec.ipv6_slice\t" + h, "dec.lax_ipv6_slice\t" + h, "dec.udp\t" + h, "dec.udp_lax\t" + h]
            nh = meta.get("nh", 0)
            rest = hx(data[40:]) if len(data) >= 40 else h
            lines += ["dec.exts\t%d\t%s" % (nh, rest), "dec.exts_lax\t%d\t%s" % (nh, rest), "dec.exts_struct\t%d\t%s" % (nh, rest), "dec.exts_struct_lax\t%d\t%s" % (nh, rest)]
        elif start == "et" and et == 0x88E5:
            lines += ["dec.macsec\t" + h, "dec.lax_macsec\t" + h]
    return Case(lines, meta)


rebuild = build


def generate(rng, tier):
    n = 12000 if tier == "quick" else 350000
    tb = 50 if tier == "quick" else 1500
    for start, et, data, meta in D.base_inputs(rng, n, tb):
        yield build(meta)


def is_trivial(c):
    return (c.impl[1] or "").startswith("err(")


def pair(name, strict, lax, out, first_header_err_ok=True):
    if strict is None or lax is None:
        return
    if strict.startswith("ok("):
        if strict != lax:
            out.append((name + "-strict-ok-but-lax-differs", {"strict": strict[:700], "lax": lax[:700]}))
    elif strict.startswith("err("):
        if lax.startswith("ok("):
            if "inc=1" not in lax and "stop=none" in lax and not tolerated(strict, lax):
                out.append((name + "-strict-err-but-lax-silent", {"strict": strict, "lax": lax[:700]}))


def tolerated(strict_err, lax_out=""):
    # documented: length fields that promise more / less than present are absorbed (incomplete or slice length);
    # lax doors dispatch IP by the version nibble, whatever the ether type announced
    le = D.parse_len(strict_err)
    if le is not None:
        if le["layer"] in ("Ipv4Packet", "Ipv6Packet", "UdpPayload", "UdpHeader", "MacsecPacket"):
            return True
        if le["layer"] in ("Ipv6Header",) and "net=ipv4(" in lax_out:
            return True
        if le["layer"] in ("Ipv4Header",) and "net=ipv6(" in lax_out:
            return True
        return False
    return "Version(" in strict_err


def oracle(c):
    out = []
    data = bytes.fromhex(c.meta["data"]) if c.meta["data"] != "-" else b""
    im = c.impl
    if c.meta["k2"] == "pkt":
        pair("sliced", im[0], im[1], out)
        pair("headers", im[3], im[4], out)
        lax_impl, spec = im[1], c.model[2]
        i = 5
        while i + 1 < len(im):
            op = c.lines[i].split("\t", 1)[0]
            pair(op, im[i], im[i + 1], out)
            i += 2
    else:
        lax_impl, spec = None, c.model[2]
        # SLL: strict slicing vs lax headers only agree on the verdict of the first header
        if (im[0] or "").startswith("ok(") and not (im[1] or "").startswith("ok("):
            out.append(("sll-strict-ok-but-lax-err", {"strict": im[0][:300], "lax": im[1]}))
    # lax slicing vs the reference: layers in front of the fault and incomplete flags
    if lax_impl is not None and spec is not None:
        if lax_impl.startswith("err("):
            if not spec.startswith("ok(link=none;exts=[];net=none;tp=none;stop=none);fault=fault(") and not spec.startswith("ok(link=ep("):
                out.append(("lax-err-although-first-header-decodable", {"impl": lax_impl, "spec": spec[:400]}))
        else:
            sp_packet = spec[: spec.rindex(";fault=")]
            a = re.sub(r";stop=.*\)$", ")", D.strip_src(lax_impl))
            b = re.sub(r";stop=.*\)$", ")", D.strip_src(sp_packet))
            if a != b:
                out.append(("lax-layers-differ-from-format", {"impl": lax_impl, "spec": spec}))
            has_fault = ";fault=fault(" in spec
            has_stop = "stop=none)" not in lax_impl[-12:]
            if has_fault != has_stop:
                out.append(("lax-stop-error-presence", {"impl": lax_impl[-300:], "spec": spec[-300:]}))
    # the incomplete mark of LaxPacketHeaders' transport payload is the one of the IP payload the lax
    # slicing of the same bytes reports (a transport layer has no length field that could promise more)
    if c.meta["k2"] == "pkt":
        lsp, lph = im[1] or "", im[4] or ""
        m1 = re.search(r"pl=\(num=\d+,frag=\d,src=\w+,w=\(\d+,\d+\),inc=(\d)\)", lsp)
        m2 = re.search(r"pay=(?:Udp|Tcp|Icmpv4|Icmpv6)\(w=\(\d+,\d+\),inc=(\d)\)", lph)
        if m1 and m2 and m1.group(1) != m2.group(1):
            out.append(("lax-headers-incomplete-mark-differs-from-ip-payload", {"lax_sliced": lsp[-300:], "lax_headers": lph[-200:]}))
    for o in c.impl:
        if o is None:
            continue
        for m in D.bad_markers(o):
            out.append(("runtime-" + m.strip("!("), {"impl": (o or "")[:300]}))
    return out


def search(rng, corr_failures, run_cases):
    import sys

    return D.search_decode(sys.modules[__name__], rng, corr_failures, run_cases)
