"""C14 - out-of-range lengths and values are rejected, never truncated."""
import re

from ..core import Case as _Case
from ..gen import hx

ID = "C14"
RULE = (
    "set.* operations: every length taking constructor / setter / checksum entry point x n in {0, 1, limit-2 .. limit+2, the "
    "alignment residues around the limit, 2^16-1, 2^16, 2^16+1, 2^32-1, 2^32, random} (slice taking APIs: real buffers up to 70 000 "
    "bytes, plus zero filled calloc buffers around 2^32 for the 32 bit limits, implementation only) x header states with 0..40 option "
    "bytes / 0..5 extension headers / 4 MACsec packet types x SCI / ICV and address lengths, so that the overhead c varies; "
    "non-trivial = distinct op line whose length argument is not 0"
)
EXPLANATION = (
    "theorems: per API accepts_iff (ok <-> n + c <= field maximum and alignment rule), rejects_with (error values, header unchanged), "
    "encodes_exactly (the C08 codec model decodes the encoded field to n + c), wraps_without_check (EpModel/Props/C14.lean); "
    "correspondence: the crate's constructors / setters / calc_checksum_* vs EpModel.Model.Setters on the same arguments; oracle "
    "(python, independent of the model): accept iff n + c fits the wire field (widths and overheads from the RFC formats), error "
    "carries the offending and the allowed value, header bytes unchanged on error, big endian extraction of the encoded field from "
    "the emitted header bytes = n + c and all other bytes unchanged, checksums = RFC 1071 over the pseudo header with the true length"
)
ASSUMPTIONS = [
    "64-bit target (usize = u64); lengths above 2^32 are outside the property's quantifier and only compared (correspondence), not judged",
    "slices longer than 70 000 bytes are exercised only on the implementation (zero filled calloc buffers of 2^32-8 .. 2^32+1 bytes)",
    "PacketBuilder payload limits belong to C10",
]

U16 = 65535
U32 = 4294967295
USIZE = 2**64 - 1


def Case(lines, meta):
    meta["L"] = sum(len(l) for l in lines)
    return _Case(lines, meta)


# ------------------------------------------------------------------------------------------------
# reference computations


def pat(n, a, b):
    base = bytes((a + i * b) & 0xFF for i in range(256))
    return (base * (n // 256 + 1))[:n]


def rfc1071(data):
    d = bytes(data)
    if len(d) % 2:
        d += b"\0"
    if not any(d):
        return 0xFFFF
    v = int.from_bytes(d, "big") % 65535
    fold = 65535 if v == 0 else v
    return 0xFFFF - fold


def be(b, o, n):
    return int.from_bytes(b[o:o + n], "big")


def u16b(v):
    return int(v).to_bytes(2, "big")


def u32b(v):
    return int(v).to_bytes(4, "big")


def pseudo4(src, dst, proto, length):
    return src + dst + bytes([0, proto]) + u16b(length)


def pseudo6(src, dst, proto, length):
    return src + dst + u32b(length) + bytes([0, 0, 0, proto])


# ------------------------------------------------------------------------------------------------
# header states, composed byte-wise here (never by the crate)


def rb(rng, n):
    return bytes(rng.randrange(256) for _ in range(n))


def ipv4_hdr(rng, optlen, total_len=None, proto=None):
    ihl = 5 + optlen // 4
    tl = rng.choice([0, 20, 100, 65535, rng.randrange(65536)]) if total_len is None else total_len
    flags_frag = rng.randrange(0x8000)  # reserved bit stays clear
    return (bytes([0x40 | ihl, rng.randrange(256)]) + u16b(tl) + u16b(rng.randrange(65536)) + u16b(flags_frag)
            + bytes([rng.randrange(256), rng.randrange(256) if proto is None else proto]) + u16b(rng.randrange(65536))
            + rb(rng, 8) + rb(rng, optlen))


def ipv6_hdr(rng, plen=None):
    pl = rng.choice([0, 40, 65535, rng.randrange(65536)]) if plen is None else plen
    tc = rng.randrange(256)
    fl = rng.randrange(1 << 20)
    return (bytes([0x60 | (tc >> 4), ((tc & 0xF) << 4) | (fl >> 16), (fl >> 8) & 0xFF, fl & 0xFF]) + u16b(pl)
            + bytes([rng.randrange(256), rng.randrange(256)]) + rb(rng, 32))


def auth_hdr(rng, icvlen):
    return bytes([rng.randrange(256), icvlen // 4 + 1, 0, 0]) + rb(rng, 8) + rb(rng, icvlen)


def rawext_hdr(rng, paylen):
    return bytes([rng.randrange(256), (paylen - 6) // 8]) + rb(rng, paylen)


def frag_hdr(rng):
    return bytes([rng.randrange(256), 0]) + u16b((rng.randrange(8192) << 3) | rng.randrange(2)) + rb(rng, 4)


def udp_hdr(rng, length, ck=None):
    return u16b(rng.randrange(65536)) + u16b(rng.randrange(65536)) + u16b(length) + u16b(rng.randrange(65536) if ck is None else ck)


def tcp_hdr(rng, optlen):
    b12 = ((5 + optlen // 4) << 4) | rng.randrange(2)
    return (rb(rng, 12) + bytes([b12, rng.randrange(256)]) + rb(rng, 6) + rb(rng, optlen))


ICMP6_TYPES = [(1, 0), (1, 6), (1, 7), (2, 0), (3, 1), (4, 2), (128, 0), (129, 0), (133, 0), (134, 0), (135, 0), (136, 0), (137, 0), (200, 3), (255, 255), (0, 0)]


def icmp6_hdr(rng):
    t, c = rng.choice(ICMP6_TYPES)
    return bytes([t, c]) + rb(rng, 6)


MACSEC_PTYPES = ["unmodified", "modified", "encrypted", "encrypted_unmodified"]


def macsec_hdr(rng, ptype, sci, sl=None):
    e, c = {"unmodified": (0, 0), "modified": (0, 1), "encrypted": (1, 1), "encrypted_unmodified": (1, 0)}[ptype]
    tci = (rng.randrange(2) << 6) | ((1 if sci else 0) << 5) | (rng.randrange(2) << 4) | (e << 3) | (c << 2) | rng.randrange(4)
    if sl is None:
        sl = rng.choice([0, 2, 5, 63, rng.randrange(64)])
    if ptype == "unmodified" and sl == 1:
        sl = 2
    b = bytes([tci, sl]) + rb(rng, 4)
    if sci:
        b += rb(rng, 8)
    if ptype == "unmodified":
        b += rb(rng, 2)
    return b


def arp_pkt(rng, hl, pl):
    return rb(rng, 4) + bytes([hl, pl]) + rb(rng, 2) + rb(rng, hl) + rb(rng, pl) + rb(rng, hl) + rb(rng, pl)


# ------------------------------------------------------------------------------------------------
# length samples


def around(limit):
    return [limit - 2, limit - 1, limit, limit + 1, limit + 2]


def usize_lens(rng, limit, tier, align=None):
    """lengths for APIs that take the number itself"""
    s = set([0, 1, 2] + around(limit) + [U16 - 1, U16, U16 + 1, U16 + 2, U32 - 1, U32, U32 + 1])
    if align:
        for k in range(-align - 1, align + 2):
            s.add(limit + k)
    for _ in range(4 if tier == "quick" else 40):
        s.add(rng.randrange(0, max(limit, 1) + 1))
        s.add(rng.randrange(limit + 1, 2 * limit + 70000))
        s.add(rng.randrange(U32 + 1))
    return sorted(x for x in s if 0 <= x <= U32 + 1)


def slice_lens(rng, limit, tier, align=None, big=True):
    """lengths for APIs that take a slice (real buffers)"""
    s = set([0, 1, 2] + around(limit))
    if align:
        for k in range(-align - 1, align + 2):
            s.add(limit + k)
    if big:
        s.update([U16 - 1, U16, U16 + 1, 70000])
    for _ in range(3 if tier == "quick" else 30):
        s.add(rng.randrange(0, max(limit, 1) + 1))
        s.add(rng.randrange(limit + 1, limit + 300))
    return sorted(x for x in s if 0 <= x <= 70000)


BEYOND = [2**33, 2**48 + 5, USIZE - 9300, USIZE - 16, USIZE - 15, USIZE - 1, USIZE]

# ------------------------------------------------------------------------------------------------
# generation


def generate(rng, tier):
    q = tier == "quick"
    reps = 2 if q else 6

    def ab():
        return rng.randrange(256), rng.choice([0, 1, 3, 7, 255, rng.randrange(256)])

    # ---- Ipv4Header::new (u16 argument)
    for n in sorted(set([0, 1] + around(U16 - 20) + [U16 - 1, U16] + [rng.randrange(65536) for _ in range(10 * reps)])):
        if 0 <= n <= U16:
            yield Case(["set.ipv4.new\t%d\t%d\t%d\t%s\t%s" % (n, rng.randrange(256), rng.randrange(256), hx(rb(rng, 4)), hx(rb(rng, 4)))], {"k": "ipv4.new"})
    # ---- Ipv4Header::set_payload_len / max_payload_len, every options length
    for optlen in range(0, 44, 4):
        for _ in range(reps):
            h = ipv4_hdr(rng, optlen)
            for n in usize_lens(rng, U16 - 20 - optlen, tier):
                yield Case(["set.ipv4.set_payload_len\t%s\t%d" % (hx(h), n)], {"k": "ipv4.spl"})
        h = ipv4_hdr(rng, optlen)
        for n in BEYOND:
            yield Case(["set.ipv4.set_payload_len\t%s\t%d" % (hx(h), n)], {"k": "ipv4.spl", "beyond": True})
    # ---- Ipv4Header::set_options / Ipv4Options::try_from
    for optlen in ([0, 8, 40] if q else range(0, 44, 4)):
        h = ipv4_hdr(rng, optlen)
        for l in sorted(set(list(range(0, 50)) + [U16, U16 + 1, 70000] + [rng.randrange(50, 3000) for _ in range(5)])):
            a, b = ab()
            yield Case(["set.ipv4.set_options\t%s\t%d\t%d\t%d" % (hx(h), l, a, b)], {"k": "ipv4.setopt"})
    for l in sorted(set(list(range(0, 50)) + [255, 256, 260, U16, U16 + 1, 70000] + [rng.randrange(50, 3000) for _ in range(5)])):
        a, b = ab()
        yield Case(["set.ipv4opts.try_from\t%d\t%d\t%d" % (l, a, b)], {"k": "ipv4opts"})
    # ---- Ipv6Header::set_payload_length
    for _ in range(3 * reps):
        h = ipv6_hdr(rng)
        for n in usize_lens(rng, U16, tier):
            yield Case(["set.ipv6.set_payload_length\t%s\t%d" % (hx(h), n)], {"k": "ipv6.spl"})
    h = ipv6_hdr(rng)
    for n in BEYOND:
        yield Case(["set.ipv6.set_payload_length\t%s\t%d" % (hx(h), n)], {"k": "ipv6.spl", "beyond": True})
    # ---- IpHeaders::set_payload_len, IPv4 (+ authentication header)
    for optlen in ([0, 4, 40] if q else range(0, 44, 4)):
        for icv in [None, 0, 4, 12, 1012, 1016]:
            h = ipv4_hdr(rng, optlen, proto=51 if icv is not None else None)
            a = auth_hdr(rng, icv) if icv is not None else b""
            c = 20 + optlen + len(a)
            for n in usize_lens(rng, U16 - c, tier):
                yield Case(["set.ip4.set_payload_len\t%s\t%s\t%d" % (hx(h), hx(a), n)], {"k": "ip4.spl"})
            for n in BEYOND:
                yield Case(["set.ip4.set_payload_len\t%s\t%s\t%d" % (hx(h), hx(a), n)], {"k": "ip4.spl", "beyond": True})
    # ---- IpHeaders::set_payload_len, IPv6 (+ extension headers)
    chains = [
        (None, None, None, None, False, None),
        (6, None, None, None, False, None),
        (None, None, None, None, True, None),
        (None, None, None, None, False, 12),
        (14, 6, 22, 6, True, 0),
        (2046, 2046, 2046, 2046, True, 1016),
        (None, 30, 6, None, False, None),
    ]
    if not q:
        for _ in range(20):
            chains.append(tuple(rng.choice([None, 6, 14, rng.randrange(0, 256) * 8 + 6]) for _ in range(4)) + (rng.random() < 0.5, rng.choice([None, 0, 12, rng.randrange(0, 255) * 4])))
    for hbh, dst, rt, fdst, frag, icv in chains:
        if rt is None:
            fdst = None
        parts = [rawext_hdr(rng, x) if x is not None else b"" for x in (hbh, dst, rt, fdst)]
        parts.append(frag_hdr(rng) if frag else b"")
        parts.append(auth_hdr(rng, icv) if icv is not None else b"")
        c = sum(len(p) for p in parts)
        h = ipv6_hdr(rng)
        for n in usize_lens(rng, U16 - c, tier):
            yield Case(["set.ip6.set_payload_len\t%s\t%s\t%d" % (hx(h), "\t".join(hx(p) for p in parts), n)], {"k": "ip6.spl"})
        for n in BEYOND:
            yield Case(["set.ip6.set_payload_len\t%s\t%s\t%d" % (hx(h), "\t".join(hx(p) for p in parts), n)], {"k": "ip6.spl", "beyond": True})
    # ---- UdpHeader::without_ipv4_checksum
    for n in usize_lens(rng, U16 - 8, tier) + BEYOND:
        yield Case(["set.udp.without_ipv4_checksum\t%d\t%d\t%d" % (rng.randrange(65536), rng.randrange(65536), n)], {"k": "udp.wo4", "beyond": n > U32 + 1})
    # ---- UdpHeader::with_ipv4_checksum / with_ipv6_checksum / calc_checksum_*
    for n in slice_lens(rng, U16 - 8, tier):
        for _ in range(reps):
            a, b = ab()
            yield Case(["set.udp.with_ipv4_checksum\t%d\t%d\t%s\t%s\t%d\t%d\t%d" % (rng.randrange(65536), rng.randrange(65536), hx(rb(rng, 4)), hx(rb(rng, 4)), n, a, b)], {"k": "udp.w4"})
            a, b = ab()
            yield Case(["set.udp.with_ipv6_checksum\t%d\t%d\t%s\t%s\t%d\t%d\t%d" % (rng.randrange(65536), rng.randrange(65536), hx(rb(rng, 16)), hx(rb(rng, 16)), n, a, b)], {"k": "udp.w6"})
            a, b = ab()
            # consistent header (length = n + 8 when that fits), sometimes an inconsistent one
            ln = (n + 8) if n + 8 <= U16 and rng.random() < 0.8 else rng.randrange(65536)
            yield Case(["set.udp.calc_checksum_ipv4\t%s\t%s\t%s\t%d\t%d\t%d" % (hx(udp_hdr(rng, ln)), hx(rb(rng, 4)), hx(rb(rng, 4)), n, a, b)], {"k": "udp.ck4"})
            a, b = ab()
            ln = (n + 8) if n + 8 <= U16 and rng.random() < 0.8 else rng.choice([0, rng.randrange(65536)])
            yield Case(["set.udp.calc_checksum_ipv6\t%s\t%s\t%s\t%d\t%d\t%d" % (hx(udp_hdr(rng, ln)), hx(rb(rng, 16)), hx(rb(rng, 16)), n, a, b)], {"k": "udp.ck6"})
    # ---- TcpHeader::calc_checksum_* and TcpSlice::calc_checksum_*, every options length
    for optlen in ([0, 4, 20, 40] if q else range(0, 44, 4)):
        hl = 20 + optlen
        for n in slice_lens(rng, U16 - hl, tier):
            h = tcp_hdr(rng, optlen)
            a, b = ab()
            yield Case(["set.tcp.calc_checksum_ipv4\t%s\t%s\t%s\t%d\t%d\t%d" % (hx(h), hx(rb(rng, 4)), hx(rb(rng, 4)), n, a, b)], {"k": "tcp.ck4"})
            yield Case(["set.tcpslice.calc_checksum_ipv4\t%s\t%s\t%s\t%d\t%d\t%d" % (hx(h), hx(rb(rng, 4)), hx(rb(rng, 4)), n, a, b)], {"k": "tcps.ck4"})
            if q and n not in (0, 1, U16 - hl, U16 - hl + 1, U16 + 1, 70000) and rng.random() < 0.5:
                continue
            yield Case(["set.tcp.calc_checksum_ipv6\t%s\t%s\t%s\t%d\t%d\t%d" % (hx(h), hx(rb(rng, 16)), hx(rb(rng, 16)), n, a, b)], {"k": "tcp.ck6"})
            yield Case(["set.tcpslice.calc_checksum_ipv6\t%s\t%s\t%s\t%d\t%d\t%d" % (hx(h), hx(rb(rng, 16)), hx(rb(rng, 16)), n, a, b)], {"k": "tcps.ck6"})
    # ---- TcpOptions::try_from_slice / TcpHeader::set_options_raw
    for l in sorted(set(list(range(0, 50)) + [255, 256, 257, 260, U16, U16 + 1, 70000] + [rng.randrange(50, 3000) for _ in range(5)])):
        a, b = ab()
        yield Case(["set.tcpopts.try_from_slice\t%d\t%d\t%d" % (l, a, b)], {"k": "tcpopts"})
        for optlen in ([0, 12, 40] if q else range(0, 44, 4)):
            a, b = ab()
            yield Case(["set.tcp.set_options_raw\t%s\t%d\t%d\t%d" % (hx(tcp_hdr(rng, optlen)), l, a, b)], {"k": "tcp.setopt"})
    # ---- Icmpv6Type::calc_checksum / Icmpv6Header::with_checksum / update_checksum
    for n in slice_lens(rng, U16 - 8, tier):
        for _ in range(2 * reps):
            h = icmp6_hdr(rng)
            src, dst = rb(rng, 16), rb(rng, 16)
            a, b = ab()
            args = "%s\t%s\t%s\t%d\t%d\t%d" % (hx(h), hx(src), hx(dst), n, a, b)
            yield Case(["set.icmp6.with_checksum\t" + args, "set.icmp6.calc_checksum\t" + args, "set.icmp6.update_checksum\t" + args], {"k": "icmp6"})
    # ---- MacsecHeader::set_payload_len / MacsecShortLen
    for ptype in MACSEC_PTYPES:
        for sci in (False, True):
            for _ in range(reps):
                h = macsec_hdr(rng, ptype, sci)
                for n in sorted(set(list(range(0, 70)) + [127, 128, 129, 253, 254, 255, 256, 257, 258, 318, 319, 320, U16, U16 + 1, U32 - 1, U32, U32 + 1] + [rng.randrange(U32) for _ in range(3)])) + BEYOND:
                    yield Case(["set.macsec.set_payload_len\t%s\t%d" % (hx(h), n)], {"k": "macsec.spl", "beyond": n > U32 + 1})
    for n in sorted(set(list(range(0, 70)) + [127, 128, 255, 256, 257, 319, 320, U16, U16 + 1, U32 - 1, U32, U32 + 1])) + BEYOND:
        yield Case(["set.macsec.from_len\t%d" % n], {"k": "macsec.from_len", "beyond": n > U32 + 1})
    for n in range(256):
        yield Case(["set.macsec.try_from\t%d" % n], {"k": "macsec.try_from"})
    # ---- IpAuthHeader::new / set_raw_icv
    icv_lens = sorted(set(list(range(0, 14)) + list(range(1008, 1030)) + [1276, 1280, 2040, 2044, 2048, U16, U16 + 1, 65536 + 4, 70000] + [rng.randrange(0, 1100) for _ in range(10 * reps)]))
    for l in icv_lens:
        a, b = ab()
        yield Case(["set.auth.new\t%d\t%d\t%d\t%d\t%d\t%d" % (rng.randrange(256), rng.randrange(U32 + 1), rng.randrange(U32 + 1), l, a, b)], {"k": "auth.new"})
        for icv in ([0, 16, 1016] if q else [0, 4, 16, 512, 1012, 1016]):
            a, b = ab()
            yield Case(["set.auth.set_raw_icv\t%s\t%d\t%d\t%d" % (hx(auth_hdr(rng, icv)), l, a, b)], {"k": "auth.set"})
    # ---- Ipv6RawExtHeader::new_raw / set_payload
    ext_lens = sorted(set(list(range(0, 32)) + list(range(2030, 2072)) + [4094, 4102, U16, U16 + 1, 65542, 70000] + [rng.randrange(0, 2200) for _ in range(10 * reps)] + [rng.randrange(0, 260) * 8 + 6 for _ in range(5 * reps)]))
    for l in ext_lens:
        a, b = ab()
        yield Case(["set.rawext.new_raw\t%d\t%d\t%d\t%d" % (rng.randrange(256), l, a, b)], {"k": "rawext.new"})
        for pl in ([6, 22, 2046] if q else [6, 14, 22, 1022, 2038, 2046]):
            a, b = ab()
            yield Case(["set.rawext.set_payload\t%s\t%d\t%d\t%d" % (hx(rawext_hdr(rng, pl)), l, a, b)], {"k": "rawext.set"})
    # ---- ArpPacket::new / set_hw_addrs / set_protocol_addrs
    arp_lens = sorted(set([0, 1, 4, 6, 16, 253, 254, 255, 256, 257, 258, 510, 511, 512, U16, U16 + 1, 70000] + [rng.randrange(0, 300) for _ in range(3 * reps)]))
    for l in arp_lens:
        for l2 in [0, 4, 255, 256] + ([l] if q else [l, 6, 254, 257]):
            for d1, d2 in [(0, 0), (1, 0), (0, 1), (-1, 0), (0, -1), (256, 0), (0, 256)]:
                l3, l4 = l + d1, l2 + d2
                if l3 < 0 or l4 < 0 or max(l, l2, l3, l4) > 70000:
                    continue
                a, b = ab()
                yield Case(["set.arp.new\t%d\t%d\t%d\t%d\t%d\t%d\t%d\t%d\t%d" % (rng.randrange(65536), rng.randrange(65536), rng.randrange(65536), l, l2, l3, l4, a, b)], {"k": "arp.new"})
        for hl, pl in [(6, 4), (0, 0), (255, 255), (255, 0), (3, 200)]:
            pk = arp_pkt(rng, hl, pl)
            for d in (0, 1, -1, 256):
                if l + d < 0 or l + d > 70000:
                    continue
                a, b = ab()
                yield Case(["set.arp.set_hw_addrs\t%s\t%d\t%d\t%d\t%d" % (hx(pk), l, l + d, a, b)], {"k": "arp.sethw"})
                yield Case(["set.arp.set_protocol_addrs\t%s\t%d\t%d\t%d\t%d" % (hx(pk), l, l + d, a, b)], {"k": "arp.setproto"})
    # ---- 32 bit limits on the implementation only (zero filled calloc buffers that are never written; the
    #      rejected calls do not read them, the accepted ones sum 4 GiB of untouched zero pages, ~3 s each)
    if True:
        src, dst = rb(rng, 16), rb(rng, 16)
        for n in [U32 - 8 + 1, U32 - 8 + 2, U32 + 1]:
            yield Case(["impl.set.udp.calc_checksum_ipv6.big\t%s\t%s\t%s\t%d" % (hx(udp_hdr(rng, 0)), hx(src), hx(dst), n)], {"k": "big.udp6"})
            yield Case(["impl.set.icmp6.calc_checksum.big\t%s\t%s\t%s\t%d" % (hx(icmp6_hdr(rng)), hx(src), hx(dst), n)], {"k": "big.icmp6"})
        for optlen in (0, 40):
            h = tcp_hdr(rng, optlen)
            for n in [U32 - 20 - optlen + 1, U32 - 20 - optlen + 2, U32 + 1]:
                yield Case(["impl.set.tcp.calc_checksum_ipv6.big\t%s\t%s\t%s\t%d" % (hx(h), hx(src), hx(dst), n)], {"k": "big.tcp6"})
            for n in [U32 + 1, U32 + 2]:
                yield Case(["impl.set.tcpslice.calc_checksum_ipv6.big\t%s\t%s\t%s\t%d" % (hx(h), hx(src), hx(dst), n)], {"k": "big.tcps6"})
        # acceptance at the limit
        yield Case(["impl.set.icmp6.calc_checksum.big\t%s\t%s\t%s\t%d" % (hx(icmp6_hdr(rng)), hx(src), hx(dst), U32 - 8)], {"k": "big.icmp6"})
        yield Case(["impl.set.tcp.calc_checksum_ipv6.big\t%s\t%s\t%s\t%d" % (hx(tcp_hdr(rng, 8)), hx(src), hx(dst), U32 - 28)], {"k": "big.tcp6"})
        if not q:
            yield Case(["impl.set.udp.calc_checksum_ipv6.big\t%s\t%s\t%s\t%d" % (hx(udp_hdr(rng, 0)), hx(src), hx(dst), U32 - 8)], {"k": "big.udp6"})
            h = tcp_hdr(rng, 0)
            yield Case(["impl.set.tcpslice.calc_checksum_ipv6.big\t%s\t%s\t%s\t%d" % (hx(h), hx(src), hx(dst), U32)], {"k": "big.tcps6"})
    yield from _builder_limit_cases(rng, tier)


def _builder_limit_cases(rng, tier):
    """builder payloads (packet_builder.rs is anchored in C14): C10's configurations with payload lengths
    at limit-2..limit+2 of every stack and at the fixed field limits, judged by C10's reference builder"""
    import random as _random
    from . import c10
    r2 = _random.Random(rng.randrange(1 << 30))
    k = 0
    for c in c10.generate(r2, "quick"):
        pl = c.meta.get("payload", "")
        if not pl.startswith("len:"):
            continue
        k += 1
        if tier == "quick" and k % 3 and not pl.endswith(":165"):
            continue
        c.meta["k"] = "builder"
        c.meta["L"] = sum(len(l) for l in c.lines)
        yield c


def is_trivial(c):
    a = c.lines[0].split("\t")
    k = c.meta.get("k", "")
    if k in ("macsec.try_from", "macsec.from_len"):
        return a[1] == "0"
    return False


# ------------------------------------------------------------------------------------------------
# oracle

_TB = re.compile(r"err\(actual=(\d+),max=(\d+),vt=(\w+)\)")


def parse_toobig(s):
    m = _TB.fullmatch(s)
    if not m:
        return None
    return int(m.group(1)), int(m.group(2)), m.group(3)


def split_setter(s):
    """'<res>;k=v;k=v' -> (res, dict)"""
    parts = s.split(";")
    d = {}
    for p in parts[1:]:
        k, _, v = p.partition("=")
        d[k] = v
    return parts[0], d


def unhex(s):
    return b"" if s == "-" else bytes.fromhex(s)


class Bad(Exception):
    def __init__(self, name, **detail):
        self.name = name
        self.detail = detail


def need(cond, name, **detail):
    if not cond:
        raise Bad(name, **detail)


def check_toobig(res, fits, n, maxn, vt, frames=None):
    """res: printed result; fits: must it be accepted; on rejection the error must carry the offending value
    and the true maximum (frames: alternative (actual, max) pairs that describe the same fault)."""
    tb = parse_toobig(res)
    if fits:
        need(tb is None, "rejects-representable-value", res=res, n=n, true_max=maxn)
        return None
    need(tb is not None, "accepts-unrepresentable-value", res=res[:80], n=n, true_max=maxn)
    actual, mx, gvt = tb
    ok_frames = [(n, maxn)] + list(frames or [])
    need((actual, mx) in ok_frames, "error-values", got={"actual": actual, "max_allowed": mx}, want=[{"actual": x, "max_allowed": y} for x, y in ok_frames])
    need(gvt == vt, "error-value-type", got=gvt, want=vt)
    return tb


def ok_hex(res):
    m = re.fullmatch(r"ok\(([0-9a-f]+|-)\)", res)
    need(m is not None, "malformed-impl-output", res=res[:120])
    return unhex(m.group(1))


def ok_num(res):
    m = re.fullmatch(r"ok\((\d+)\)", res)
    need(m is not None, "malformed-impl-output", res=res[:120])
    return int(m.group(1))


def same_except(new, old, lo, hi, what):
    need(len(new) == len(old) and new[:lo] == old[:lo] and new[hi:] == old[hi:], "other-bytes-changed", field=what, old=old.hex(), new=new.hex())


def o_ipv4_new(a, out):
    n, ttl, proto, src, dst = int(a[0]), int(a[1]), int(a[2]), unhex(a[3]), unhex(a[4])
    if check_toobig(out[0], n + 20 <= U16, n, U16 - 20, "Ipv4PayloadLength"):
        return
    b = ok_hex(out[0])
    need(len(b) == 20 and b[0] == 0x45, "encoded-header-shape", hdr=b.hex())
    need(be(b, 2, 2) == n + 20, "encoded-field-differs", field="total_len", got=be(b, 2, 2), want=n + 20)
    need(b[8] == ttl and b[9] == proto and b[12:16] == src and b[16:20] == dst and b[1] == 0 and b[4:8] == bytes([0, 0, 0x40, 0]) and b[10:12] == b"\0\0",
         "other-bytes-changed", hdr=b.hex())


def o_ipv4_spl(a, out):
    old, n = unhex(a[0]), int(a[1])
    c = (old[0] & 0xF) * 4
    res, d = split_setter(out[0])
    new = unhex(d["hdr"])
    need(int(d["max"]) == U16 - c, "stated-maximum", got=int(d["max"]), want=U16 - c)
    if check_toobig(res, n + c <= U16, n, U16 - c, "Ipv4PayloadLength"):
        need(new == old, "header-changed-on-error", old=old.hex(), new=new.hex())
        return
    need(res == "ok", "malformed-impl-output", res=res)
    need(be(new, 2, 2) == n + c, "encoded-field-differs", field="total_len", got=be(new, 2, 2), want=n + c)
    same_except(new, old, 2, 4, "total_len")


def o_ipv4_setopt(a, out):
    old, l, x, y = unhex(a[0]), int(a[1]), int(a[2]), int(a[3])
    res, d = split_setter(out[0])
    new = unhex(d["hdr"])
    fits = l <= 40 and l % 4 == 0
    if not fits:
        need(res == "err(BadOptionsLen(%d))" % l, "accepts-unrepresentable-value" if res == "ok" else "error-values", res=res, n=l)
        need(new == old, "header-changed-on-error", old=old.hex(), new=new.hex())
        return
    need(res == "ok", "rejects-representable-value", res=res, n=l)
    need(len(new) == 20 + l and (new[0] & 0xF) * 4 == 20 + l, "encoded-field-differs", field="ihl", got=(new[0] & 0xF) * 4, want=20 + l)
    need(new[0] >> 4 == 4 and new[1:20] == old[1:20] and new[20:] == pat(l, x, y), "other-bytes-changed", old=old.hex(), new=new.hex())


def o_ipv4opts(a, out):
    l, x, y = int(a[0]), int(a[1]), int(a[2])
    fits = l <= 40 and l % 4 == 0
    if not fits:
        need(out[0] == "err(BadOptionsLen(%d))" % l, "accepts-unrepresentable-value" if out[0].startswith("ok") else "error-values", res=out[0][:80], n=l)
        return
    need(out[0] == "ok(len=%d,%s)" % (l, hx(pat(l, x, y))), "rejects-representable-value" if out[0].startswith("err") else "encoded-field-differs", res=out[0][:120], n=l)


def o_ipv6_spl(a, out):
    old, n = unhex(a[0]), int(a[1])
    res, d = split_setter(out[0])
    new = unhex(d["hdr"])
    if check_toobig(res, n <= U16, n, U16, "Ipv6PayloadLength"):
        need(new == old, "header-changed-on-error", old=old.hex(), new=new.hex())
        return
    need(res == "ok", "malformed-impl-output", res=res)
    need(be(new, 4, 2) == n, "encoded-field-differs", field="payload_length", got=be(new, 4, 2), want=n)
    same_except(new, old, 4, 6, "payload_length")


def o_ip4_spl(a, out, beyond=False):
    old, auth, n = unhex(a[0]), unhex(a[1]), int(a[2])
    hl = (old[0] & 0xF) * 4
    ce = len(auth)
    c = hl + ce
    res, d = split_setter(out[0])
    new = unhex(d["hdr"])
    need(int(d["extlen"]) == ce, "extension-length", got=d["extlen"], want=ce)
    # the same fault seen from the IPv4 header: payload of the header = extensions + n
    if check_toobig(res, n + c <= U16, n, U16 - c, "Ipv4PayloadLength", frames=[(n + ce, U16 - hl)]):
        need(new == old, "header-changed-on-error", old=old.hex(), new=new.hex())
        return
    need(res == "ok", "malformed-impl-output", res=res)
    need(be(new, 2, 2) == n + c, "encoded-field-differs", field="total_len", got=be(new, 2, 2), want=n + c)
    same_except(new, old, 2, 4, "total_len")


def o_ip6_spl(a, out, beyond=False):
    old, n = unhex(a[0]), int(a[7])
    ce = sum(len(unhex(x)) for x in a[1:7])
    res, d = split_setter(out[0])
    new = unhex(d["hdr"])
    need(int(d["extlen"]) == ce, "extension-length", got=d["extlen"], want=ce)
    if beyond:
        # outside the quantifier: accept/reject and "unchanged" are still judged, the error values are recorded only
        need(res != "ok", "accepts-unrepresentable-value", res=res, n=n)
        need(new == old, "header-changed-on-error", old=old.hex(), new=new.hex())
        return
    if check_toobig(res, n + ce <= U16, n, U16 - ce, "Ipv6PayloadLength", frames=[(n + ce, U16)]):
        need(new == old, "header-changed-on-error", old=old.hex(), new=new.hex())
        return
    need(res == "ok", "malformed-impl-output", res=res)
    need(be(new, 4, 2) == n + ce, "encoded-field-differs", field="payload_length", got=be(new, 4, 2), want=n + ce)
    same_except(new, old, 4, 6, "payload_length")


def o_udp_wo4(a, out):
    sp, dp, n = int(a[0]), int(a[1]), int(a[2])
    if check_toobig(out[0], n + 8 <= U16, n, U16 - 8, "UdpPayloadLengthIpv4"):
        return
    b = ok_hex(out[0])
    need(len(b) == 8 and be(b, 4, 2) == n + 8, "encoded-field-differs", field="udp length", got=be(b, 4, 2), want=n + 8)
    need(be(b, 0, 2) == sp and be(b, 2, 2) == dp and be(b, 6, 2) == 0, "other-bytes-changed", hdr=b.hex())


def o_udp_with(v6):
    def f(a, out):
        sp, dp, src, dst, n, x, y = int(a[0]), int(a[1]), unhex(a[2]), unhex(a[3]), int(a[4]), int(a[5]), int(a[6])
        if check_toobig(out[0], n + 8 <= U16, n, U16 - 8, "UdpPayloadLengthIpv6" if v6 else "UdpPayloadLengthIpv4"):
            return
        b = ok_hex(out[0])
        need(len(b) == 8 and be(b, 4, 2) == n + 8, "encoded-field-differs", field="udp length", got=be(b, 4, 2), want=n + 8)
        need(be(b, 0, 2) == sp and be(b, 2, 2) == dp, "other-bytes-changed", hdr=b.hex())
        ps = pseudo6(src, dst, 17, n + 8) if v6 else pseudo4(src, dst, 17, n + 8)
        want = rfc1071(ps + b[:6] + b"\0\0" + pat(n, x, y))
        want = 0xFFFF if want == 0 else want
        need(be(b, 6, 2) == want, "checksum-not-over-true-length", got=be(b, 6, 2), want=want, n=n)
    return f


def two(out):
    m = re.fullmatch(r"raw=(.*),hdr=(.*)", out)
    need(m is not None, "malformed-impl-output", res=out[:120])
    need(m.group(1) == m.group(2), "raw-and-header-variant-differ", res=out[:200])
    return m.group(1)


def o_udp_ck(v6):
    def f(a, out):
        h, src, dst, n, x, y = unhex(a[0]), unhex(a[1]), unhex(a[2]), int(a[3]), int(a[4]), int(a[5])
        res = two(out[0])
        limit = (U32 if v6 else U16) - 8
        if check_toobig(res, n <= limit, n, limit, "UdpPayloadLengthIpv6" if v6 else "UdpPayloadLengthIpv4"):
            return
        got = ok_num(res)
        ln = be(h, 4, 2)
        if ln == n + 8:
            # consistent header: the pseudo header carries the true length
            ps = pseudo6(src, dst, 17, n + 8) if v6 else pseudo4(src, dst, 17, n + 8)
            want = rfc1071(ps + h[:6] + b"\0\0" + pat(n, x, y))
            want = 0xFFFF if want == 0 else want
            need(got == want, "checksum-not-over-true-length", got=got, want=want, n=n)
        elif v6 and n + 8 > U16:
            # no 16 bit length field can describe this payload (RFC 2675 jumbogram: length field 0, the pseudo
            # header carries the true 32 bit length)
            ps = pseudo6(src, dst, 17, n + 8)
            want = rfc1071(ps + h[:6] + b"\0\0" + pat(n, x, y))
            want = 0xFFFF if want == 0 else want
            need(got == want, "udp6-accepted-length-not-in-pseudo-header", got=got, want=want, n=n, udp_length_field=ln)
    return f


def tcp_ref(h, ps, payload):
    return rfc1071(ps + h[:16] + b"\0\0" + h[18:] + payload)


def o_tcp_ck(v6, sl):
    def f(a, out):
        h, src, dst, n, x, y = unhex(a[0]), unhex(a[1]), unhex(a[2]), int(a[3]), int(a[4]), int(a[5])
        hl = len(h)
        res = out[0] if sl else two(out[0])
        w = U32 if v6 else U16
        vt = "TcpPayloadLengthIpv6" if v6 else "TcpPayloadLengthIpv4"
        if sl:
            # the slice variant reports the length of the whole segment against the field maximum
            if check_toobig(res, n + hl <= w, n, w - hl, vt, frames=[(n + hl, w)]):
                return
        elif check_toobig(res, n + hl <= w, n, w - hl, vt):
            return
        got = ok_num(res)
        ps = pseudo6(src, dst, 6, n + hl) if v6 else pseudo4(src, dst, 6, n + hl)
        want = tcp_ref(h, ps, pat(n, x, y))
        need(got == want, "checksum-not-over-true-length", got=got, want=want, n=n, header_len=hl)
    return f


def o_tcpopts(a, out):
    l, x, y = int(a[0]), int(a[1]), int(a[2])
    if l > 40:
        need(out[0] == "err(NotEnoughSpace(%d))" % l, "accepts-unrepresentable-value" if out[0].startswith("ok") else "error-values", res=out[0][:80], n=l)
        return
    pl = (l + 3) // 4 * 4
    need(out[0] == "ok(len=%d,%s)" % (pl, hx(pat(l, x, y) + bytes(pl - l))), "rejects-representable-value" if out[0].startswith("err") else "encoded-field-differs", res=out[0][:160], n=l)


def o_tcp_setopt(a, out):
    old, l, x, y = unhex(a[0]), int(a[1]), int(a[2]), int(a[3])
    res, d = split_setter(out[0])
    new = unhex(d["hdr"])
    if l > 40:
        need(res == "err(NotEnoughSpace(%d))" % l, "accepts-unrepresentable-value" if res == "ok" else "error-values", res=res, n=l)
        need(new == old, "header-changed-on-error", old=old.hex(), new=new.hex())
        return
    need(res == "ok", "rejects-representable-value", res=res, n=l)
    pl = (l + 3) // 4 * 4
    need(len(new) == 20 + pl and (new[12] >> 4) * 4 == 20 + pl, "encoded-field-differs", field="data_offset", got=(new[12] >> 4) * 4, want=20 + pl)
    need(new[:12] == old[:12] and new[12] & 0xF == old[12] & 0x1 and new[13:20] == old[13:20] and new[20:] == pat(l, x, y) + bytes(pl - l),
         "other-bytes-changed", old=old.hex(), new=new.hex())


def o_icmp6(a, out):
    src, dst, n, x, y = unhex(a[1]), unhex(a[2]), int(a[3]), int(a[4]), int(a[5])
    h0 = unhex(a[0])
    # with_checksum / calc_checksum / update_checksum
    if check_toobig(out[0], n + 8 <= U32, n, U32 - 8, "Icmpv6PayloadLength"):
        return
    b = ok_hex(out[0])
    need(len(b) == 8 and b[:2] == h0[:2], "other-bytes-changed", hdr=b.hex())
    want = rfc1071(pseudo6(src, dst, 58, n + 8) + b[:2] + b"\0\0" + b[4:] + pat(n, x, y))
    need(be(b, 2, 2) == want, "checksum-not-over-true-length", got=be(b, 2, 2), want=want, n=n)
    need(ok_num(out[1]) == want, "checksum-not-over-true-length", got=out[1], want=want, n=n, op="calc_checksum")
    res, d = split_setter(out[2])
    need(res == "ok" and unhex(d["hdr"]) == b, "checksum-not-over-true-length", got=out[2], want=b.hex(), op="update_checksum")


def macsec_unmod(h):
    return (h[0] & 0x0C) == 0


def o_macsec_spl(a, out):
    old, n = unhex(a[0]), int(a[1])
    c = 2 if macsec_unmod(old) else 0
    res, d = split_setter(out[0])
    new = unhex(d["hdr"])
    need(res == "ok", "malformed-impl-output", res=res)
    want = n + c if n + c <= 63 else 0
    need(new[1] == want and int(d["sl"]) == want, "accepts-unrepresentable-value" if n + c > 63 else "encoded-field-differs", field="short_len", got=new[1], want=want, n=n)
    same_except(new, old, 1, 2, "short_len")
    exp = "some(%d)" % n if 1 <= n + c <= 63 else "none"
    need(d["exp"] == exp, "encoded-field-differs", field="expected_payload_len", got=d["exp"], want=exp)


def o_macsec_from_len(a, out):
    n = int(a[0])
    need(int(out[0]) == (n if n <= 63 else 0), "accepts-unrepresentable-value" if n > 63 else "encoded-field-differs", got=out[0], n=n)


def o_macsec_try_from(a, out):
    n = int(a[0])
    if check_toobig(out[0], n <= 63, n, 63, "MacsecShortLen"):
        return
    need(ok_num(out[0]) == n, "encoded-field-differs", got=out[0], n=n)


def icv_verdict(l):
    # (fits, set of error texts that name a true defect of this length)
    errs = set()
    if l > 1016:
        errs.add("err(TooBig(%d))" % l)
    if l % 4:
        errs.add("err(Unaligned(%d))" % l)
    return not errs, errs


def o_auth_new(a, out):
    nh, spi, seq, l, x, y = int(a[0]), int(a[1]), int(a[2]), int(a[3]), int(a[4]), int(a[5])
    fits, errs = icv_verdict(l)
    if not fits:
        need(out[0] in errs, "accepts-unrepresentable-value" if out[0].startswith("ok") else "error-values", res=out[0][:80], n=l, want=sorted(errs))
        return
    need(out[0].startswith("ok("), "rejects-representable-value", res=out[0][:80], n=l)
    b = ok_hex(out[0])
    need(len(b) == 12 + l and (b[1] + 2) * 4 == 12 + l, "encoded-field-differs", field="payload_len", got=(b[1] + 2) * 4, want=12 + l)
    need(b[0] == nh and b[2:4] == b"\0\0" and be(b, 4, 4) == spi and be(b, 8, 4) == seq and b[12:] == pat(l, x, y), "other-bytes-changed", hdr=b.hex()[:200])


def o_auth_set(a, out):
    old, l, x, y = unhex(a[0]), int(a[1]), int(a[2]), int(a[3])
    res, d = split_setter(out[0])
    new = unhex(d["hdr"])
    fits, errs = icv_verdict(l)
    if not fits:
        need(res in errs, "accepts-unrepresentable-value" if res == "ok" else "error-values", res=res, n=l, want=sorted(errs))
        need(new == old, "header-changed-on-error", old=old.hex()[:200], new=new.hex()[:200])
        return
    need(res == "ok", "rejects-representable-value", res=res, n=l)
    need(len(new) == 12 + l and (new[1] + 2) * 4 == 12 + l, "encoded-field-differs", field="payload_len", got=(new[1] + 2) * 4, want=12 + l)
    need(new[0] == old[0] and new[2:12] == old[2:12] and new[12:] == pat(l, x, y), "other-bytes-changed", old=old.hex()[:200], new=new.hex()[:200])


def ext_verdict(l):
    errs = set()
    if l < 6:
        errs.add("err(TooSmall(%d))" % l)
    if l > 2046:
        errs.add("err(TooBig(%d))" % l)
    if (l + 2) % 8:
        errs.add("err(Unaligned(%d))" % l)
    return not errs, errs


def o_rawext_new(a, out):
    nh, l, x, y = int(a[0]), int(a[1]), int(a[2]), int(a[3])
    fits, errs = ext_verdict(l)
    if not fits:
        need(out[0] in errs, "accepts-unrepresentable-value" if out[0].startswith("ok") else "error-values", res=out[0][:80], n=l, want=sorted(errs))
        return
    need(out[0].startswith("ok("), "rejects-representable-value", res=out[0][:80], n=l)
    b = ok_hex(out[0])
    need(len(b) == 2 + l and (b[1] + 1) * 8 == 2 + l, "encoded-field-differs", field="hdr_ext_len", got=(b[1] + 1) * 8, want=2 + l)
    need(b[0] == nh and b[2:] == pat(l, x, y), "other-bytes-changed", hdr=b.hex()[:200])


def o_rawext_set(a, out):
    old, l, x, y = unhex(a[0]), int(a[1]), int(a[2]), int(a[3])
    res, d = split_setter(out[0])
    new = unhex(d["hdr"])
    fits, errs = ext_verdict(l)
    if not fits:
        need(res in errs, "accepts-unrepresentable-value" if res == "ok" else "error-values", res=res, n=l, want=sorted(errs))
        need(new == old, "header-changed-on-error", old=old.hex()[:200], new=new.hex()[:200])
        return
    need(res == "ok", "rejects-representable-value", res=res, n=l)
    need(len(new) == 2 + l and (new[1] + 1) * 8 == 2 + l, "encoded-field-differs", field="hdr_ext_len", got=(new[1] + 1) * 8, want=2 + l)
    need(new[0] == old[0] and new[2:] == pat(l, x, y), "other-bytes-changed", old=old.hex()[:200], new=new.hex()[:200])


def arp_errs(which, l, lt):
    errs = set()
    if l != lt:
        errs.add("err(%s(LenNonMatching(%d,%d)))" % (which, l, lt))
    if l > 255:
        errs.add("err(%s(LenTooBig(%d)))" % (which, l))
    return errs


def o_arp_new(a, out):
    hw, proto, op, l1, l2, l3, l4, x, y = [int(v) for v in a]
    errs = arp_errs("HwAddr", l1, l3) | arp_errs("ProtoAddr", l2, l4)
    if errs:
        need(out[0] in errs, "accepts-unrepresentable-value" if out[0].startswith("ok") else "error-values", res=out[0][:80], lens=[l1, l2, l3, l4], want=sorted(errs))
        return
    need(out[0].startswith("ok("), "rejects-representable-value", res=out[0][:80], lens=[l1, l2, l3, l4])
    b = ok_hex(out[0])
    need(len(b) == 8 + 2 * l1 + 2 * l2 and b[4] == l1 and b[5] == l2, "encoded-field-differs", field="hw/proto addr size", got=[b[4], b[5]], want=[l1, l2])
    want = u16b(hw) + u16b(proto) + bytes([l1, l2]) + u16b(op) + pat(l1, x, y) + pat(l2, x + 1, y) + pat(l1, x + 2, y) + pat(l2, x + 3, y)
    need(b == want, "other-bytes-changed", got=b.hex()[:200], want=want.hex()[:200])


def o_arp_set(which):
    def f(a, out):
        old, l, lt, x, y = unhex(a[0]), int(a[1]), int(a[2]), int(a[3]), int(a[4])
        res, d = split_setter(out[0])
        new = unhex(d["hdr"])
        errs = arp_errs(which, l, lt)
        if errs:
            need(res in errs, "accepts-unrepresentable-value" if res == "ok" else "error-values", res=res, lens=[l, lt], want=sorted(errs))
            need(new == old, "header-changed-on-error", old=old.hex()[:200], new=new.hex()[:200])
            return
        need(res == "ok", "rejects-representable-value", res=res, lens=[l, lt])
        hl, pl = old[4], old[5]
        shw, sp, thw, tp = old[8:8 + hl], old[8 + hl:8 + hl + pl], old[8 + hl + pl:8 + 2 * hl + pl], old[8 + 2 * hl + pl:]
        if which == "HwAddr":
            hl, shw, thw = l, pat(l, x, y), pat(l, x + 2, y)
        else:
            pl, sp, tp = l, pat(l, x, y), pat(l, x + 2, y)
        want = old[:4] + bytes([hl, pl]) + old[6:8] + shw + sp + thw + tp
        need(new[4:6] == bytes([hl, pl]), "encoded-field-differs", field="addr size", got=[new[4], new[5]], want=[hl, pl])
        need(new == want, "other-bytes-changed", got=new.hex()[:200], want=want.hex()[:200])
    return f


def o_big(kind):
    def f(a, out):
        h, n = unhex(a[0]), int(a[3])
        src, dst = unhex(a[1]), unhex(a[2])
        if kind == "udp6":
            check_toobig(out[0], n + 8 <= U32, n, U32 - 8, "UdpPayloadLengthIpv6")
        elif kind == "icmp6":
            if check_toobig(out[0], n + 8 <= U32, n, U32 - 8, "Icmpv6PayloadLength"):
                return
            # normalised header bytes are not known here: only types without ignored bytes are generated? no: compare
            # with the unknown-type reference only when bytes 5-8 are kept (type not in the typed set)
            if h[0] not in (1, 3, 133, 134, 135, 136, 137):
                want = rfc1071(pseudo6(src, dst, 58, n + 8) + h[:2] + b"\0\0" + h[4:])
                need(ok_num(out[0]) == want, "checksum-not-over-true-length", got=out[0], want=want, n=n)
        elif kind == "tcp6":
            hl = len(h)
            if check_toobig(out[0], n + hl <= U32, n, U32 - hl, "TcpPayloadLengthIpv6"):
                return
            want = tcp_ref(h, pseudo6(src, dst, 6, n + hl), b"")
            need(ok_num(out[0]) == want, "checksum-not-over-true-length", got=out[0], want=want, n=n)
        elif kind == "tcps6":
            # n is the length of the whole slice
            if check_toobig(out[0], n <= U32, n - len(h), U32 - len(h), "TcpPayloadLengthIpv6", frames=[(n, U32)]):
                return
            want = tcp_ref(h, pseudo6(src, dst, 6, n), b"")
            need(ok_num(out[0]) == want, "checksum-not-over-true-length", got=out[0], want=want, n=n)
    return f


ORACLES = {
    "ipv4.new": o_ipv4_new,
    "ipv4.spl": o_ipv4_spl,
    "ipv4.setopt": o_ipv4_setopt,
    "ipv4opts": o_ipv4opts,
    "ipv6.spl": o_ipv6_spl,
    "ip4.spl": o_ip4_spl,
    "ip6.spl": o_ip6_spl,
    "udp.wo4": o_udp_wo4,
    "udp.w4": o_udp_with(False),
    "udp.w6": o_udp_with(True),
    "udp.ck4": o_udp_ck(False),
    "udp.ck6": o_udp_ck(True),
    "tcp.ck4": o_tcp_ck(False, False),
    "tcp.ck6": o_tcp_ck(True, False),
    "tcps.ck4": o_tcp_ck(False, True),
    "tcps.ck6": o_tcp_ck(True, True),
    "tcpopts": o_tcpopts,
    "tcp.setopt": o_tcp_setopt,
    "icmp6": o_icmp6,
    "macsec.spl": o_macsec_spl,
    "macsec.from_len": o_macsec_from_len,
    "macsec.try_from": o_macsec_try_from,
    "auth.new": o_auth_new,
    "auth.set": o_auth_set,
    "rawext.new": o_rawext_new,
    "rawext.set": o_rawext_set,
    "arp.new": o_arp_new,
    "arp.sethw": o_arp_set("HwAddr"),
    "arp.setproto": o_arp_set("ProtoAddr"),
    "big.udp6": o_big("udp6"),
    "big.icmp6": o_big("icmp6"),
    "big.tcp6": o_big("tcp6"),
    "big.tcps6": o_big("tcps6"),
}


def oracle(c):
    if c.meta.get("L") != sum(len(l) for l in c.lines):
        return []  # lines altered by the generic shrinker: not judged
    k = c.meta.get("k")
    if k == "builder":
        from . import c10
        return c10.oracle(c)
    f = ORACLES.get(k)
    if f is None:
        return [("unknown-case-kind", {"k": k})]
    a = c.lines[0].split("\t")[1:]
    try:
        for o in c.impl:
            if o is None or o in ("bad-op", "panic") or o.startswith("fault("):
                return [("panic-or-fault" if o != "bad-op" else "malformed-impl-output", {"impl": c.impl})]
        if c.meta.get("beyond") and k in ("ip6.spl",):
            f(a, c.impl, beyond=True)
        else:
            f(a, c.impl)
    except Bad as e:
        d = dict(e.detail)
        d["op"] = c.lines[0][:300]
        return [(e.name, d)]
    except (ValueError, IndexError, KeyError, TypeError, AttributeError) as e:
        return [("malformed-impl-output", {"impl": [str(x)[:200] for x in c.impl], "exc": repr(e)})]
    return []


def THEOREM_HINT(name):
    return ["EpModel.Props.C14 (accepts_iff / rejects_with / encodes_exactly of the API named in the op line)"]


def extra_coverage(cases):
    apis = {}
    accepted = rejected = 0
    beyond_vt = {}
    for c in cases:
        op = c.lines[0].split("\t", 1)[0]
        o = c.impl[0] or ""
        st = apis.setdefault(op, {"ok": 0, "err": 0})
        if o.startswith("ok") or o.startswith("raw=ok"):
            st["ok"] += 1
            accepted += 1
        elif "err(" in o:
            st["err"] += 1
            rejected += 1
        if c.meta.get("beyond"):
            m = _TB.search(o)
            if m:
                beyond_vt.setdefault(op, set()).add(m.group(3))
    return {
        "apis": apis,
        "accepted": accepted,
        "rejected": rejected,
        "beyond_domain_value_types": {k: sorted(v) for k, v in beyond_vt.items()},
    }
