"""C08 - every header value survives encode -> decode unchanged (aggregates the two halves)."""
import importlib

ID = "C08"
_PARTS = []
for _name in ("c08_link", "c08_net", "c08_exts"):
    try:
        _PARTS.append(importlib.import_module("epcheck.props." + _name))
    except ModuleNotFoundError:
        pass

RULE = " | ".join(getattr(p, "RULE", "") for p in _PARTS)
EXPLANATION = " | ".join(getattr(p, "EXPLANATION", "") for p in _PARTS)
ASSUMPTIONS = [a for p in _PARTS for a in getattr(p, "ASSUMPTIONS", [])]


def generate(rng, tier):
    for p in _PARTS:
        for c in p.generate(rng, tier):
            c.meta["_part"] = p.__name__
            yield c


def _part(c):
    for p in _PARTS:
        if p.__name__ == c.meta.get("_part"):
            return p
    return None


def oracle(c):
    p = _part(c)
    return p.oracle(c) if p else []


def is_trivial(c):
    p = _part(c)
    return p.is_trivial(c) if p and hasattr(p, "is_trivial") else False
