"""C11 - fragments reassemble to the original payload in any arrival order (IpDefragBuf / IpDefragPool)."""
import itertools

from ..core import Case
from ..gen import hx, rbytes

ID = "C11"
RULE = (
    "frag.pool histories: payloads of 8..400 bytes (a few up to 65535) cut at random 8-aligned points into 1..8 fragments (also overlapping cuts), "
    "delivered as random permutations with duplicates, interleaved with 1-3 other datagrams whose key differs in exactly one component "
    "(version, source, destination, identification, protocol, VLAN ids, channel), buffer return/reuse and retain between datagrams "
    "(earlier datagram longer, other bytes), injected unaligned/oversized/end-conflicting fragments, unfragmented packets and ARP frames; "
    "exhaustive part: every permutation with one duplicate of the fragments of a cut (quick: <= 4 fragments, thorough: <= 5); "
    "frag.buf: random add sequences over small offsets with recycled vectors; "
    "non-trivial = a history in which at least one datagram is reassembled or at least one fragment is rejected"
)
EXPLANATION = (
    "theorems: EpModel/Props/C11.lean (section invariant, completeness iff coverage, refinement of the abstract fact-set spec over all histories, "
    "rejection of inconsistent fragments, key isolation, no stale bytes); correspondence: defrag/*.rs vs EpModel.Model.Defrag on whole histories; "
    "oracle: abstract reassembly in python (set of delivered positions per stream key) deciding at which delivery which payload must appear, "
    "comparison with the original payload, impl-vs-impl non-interference (history projected onto one key, buffer returns removed), Lean Spec outputs"
)
ASSUMPTIONS = [
    "allocation succeeds (IpDefragError::AllocationFailure is not modelled)",
    "IPv6 fragments carry the fragment header directly in front of the upper-layer payload; protocol numbers of IP extension headers are excluded from keys",
    "the pool's private buffer lists are observed through the derived Debug text (counts and lengths only)",
    "datagrams whose overlapping fragments disagree are compared with 'most recent write wins' only (the property is claimed for consistent fragments)",
]

MAXLEN = 65535
FRAG_PROTOS = [17, 6, 253, 47, 89, 132]
PLAIN_PROTOS = [253, 47, 89, 132]
TRANSPORT = {1, 2, 6, 17, 58}

# ------------------------------------------------------------------------------------------------
# keys and items


def kstr(k):
    ver, src, dst, ident, proto, vlans, chan = k
    return "%d,%s,%s,%d,%d,%s,%d" % (ver, hx(src), hx(dst), ident, proto, "+".join(str(v) for v in vlans) if vlans else "-", chan)


def parse_key(s):
    f = s.split(",")
    vl = tuple(int(x) for x in f[5].split("+")) if f[5] != "-" else ()
    return (int(f[0]), bytes.fromhex(f[1]), bytes.fromhex(f[2]), int(f[3]), int(f[4]), vl, int(f[6]))


def rand_key(rng, plain_ok=None):
    ver = rng.choice([4, 4, 6])
    n = 4 if ver == 4 else 16
    if plain_ok is None:
        plain_ok = rng.random() < 0.5
    proto = rng.choice(PLAIN_PROTOS if plain_ok else FRAG_PROTOS)
    vl = tuple(rng.choice([0, 4095, rng.randrange(4096), rng.randrange(4096)]) for _ in range(rng.choice([0, 0, 1, 2, 3])))
    ident = rng.choice([0, 1, 0xFFFF, rng.randrange(65536)]) if ver == 4 else rng.choice([0, 0xFFFFFFFF, 0x10000, rng.randrange(2**32)])
    return (ver, rbytes(rng, n, None), rbytes(rng, n, None), ident, proto, vl, rng.choice([0, 1, 2, 3, 0xFFFFFFFF, rng.randrange(2**32)]))


def variant(rng, k, comp=None):
    """a key that differs from k in exactly one component"""
    ver, src, dst, ident, proto, vlans, chan = k
    comp = comp or rng.choice(["src", "dst", "ident", "proto", "vlans", "chan", "ver", "swap"])
    if comp == "src":
        i = rng.randrange(len(src))
        src = src[:i] + bytes([src[i] ^ (1 << rng.randrange(8))]) + src[i + 1 :]
    elif comp == "dst":
        i = rng.randrange(len(dst))
        dst = dst[:i] + bytes([dst[i] ^ (1 << rng.randrange(8))]) + dst[i + 1 :]
    elif comp == "swap":
        if src == dst:
            dst = bytes([dst[0] ^ 1]) + dst[1:]
        else:
            src, dst = dst, src
    elif comp == "ident":
        ident ^= 1 << rng.randrange(16 if ver == 4 else 32)
    elif comp == "proto":
        pool = PLAIN_PROTOS if proto in PLAIN_PROTOS else FRAG_PROTOS
        proto = rng.choice([p for p in pool if p != proto])
    elif comp == "vlans":
        vl = list(vlans)
        how = rng.choice(["add", "drop", "flip", "reorder"])
        if how == "add" and len(vl) < 3:
            # a tag with id 0 (priority tagged frame) is a tag like any other: [] and [0], [7] and [0, 7] differ
            vl.insert(rng.randrange(len(vl) + 1), rng.choice([0, 0, 4095, rng.randrange(4096)]))
        elif how == "drop" and vl:
            vl.pop(rng.randrange(len(vl)))
        elif how == "reorder" and len(vl) >= 2 and vl[0] != vl[1]:
            vl[0], vl[1] = vl[1], vl[0]
        elif vl:
            i = rng.randrange(len(vl))
            vl[i] ^= 1 << rng.randrange(12)
        else:
            vl = [rng.choice([0, rng.randrange(4096)])]
        vlans = tuple(vl)
    elif comp == "chan":
        # (odd channels without VLAN tags are sliced from the IP layer, even ones from Ethernet)
        chan ^= 1 << rng.randrange(0, 32)
    elif comp == "ver":
        if ver == 4:
            ver, src, dst = 6, src + bytes(12), dst + bytes(12)
        else:
            ver, src, dst, ident = 4, src[:4], dst[:4], ident & 0xFFFF
    return (ver, src, dst, ident, proto, vlans, chan)


def item_str(it, ts):
    if it[0] == "d":
        base = "d:%s:%d:%d:%d:%s" % (kstr(it[1]), ts, it[2], 1 if it[3] else 0, hx(it[4]))
        # every third fragment carries reserved bits (IPv4 reserved flag; IPv6 fragment header reserved bits and
        # reserved octet): they must not influence what counts as a fragment or where it lands
        rsv = (len(it[4]) + it[2] + ts) % 8 if ts % 3 == 0 else 0
        return base + (":%d" % rsv if rsv else "")
    if it[0] == "u":
        return "u:%s:%d:%s" % (kstr(it[1]), ts, hx(it[2]))
    if it[0] == "t":
        # ("t", back): keep the streams touched during the last `back` items
        return "t:%d" % max(0, ts - it[1])
    return it[0]


def history_line(items):
    return "frag.pool\t" + ";".join(item_str(it, i) for i, it in enumerate(items))


def parse_history(line):
    """items of a frag.pool line as tuples (kind, key, ts, fo, mf, bytes)"""
    out = []
    for s in line.split("\t", 1)[1].split(";"):
        f = s.split(":")
        if f[0] == "d":
            out.append(("d", parse_key(f[1]), int(f[2]), int(f[3]), f[4] == "1", bytes.fromhex(f[5]) if f[5] != "-" else b""))
        elif f[0] == "u":
            out.append(("u", parse_key(f[1]), int(f[2]), 0, False, bytes.fromhex(f[3]) if f[3] != "-" else b""))
        elif f[0] == "t":
            out.append(("t", None, int(f[1]), 0, False, b""))
        else:
            out.append((f[0], None, 0, 0, False, b""))
    return out


# ------------------------------------------------------------------------------------------------
# abstract reassembly (the oracle's reference; knows nothing of sections, buffers or merging)


class Stream:
    __slots__ = ("val", "cov", "end", "far", "ts")

    def __init__(self):
        self.val = bytearray(MAXLEN + 1)
        self.cov = bytearray(MAXLEN + 1)
        self.end = None
        self.far = 0
        self.ts = 0


def inconsistencies(st, fo, mf, n):
    """abstract reasons why fragment (fo, mf, n bytes) cannot belong to the datagram of stream st:
    set of (kind, fields)"""
    off = fo * 8
    stop = off + n
    bad = set()
    if stop > MAXLEN:
        bad.add(("SegmentTooBig", (fo, n, MAXLEN)))
    if mf and n % 8:
        bad.add(("UnalignedFragmentPayloadLen", (fo, n)))
    if st is not None:
        if st.end is not None and (stop > st.end or (not mf and stop != st.end)):
            bad.add(("ConflictingEnd", (st.end, stop)))
        if not mf and st.far > stop:
            bad.add(("ConflictingEnd", (st.far, stop)))
    return bad


class Ref:
    """expected observable behaviour of a pool, per item"""

    def __init__(self):
        self.streams = {}
        self.outstanding = 0

    def step(self, it):
        kind, key, ts, fo, mf, data = it
        if kind == "n" or kind == "u":
            return ("none",)
        if kind == "r":
            if self.outstanding:
                self.outstanding -= 1
                return ("ret", 1)
            return ("ret", 0)
        if kind == "t":
            for k in [k for k, s in self.streams.items() if s.ts < ts]:
                del self.streams[k]
            return ("retained", len(self.streams))
        if not mf and fo == 0:
            return ("none",)  # a whole datagram
        st = self.streams.get(key)
        bad = inconsistencies(st, fo, mf, len(data))
        if bad:
            return ("err", bad)
        if st is None:
            st = self.streams[key] = Stream()
        off = fo * 8
        stop = off + len(data)
        st.val[off:stop] = data
        st.cov[off:stop] = b"\x01" * len(data)
        st.far = max(st.far, stop)
        st.ts = ts
        if not mf:
            st.end = stop
        if st.end is not None and st.cov.count(1, 0, st.end) == st.end:
            del self.streams[key]
            self.outstanding += 1
            return ("ok", key[4], "Ipv4HeaderTotalLen" if key[0] == 4 else "Ipv6HeaderPayloadLen", bytes(st.val[: st.end]))
        return ("none",)


def parse_err(s):
    # err(Variant(a=1,b=2))
    inner = s[4:-1]
    name, rest = inner.split("(", 1)
    vals = tuple(int(kv.split("=")[1]) for kv in rest[:-1].split(","))
    return name, vals


def check_pool_output(items, out, failures, tag=""):
    """compares the per-item outputs of a pool run with the abstract reference"""
    if out is None or "|" not in out:
        failures.append(("malformed-impl-output", {"impl": out}))
        return None
    body, final = out.rsplit("|", 1)
    outs = body.split(";")
    if len(outs) != len(items):
        failures.append(("malformed-impl-output", {"impl": out[:300], "items": len(items)}))
        return None
    ref = Ref()
    for i, (it, o) in enumerate(zip(items, outs)):
        want = ref.step(it)
        if want[0] == "none":
            if o != "none":
                failures.append(("reassembly-abstract" if not o.startswith("err(") else "error-conditions", {"item": i, "got": o[:200], "want": "none", "run": tag}))
                return None
        elif want[0] == "ok":
            w = "ok(%d,%s,%s)" % (want[1], want[2], hx(want[3]))
            if o != w:
                failures.append(("reassembly-abstract", {"item": i, "got": o[:300], "want": w[:300], "run": tag}))
                return None
        elif want[0] == "err":
            ok = False
            if o.startswith("err("):
                try:
                    ok = parse_err(o) in want[1]
                except (ValueError, IndexError):
                    ok = False
            if not ok:
                failures.append(("error-conditions", {"item": i, "got": o[:200], "want_one_of": sorted(want[1]), "run": tag}))
                return None
        elif want[0] == "ret":
            if o != "ret(%d)" % want[1]:
                failures.append(("reassembly-abstract", {"item": i, "got": o, "want": "ret(%d)" % want[1], "run": tag}))
                return None
        elif want[0] == "retained":
            if o != "retained(%d)" % want[1]:
                failures.append(("reassembly-abstract", {"item": i, "got": o, "want": "retained(%d)" % want[1], "run": tag}))
                return None
    if not final.startswith("active=%d," % len(ref.streams)):
        failures.append(("final-active", {"got": final[:100], "want_active": len(ref.streams), "run": tag}))
    return outs


# ------------------------------------------------------------------------------------------------
# generation


def cut_points(rng, n, nfrag):
    pts = list(range(8, n, 8))
    nfrag = max(1, min(nfrag, len(pts) + 1))
    return sorted(rng.sample(pts, nfrag - 1))


def fragments(payload, cuts, base_fo=0):
    """fragments (fo, mf, bytes) of payload cut at the given byte positions"""
    edges = [0] + list(cuts) + [len(payload)]
    fr = []
    for a, b in zip(edges, edges[1:]):
        fr.append((base_fo + a // 8, b != len(payload), payload[a:b]))
    return fr


def overlapping_fragments(rng, payload, cuts):
    """like fragments(), but every fragment may reach into its neighbours (same bytes)"""
    edges = [0] + list(cuts) + [len(payload)]
    fr = []
    for a, b in zip(edges, edges[1:]):
        a2 = max(0, a - 8 * rng.randrange(0, 3))
        if b == len(payload) and a > 0:
            a2 = max(8, a2)  # a last fragment at offset 0 would be an unfragmented packet
        b2 = b if b == len(payload) else min((len(payload) - 1) // 8 * 8, b + 8 * rng.randrange(0, 3))
        b2 = max(b2, b) if b != len(payload) else b
        fr.append((a2 // 8, b2 != len(payload), payload[a2:b2]))
    return fr


def distinct_payload(rng, n, avoid=None):
    """n bytes; no byte equals the byte of `avoid` at the same position (so a stale byte is visible)"""
    b = bytearray(rbytes(rng, n, rng.choice([None, None, "edge"])))
    if avoid is not None:
        for i in range(min(n, len(avoid))):
            if b[i] == avoid[i]:
                b[i] ^= 0x5A
    return bytes(b)


def deliveries(rng, key, frags, dups=None, order=None):
    seq = [("d", key, fo, mf, data) for fo, mf, data in frags]
    order = order or rng.choice(["shuffle", "shuffle", "reverse", "inorder", "lastfirst"])
    if order == "shuffle":
        rng.shuffle(seq)
    elif order == "reverse":
        seq.reverse()
    elif order == "lastfirst":
        seq = [seq[-1]] + seq[:-1]
    if dups is None:
        dups = rng.choice([0, 0, 1, 1, 2, 3])
    for _ in range(dups):
        # a duplicate in front of the completing delivery stays inside the datagram; one behind it opens a new stream
        j = rng.randrange(len(seq))
        seq.insert(rng.randrange(len(seq) + (1 if rng.random() < 0.15 else 0)), seq[j])
    return seq


def interleave(rng, seqs):
    seqs = [list(s) for s in seqs if s]
    out = []
    while seqs:
        s = rng.choice(seqs)
        out.append(s.pop(0))
        if not s:
            seqs.remove(s)
    return out


def faulty_fragments(rng, key, frags, payload):
    """fragments that contradict the datagram (frags, payload); where they must be rejected depends on
    what has been delivered before them - the abstract reference decides"""
    n = len(payload)
    out = []
    kind = rng.choice(["unaligned", "toobig", "end2", "beyond", "shortlast", "shortlast", "lastfirstshort"])
    if kind == "unaligned":
        fo = rng.randrange(0, max(1, n // 8))
        out.append(("d", key, fo, True, rbytes(rng, rng.choice([1, 3, 7, 9, 12, 15]))))
    elif kind == "toobig":
        fo = rng.choice([8191, 8191, 8190, 8189])
        ln = MAXLEN - fo * 8 + rng.choice([1, 1, 2, 8, 9])
        out.append(("d", key, fo, rng.random() < 0.5, rbytes(rng, ln)))
    elif kind == "end2":
        # a second last fragment announcing another end
        fo = (n + 7) // 8 + rng.randrange(0, 3)
        out.append(("d", key, fo, False, rbytes(rng, rng.randrange(0, 9))))
    elif kind == "beyond":
        fo = (n + 7) // 8 + rng.randrange(0, 3)
        out.append(("d", key, fo, True, rbytes(rng, 8 * rng.randrange(1, 3))))
    elif kind in ("shortlast", "lastfirstshort"):
        # a last fragment that ends in front of data of the datagram
        if n > 16:
            fo = rng.randrange(1, max(2, (n - 9) // 8))
            ln = rng.randrange(0, min(9, n - fo * 8 - 1))
            out.append(("d", key, fo, False, payload[fo * 8 : fo * 8 + ln]))
    return out


def gen_datagram(rng, key, lo=8, hi=400, minfrag=1, maxfrag=8, avoid=None, overlap=False):
    if key[4] in TRANSPORT:
        # a single-fragment datagram is an unfragmented packet; its transport header would be parsed
        lo, minfrag = max(lo, 9), max(minfrag, 2)
    n = rng.randrange(lo, max(lo, hi) + 1)
    payload = distinct_payload(rng, n, avoid)
    cuts = cut_points(rng, n, rng.randrange(minfrag, maxfrag + 1))
    if overlap:
        return payload, overlapping_fragments(rng, payload, cuts)
    return payload, fragments(payload, cuts)


def finish(items, projected_key=None, spec=False, extra_meta=None):
    """Case for a history; the generator runs the abstract reference itself to record which original
    payloads are expected to come out (meta.orig: per key the payloads in order of completion)"""
    line = history_line(items)
    lines = [line]
    meta = {"k": "pool"}
    if extra_meta:
        meta.update(extra_meta)
    if projected_key is not None:
        proj = [it for it in items if it[0] == "t" or (it[0] in ("d", "u") and it[1] == projected_key)]
        # same time stamps as in the full history
        idx = [i for i, it in enumerate(items) if it[0] == "t" or (it[0] in ("d", "u") and it[1] == projected_key)]
        if proj:
            lines.append("frag.pool\t" + ";".join(item_str(it, i) for it, i in zip(proj, idx)))
            meta["proj"] = {"key": kstr(projected_key), "index": idx}
    if spec:
        lines.append("spec." + line)
        meta["spec_line"] = len(lines) - 1
    return Case(lines, meta)


def scenario_interleave(rng, tier, faulty=False, overlap=False, inconsistent=False):
    key = rand_key(rng)
    payload, frags = gen_datagram(rng, key, overlap=overlap)
    main = deliveries(rng, key, frags)
    origs = {kstr(key): [payload.hex()]} if len(frags) > 1 else {}
    clean = True
    if inconsistent and len(frags) >= 2:
        # an overlapping fragment with other bytes: "most recent write wins", no original to compare with
        fo, mf, data = rng.choice(frags)
        main.insert(rng.randrange(len(main) + 1), ("d", key, fo, True, distinct_payload(rng, 8 * rng.randrange(1, 3), data)))
        clean = False
    if faulty:
        for _ in range(rng.randrange(1, 3)):
            for f in faulty_fragments(rng, key, frags, payload):
                main.insert(rng.randrange(len(main) + 1), f)
        clean = False
    seqs = [main]
    used = {key}
    for _ in range(rng.randrange(1, 4)):
        k2 = variant(rng, key)
        if k2 in used:
            continue
        used.add(k2)
        p2, f2 = gen_datagram(rng, k2, avoid=payload)
        seqs.append(deliveries(rng, k2, f2))
        if len(f2) > 1:
            origs[kstr(k2)] = [p2.hex()]
    items = interleave(rng, seqs)
    # sprinkle unfragmented packets of the same streams, ARP frames, returns
    for _ in range(rng.randrange(0, 3)):
        k = rng.choice(sorted(used))
        what = rng.choice(["u", "whole", "n", "r"])
        if what == "u" and k[4] not in TRANSPORT:
            it = ("u", k, rbytes(rng, rng.randrange(0, 40)))
        elif what == "whole" and k[4] not in TRANSPORT:
            it = ("d", k, 0, False, rbytes(rng, rng.randrange(0, 40)))
        elif what == "r":
            it = ("r",)
        else:
            it = ("n",)
        items.insert(rng.randrange(len(items) + 1), it)
    meta = {"scenario": "interleave", "faulty": faulty, "overlap": overlap}
    if clean:
        meta["orig"] = origs
    return finish(items, projected_key=key if rng.random() < 0.5 else None, spec=rng.random() < 0.3, extra_meta=meta)


def scenario_reuse(rng, tier):
    """several datagrams one after the other through recycled buffers: an earlier, longer datagram with
    other bytes is returned to the pool (or evicted by retain) before a shorter one is reassembled"""
    items = []
    origs = {}
    key = rand_key(rng)
    prev = None
    rounds = rng.randrange(2, 5)
    for r in range(rounds):
        k = key if rng.random() < 0.5 else variant(rng, key)
        hi = 400 if prev is None else max(16, len(prev) - 8)
        lo = 200 if prev is None else 9
        lo = min(lo, hi)
        payload, frags = gen_datagram(rng, k, lo=lo, hi=hi, avoid=prev)
        how = rng.choice(["complete", "complete", "evict"]) if r < rounds - 1 else "complete"
        if how == "complete":
            seq = deliveries(rng, k, frags, dups=rng.choice([0, 1]), order=rng.choice(["lastfirst", "reverse", "shuffle"]))
            # duplicates behind the completion would open a new stream that blocks the key: drop them
            seq = strip_after_completion(seq, frags)
            items += seq
            if len(frags) > 1:
                origs.setdefault(kstr(k), []).append(payload.hex())
            items += [("r",)] if rng.random() < 0.85 else []
        else:
            # leave it incomplete, then evict it
            part = deliveries(rng, k, frags, dups=0, order="shuffle")[: max(1, len(frags) - 1)]
            if len(part) == len(frags):
                part = part[:-1]
            if not part:
                continue
            items += part
            items.append(("t", 0))
            payload = b"".join(d for _, _, _, _, d in part) + payload
        prev = payload if prev is None or len(payload) >= len(prev) else payload + prev[len(payload) :]
    return finish(items, spec=rng.random() < 0.3, extra_meta={"scenario": "reuse", "orig": origs})


def strip_after_completion(seq, frags):
    need = set((fo, mf, data) for fo, mf, data in frags)
    out = []
    for it in seq:
        if not need:
            break
        out.append(it)
        need.discard((it[2], it[3], it[4]))
    return out


def scenario_retain(rng, tier):
    key = rand_key(rng)
    keys = [key] + [variant(rng, key) for _ in range(rng.randrange(1, 4))]
    keys = list(dict.fromkeys(keys))
    seqs = []
    for k in keys:
        _, fr = gen_datagram(rng, k, hi=120)
        seqs.append(deliveries(rng, k, fr))
    items = interleave(rng, seqs)
    for _ in range(rng.randrange(1, 4)):
        items.insert(rng.randrange(len(items) + 1), ("t", rng.randrange(0, 6)))
    for _ in range(rng.randrange(0, 3)):
        items.insert(rng.randrange(len(items) + 1), ("r",))
    return finish(items, projected_key=rng.choice(keys) if rng.random() < 0.5 else None, spec=rng.random() < 0.3, extra_meta={"scenario": "retain"})


def scenario_noise(rng, tier):
    """one or two keys, small offsets, arbitrary flags and lengths: mostly conflicts"""
    key = rand_key(rng)
    keys = [key, variant(rng, key)]
    items = []
    for _ in range(rng.randrange(2, 14)):
        k = keys[0] if rng.random() < 0.8 else keys[1]
        mf = rng.random() < 0.7
        fo = rng.choice([0, 0, 1, 1, 2, 3, 4, 5, 8190, 8191]) if rng.random() < 0.95 else rng.randrange(8192)
        ln = rng.choice([0, 8, 8, 16, 24, 1, 5, 7, 9, 32]) if rng.random() < 0.9 else rng.randrange(0, 60)
        if fo == 0 and not mf and k[4] in TRANSPORT:
            mf = True
        items.append(("d", k, fo, mf, rbytes(rng, ln)))
        if rng.random() < 0.1:
            items.append(rng.choice([("r",), ("t", rng.randrange(0, 4)), ("n",)]))
    return finish(items, spec=rng.random() < 0.5, extra_meta={"scenario": "noise"})


def scenario_big(rng, tier):
    key = rand_key(rng)
    n = rng.choice([MAXLEN, MAXLEN - 1, MAXLEN - 7, 65528, rng.randrange(20000, MAXLEN)])
    if key[0] == 4:
        n = min(n, MAXLEN)  # the datagram may be that long; each fragment stays below 65515
    payload = rbytes(rng, n, None)
    nfrag = rng.randrange(2, 9)
    cuts = sorted(set(min(n - 1, max(8, (i * n // nfrag + rng.randrange(-800, 800)))) // 8 * 8 for i in range(1, nfrag)))
    frags = fragments(payload, cuts)
    items = deliveries(rng, key, frags, dups=1)
    items = strip_after_completion(items, frags)
    # one fragment that crosses 65535
    items.insert(rng.randrange(len(items)), ("d", key, 8191, rng.random() < 0.5, rbytes(rng, rng.choice([8, 9, 16]))))
    return finish(items, extra_meta={"scenario": "big"})


def scenario_big_overlap(rng, tier, variant):
    """large sections that are delivered twice or overlap: their lengths add up to more than 65535, which is
    where 16 bit section arithmetic overflows"""
    key = rand_key(rng)
    n = rng.randrange(40000, 65001) // 8 * 8
    payload = rbytes(rng, n, None)
    if variant == 0:  # cut in the middle, first half twice
        c = (n // 2 + rng.randrange(0, 2000)) // 8 * 8
        items = [("d", key, 0, True, payload[:c]), ("d", key, 0, True, payload[:c]), ("d", key, c // 8, False, payload[c:])]
    elif variant == 1:  # large last fragment twice, then the head
        c = rng.randrange(16000, 30000) // 8 * 8
        items = [("d", key, c // 8, False, payload[c:]), ("d", key, c // 8, False, payload[c:]), ("d", key, 0, True, payload[:c])]
    else:  # two large overlapping fragments, either order
        a = rng.randrange(36000, 44000) // 8 * 8
        b = rng.randrange(16000, 28000) // 8 * 8
        items = [("d", key, 0, True, payload[:a]), ("d", key, b // 8, False, payload[b:])]
        if rng.random() < 0.5:
            items.reverse()
    return finish(items, extra_meta={"scenario": "big-overlap"})


def perm_cases(rng, nfrag, ncuts):
    """every permutation of the fragments of a cut plus one duplicate"""
    for _ in range(ncuts):
        key = rand_key(rng)
        n = rng.randrange(8 * nfrag - 7, 8 * nfrag + 40)
        payload = distinct_payload(rng, n)
        cuts = cut_points(rng, n, nfrag)
        if len(cuts) != nfrag - 1:
            continue
        frags = fragments(payload, cuts)
        other = variant(rng, key)
        for dup in range(nfrag):
            multiset = list(range(nfrag)) + [dup]
            seen = set()
            for perm in itertools.permutations(multiset):
                if perm in seen:
                    continue
                seen.add(perm)
                items = [("d", key, frags[i][0], frags[i][1], frags[i][2]) for i in perm]
                # a fragment of another stream in the middle
                items.insert(len(items) // 2, ("d", other, 1, True, payload[:8]))
                yield finish(items, extra_meta={"scenario": "perm", "orig": {kstr(key): [payload.hex()]}, "nfrag": nfrag})


# frag.buf ----------------------------------------------------------------------------------------


def buf_case(rng):
    proto = rng.randrange(256)
    stale = rbytes(rng, rng.choice([0, 8, 40, 100]), "ff")
    adds = []
    style = rng.choice(["noise", "noise", "datagram"])
    if style == "datagram":
        n = rng.randrange(8, 120)
        payload = distinct_payload(rng, n, stale)
        frags = fragments(payload, cut_points(rng, n, rng.randrange(1, 6)))
        rng.shuffle(frags)
        for fo, mf, d in frags:
            adds.append((fo, mf, d))
        for _ in range(rng.randrange(0, 3)):
            fo = rng.randrange(0, n // 8 + 3)
            adds.insert(rng.randrange(len(adds) + 1), (fo, rng.random() < 0.5, rbytes(rng, rng.choice([0, 8, 16, 3]))))
    else:
        for _ in range(rng.randrange(0, 10)):
            fo = rng.choice([0, 1, 2, 3, 4, 5, 6, 8190, 8191])
            adds.append((fo, rng.random() < 0.75, rbytes(rng, rng.choice([0, 8, 8, 16, 24, 1, 7, 9]))))
    s = ";".join("%d:%d:%s" % (fo, 1 if mf else 0, hx(d)) for fo, mf, d in adds) if adds else "-"
    return Case(["frag.buf\t%d\t%s\t%s" % (proto, hx(stale), s)], {"k": "buf"})


def generate(rng, tier):
    q = tier == "quick"
    n_inter, n_faulty, n_overlap, n_reuse, n_retain, n_noise, n_big, n_buf = (
        (3000, 3500, 1000, 2500, 1000, 4000, 6, 8000) if q else (25000, 30000, 8000, 20000, 8000, 30000, 60, 60000)
    )
    # the F10 history (fixed by a44b17c) and two neighbours, first
    k0 = (4, bytes([10, 0, 0, 1]), bytes([10, 0, 0, 2]), 7, 17, (), 0)
    p = bytes(range(1, 33))
    yield finish([("d", k0, 0, True, p[:16]), ("d", k0, 2, True, p[16:32]), ("d", k0, 1, False, p[8:16])], spec=True, extra_meta={"scenario": "f10"})
    yield finish([("d", k0, 2, True, p[16:32]), ("d", k0, 1, False, p[8:16]), ("d", k0, 0, True, p[:16])], spec=True, extra_meta={"scenario": "f10"})
    yield finish([("d", k0, 1, False, p[8:16]), ("d", k0, 2, True, p[16:32]), ("d", k0, 0, True, p[:8])], spec=True, extra_meta={"scenario": "f10"})
    for _ in range(n_inter):
        yield scenario_interleave(rng, tier)
    for _ in range(n_faulty):
        yield scenario_interleave(rng, tier, faulty=True)
    for _ in range(n_overlap):
        yield scenario_interleave(rng, tier, overlap=True, inconsistent=rng.random() < 0.3)
    for _ in range(n_reuse):
        yield scenario_reuse(rng, tier)
    for _ in range(n_retain):
        yield scenario_retain(rng, tier)
    for _ in range(n_noise):
        yield scenario_noise(rng, tier)
    for _ in range(n_big):
        yield scenario_big(rng, tier)
    for i in range(n_big * 2):
        yield scenario_big_overlap(rng, tier, i % 3)
    for _ in range(n_buf):
        yield buf_case(rng)
    # exhaustive permutations with one duplicate
    plan = [(2, 10), (3, 10), (4, 6)] if q else [(2, 40), (3, 40), (4, 30), (5, 12)]
    for nfrag, ncuts in plan:
        for c in perm_cases(rng, nfrag, ncuts):
            yield c


# ------------------------------------------------------------------------------------------------
# oracle


def is_trivial(c):
    o = c.impl[0] or ""
    return not ("ok" in o or "err(" in o)


def oracle_buf(c):
    out = []
    line = c.lines[0]
    _, proto, _stale, adds = line.split("\t")
    o = c.impl[0]
    if o is None or "|" not in o:
        return [("malformed-impl-output", {"impl": o})]
    body, final = o.rsplit("|", 1)
    outs = body.split(";") if body else []
    adds = [] if adds == "-" else adds.split(";")
    if len(outs) != len(adds):
        return [("malformed-impl-output", {"impl": o[:300]})]
    st = Stream()
    ranges = []  # accepted closed intervals
    for i, (a, got) in enumerate(zip(adds, outs)):
        fo, mf, h = a.split(":")
        fo, mf, data = int(fo), mf == "1", (bytes.fromhex(h) if h != "-" else b"")
        bad = inconsistencies(st, fo, mf, len(data))
        if bad:
            ok = False
            if got.startswith("err("):
                try:
                    ok = parse_err(got) in bad
                except (ValueError, IndexError):
                    pass
            if not ok:
                return [("error-conditions", {"add": i, "got": got, "want_one_of": sorted(bad)})]
            continue
        if got != "ok":
            return [("error-conditions", {"add": i, "got": got, "want": "ok"})]
        off, stop = fo * 8, fo * 8 + len(data)
        st.val[off:stop] = data
        st.cov[off:stop] = b"\x01" * len(data)
        st.far = max(st.far, stop)
        if not mf:
            st.end = stop
        ranges.append((off, stop))
    # connected components of the accepted closed intervals
    comps = []
    for a, b in sorted(ranges):
        if comps and a <= comps[-1][1]:
            comps[-1][1] = max(comps[-1][1], b)
        else:
            comps.append([a, b])
    want_secs = sorted("(%d,%d):%s" % (a, b, hx(st.val[a:b])) for a, b in comps)
    complete = st.end is not None and st.cov.count(1, 0, st.end) == st.end and bool(ranges)
    import re

    m = re.fullmatch(r"proto=(\d+),len=(\d+),sections=\[(.*)\],end=(none|some\((\d+)\)),complete=(true|false)", final)
    if not m:
        return [("malformed-impl-output", {"impl": final[:300]})]
    got_secs = sorted(m.group(3).split(",(")) if m.group(3) else []
    got_secs = sorted(("(" + s if not s.startswith("(") else s) for s in got_secs)
    want_len = st.end if st.end is not None else st.far
    want_end = "none" if st.end is None else "some(%d)" % st.end
    if (int(m.group(1)), int(m.group(2)), got_secs, m.group(4), m.group(6)) != (int(proto), want_len, want_secs, want_end, "true" if complete else "false"):
        out.append(("buf-abstract", {"got": final[:400], "want": "proto=%s,len=%d,sections=%s,end=%s,complete=%s" % (proto, want_len, want_secs, want_end, complete)}))
    return out


def oracle(c):
    for o in c.impl:
        if o is not None and (o == "panic" or o.startswith("fault(")):
            return [("impl-panic", {"impl": o})]
    if c.meta.get("k") == "buf" or c.lines[0].startswith("frag.buf"):
        try:
            return oracle_buf(c)
        except (ValueError, IndexError, TypeError, AttributeError) as e:
            return [("malformed-impl-output", {"impl": str(c.impl)[:300], "exc": repr(e)})]
    fails = []
    try:
        items = parse_history(c.lines[0])
        outs = check_pool_output(items, c.impl[0], fails, "full")
        if outs is None:
            return fails
        # comparison with the original payloads
        orig = c.meta.get("orig")
        if orig:
            seen = {}
            for it, o in zip(items, outs):
                if it[0] == "d" and o.startswith("ok("):
                    ks = kstr(it[1])
                    j = seen.get(ks, 0)
                    seen[ks] = j + 1
                    want = orig.get(ks, [])
                    got_hex = o[:-1].split(",")[2]
                    # the j-th payload returned for a key is the j-th datagram sent under it (a duplicate-only
                    # repetition of the last datagram may come out again)
                    w = want[min(j, len(want) - 1)] if want else None
                    if w is None or got_hex != (w or "-"):
                        fails.append(("original-payload", {"key": ks, "nth": j, "got": got_hex[:200], "want": w and w[:200]}))
                        break
            if not fails:
                for ks, want in orig.items():
                    if seen.get(ks, 0) < len(want):
                        fails.append(("original-payload", {"key": ks, "returned": seen.get(ks, 0), "datagrams_sent": len(want)}))
                        break
        # non-interference: the same stream alone (no other streams, no buffer returns)
        pj = c.meta.get("proj")
        if pj and len(c.lines) > 1:
            pitems = parse_history(c.lines[1])
            pouts = check_pool_output(pitems, c.impl[1], fails, "projected")
            if pouts is not None:
                full_sel = [outs[i] for i in pj["index"]]
                sel = [(a, b) for a, b, it in zip(full_sel, pouts, pitems) if it[0] != "t"]
                if any(a != b for a, b in sel):
                    fails.append(("non-interference", {"key": pj["key"], "full": [a[:80] for a, _ in sel], "alone": [b[:80] for _, b in sel]}))
        # Lean Spec
        si = c.meta.get("spec_line")
        if si is not None and si < len(c.lines) and c.model[si] not in (None, "bad-op"):
            souts = c.model[si].split(";")
            mine = [o for it, o in zip(items, outs) if it[0] != "r"]
            conv = []
            for o in mine:
                if o.startswith("ok("):
                    conv.append("payload(%s)" % o[:-1].split(",")[2])
                else:
                    conv.append(o)
            if conv != souts:
                d = next((i for i, (a, b) in enumerate(zip(conv, souts)) if a != b), min(len(conv), len(souts)))
                fails.append(("lean-spec", {"index": d, "impl": conv[d][:200] if d < len(conv) else None, "spec": souts[d][:200] if d < len(souts) else None}))
    except (ValueError, IndexError, TypeError, AttributeError, KeyError) as e:
        fails.append(("malformed-impl-output", {"impl": str(c.impl)[:300], "exc": repr(e)}))
    return fails


def extra_coverage(cases):
    sc = {}
    ok = err = 0
    kinds = {}
    for c in cases:
        s = c.meta.get("scenario", c.meta.get("k"))
        sc[s] = sc.get(s, 0) + 1
        o = c.impl[0] or ""
        ok += o.count("ok(")
        for name in ("UnalignedFragmentPayloadLen", "SegmentTooBig", "ConflictingEnd", "AllocationFailure"):
            n = o.count(name)
            if n:
                kinds[name] = kinds.get(name, 0) + n
    return {"scenarios": sc, "payloads_returned": ok, "errors_by_kind": kinds}
