"""
Core of the etherparse verification checks (see /verif/DESIGN.md section 2.3).

A check for property Cxx
  1. PROOF       builds the Lean theorem module EpModel.Props.Cxx (+ the driver) and audits the
                 axioms of every theorem in it,
  2. BUILD       builds the Rust harness against /repo's current working tree,
  3. CORRESPOND  runs generated operation lines through the implementation (harness) and through the
                 executable Lean model (driver) and diffs the canonical outputs,
  4. ORACLE      evaluates the property's own oracle on the implementation's outputs,
  5. DECIDE      reports violations (with replay files), honours known_findings.json, writes evidence.
"""
import fcntl
import hashlib
import json
import os
import random
import re
import subprocess
import sys
import time

VERIF = os.path.abspath(os.path.join(os.path.dirname(__file__), "..", ".."))
LEAN_DIR = os.path.join(VERIF, "lean")
HARNESS_DIR = os.path.join(VERIF, "harness")
EPDRV = os.path.join(LEAN_DIR, ".lake", "build", "bin", "epdrv")
EPHAR = os.path.join(HARNESS_DIR, "target", "debug", "ephar")
EVIDENCE_DIR = os.path.join(VERIF, "evidence")
REPLAY_DIR = os.path.join(VERIF, "replay")
WORK_DIR = os.path.join(VERIF, ".work")
KNOWN_FINDINGS = os.path.join(VERIF, "known_findings.json")

ALLOWED_AXIOMS = {"propext", "Classical.choice", "Quot.sound"}

TRUSTED_BASE = [
    "Lean 4.33.0 kernel (lake build; thorough tier re-checks the .olean files with leanchecker)",
    "axioms allowed in property theorems: propext, Classical.choice, Quot.sound (audited with #print axioms on every run; no sorry/admit/native_decide/bv_decide/own axioms)",
    "correspondence check: Rust harness (/verif/harness, path dependency on /repo/etherparse), Lean driver (lean/Main.lean + EpModel/Driver), tools/epcheck (generation, diff, oracles)",
    "hand-written Lean model (EpModel/Model) of the Rust code; tied to the code only through the behaviour compared on the explored inputs of each run",
    "Spec (EpModel/Spec): my transcription of the RFC wire formats and of the crate's documented conventions",
    "modelled rather than verified: core/std/arrayvec primitives, derived Debug output, rustc, x86-64 little-endian 64-bit target",
]


class Case:
    """One explored case: a list of operation lines plus free-form meta data.

    Line prefixes decide who runs a line:
      spec.*  only the Lean driver (reference semantics, used by oracles)
      impl.*  only the Rust harness (implementation-only observations, used by oracles)
      other   both sides; outputs must be identical (correspondence)
    """

    __slots__ = ("lines", "meta", "impl", "model")

    def __init__(self, lines, meta=None):
        self.lines = list(lines)
        self.meta = meta or {}
        self.impl = [None] * len(self.lines)
        self.model = [None] * len(self.lines)

    def to_json(self):
        return {"lines": self.lines, "meta": self.meta, "impl": self.impl, "model": self.model}


class Failure:
    """An oracle failure or a correspondence difference on one case."""

    def __init__(self, kind, oracle, case, detail, theorems=None):
        self.kind = kind  # "oracle" | "correspondence" | "proof"
        self.oracle = oracle  # short name of the oracle / correspondence op / theorem
        self.case = case
        self.detail = detail
        self.theorems = theorems or []

    def to_json(self):
        return {
            "kind": self.kind,
            "oracle": self.oracle,
            "detail": self.detail,
            "theorems": self.theorems,
            "case": self.case.to_json() if self.case is not None else None,
        }


# ----------------------------------------------------------------------------------------------
# building


class BuildLock:
    def __enter__(self):
        os.makedirs(WORK_DIR, exist_ok=True)
        self.f = open(os.path.join(WORK_DIR, "build.lock"), "w")
        fcntl.flock(self.f, fcntl.LOCK_EX)
        return self

    def __exit__(self, *a):
        fcntl.flock(self.f, fcntl.LOCK_UN)
        self.f.close()


def run_cmd(cmd, cwd, timeout=3600, env=None):
    e = dict(os.environ)
    e["CARGO_NET_OFFLINE"] = "true"
    if env:
        e.update(env)
    p = subprocess.run(cmd, cwd=cwd, stdout=subprocess.PIPE, stderr=subprocess.STDOUT, timeout=timeout, env=e)
    return p.returncode, p.stdout.decode("utf-8", "replace")


def theorem_names(prop_id):
    """names of the theorems in EpModel/Props/<id>.lean (fully qualified)."""
    pdir = os.path.join(LEAN_DIR, "EpModel", "Props")
    names = []
    files = sorted(fn for fn in os.listdir(pdir) if re.fullmatch(re.escape(prop_id) + r"[A-Za-z_]*\.lean", fn))
    if prop_id + ".lean" not in files:
        raise OSError("no theorem file for " + prop_id)
    for fn in files:
        names.extend(_theorem_names_in(os.path.join(pdir, fn)))
    return names


def _theorem_names_in(path):
    names = []
    ns = []
    with open(path) as f:
        for line in f:
            m = re.match(r"\s*namespace\s+(\S+)", line)
            if m:
                ns.append(m.group(1))
                continue
            m = re.match(r"\s*end\s+(\S+)", line)
            if m and ns and ns[-1] == m.group(1):
                ns.pop()
                continue
            m = re.match(r"\s*(?:@\[[^\]]*\]\s*)?(?:private\s+|protected\s+)?theorem\s+(\S+)", line)
            if m:
                names.append(".".join(ns + [m.group(1)]))
    return names


FORBIDDEN = re.compile(r"\b(sorry|admit|native_decide|bv_decide|implemented_by|unsafe)\b|^\s*axiom\s|maxHeartbeats\s+0\b", re.M)


def strip_lean_comments(src):
    # remove block comments (non-nested handling is enough for our sources) and line comments
    src = re.sub(r"/-.*?-/", "", src, flags=re.S)
    src = re.sub(r"--.*", "", src)
    src = re.sub(r'"(?:\\.|[^"\\])*"', '""', src)
    return src


def lean_import_closure(module):
    """files of this project imported (transitively) by `module`."""
    seen = {}
    todo = [module]
    while todo:
        m = todo.pop()
        if m in seen:
            continue
        path = os.path.join(LEAN_DIR, *m.split(".")) + ".lean"
        if not os.path.exists(path):
            continue
        seen[m] = path
        with open(path) as f:
            for line in f:
                mm = re.match(r"\s*import\s+(\S+)", line)
                if mm:
                    todo.append(mm.group(1))
    return seen


def theorem_modules(prop_id):
    """the theorem modules of a property: EpModel.Props.<id> and every EpModel.Props.<id><Suffix> (a suffix
    file that has to import theorem files of other properties cannot always be imported by <id>.lean itself)"""
    pdir = os.path.join(LEAN_DIR, "EpModel", "Props")
    files = sorted(fn for fn in os.listdir(pdir) if re.fullmatch(re.escape(prop_id) + r"[A-Za-z_]*\.lean", fn))
    mods = ["EpModel.Props." + fn[:-5] for fn in files]
    main = "EpModel.Props." + prop_id
    return [main] + [m for m in mods if m != main]


def proof_step(prop_id, tier, log):
    """build theorem module + driver, audit. returns dict(ok, obligations, discharged, theorems, problems)."""
    res = {"ok": True, "theorems": [], "problems": [], "obligations": 0, "discharged": 0, "axioms": {}}
    module = "EpModel.Props." + prop_id
    modules = theorem_modules(prop_id)
    with BuildLock():
        rc, out = run_cmd(["lake", "build"] + modules + ["epdrv"], LEAN_DIR)
    log.append(("lake build", rc, out[-4000:]))
    if rc != 0:
        res["ok"] = False
        res["problems"].append("lake build %s failed:\n%s" % (module, out[-3000:]))
        names = []
        try:
            names = theorem_names(prop_id)
        except OSError:
            pass
        res["theorems"] = names
        res["obligations"] = len(names) + 2
        return res
    names = theorem_names(prop_id)
    res["theorems"] = names
    # obligation: every theorem's axioms are allowed ; plus: source audit ; plus: build
    res["obligations"] = len(names) + 2
    discharged = 1  # the build
    # source audit over the import closure
    closure = {}
    for m in modules:
        closure.update(lean_import_closure(m))
    bad = []
    for m, path in sorted(closure.items()):
        src = strip_lean_comments(open(path).read())
        for mm in FORBIDDEN.finditer(src):
            bad.append("%s: forbidden token %r" % (m, mm.group(0).strip()))
    if bad:
        res["ok"] = False
        res["problems"].extend(bad)
    else:
        discharged += 1
    # axiom audit
    os.makedirs(WORK_DIR, exist_ok=True)
    audit = os.path.join(WORK_DIR, "audit_%s.lean" % prop_id)
    with open(audit, "w") as f:
        for m in modules:
            f.write("import %s\n" % m)
        for n in names:
            f.write("#print axioms %s\n" % n)
    rc, out = run_cmd(["lake", "env", "lean", audit], LEAN_DIR)
    log.append(("axiom audit", rc, out[-4000:]))
    if rc != 0:
        res["ok"] = False
        res["problems"].append("axiom audit failed to run:\n" + out[-2000:])
        res["discharged"] = discharged
        return res
    # parse: "'name' depends on axioms: [a, b]" | "'name' does not depend on any axioms"
    text = re.sub(r"\s+", " ", out)
    for n in names:
        m = re.search(r"'%s' (does not depend on any axioms|depends on axioms: \[([^\]]*)\])" % re.escape(n), text)
        if not m:
            res["ok"] = False
            res["problems"].append("no axiom report for theorem %s" % n)
            continue
        axs = set()
        if m.group(2) is not None:
            axs = set(a.strip() for a in m.group(2).split(",") if a.strip())
        res["axioms"][n] = sorted(axs)
        extra = axs - ALLOWED_AXIOMS
        if extra:
            res["ok"] = False
            res["problems"].append("theorem %s depends on non-allowed axioms %s" % (n, sorted(extra)))
        else:
            discharged += 1
    if tier == "thorough":
        res["obligations"] += 1
        rc, out = run_cmd(["lake", "env", "leanchecker"] + modules, LEAN_DIR)
        log.append(("leanchecker", rc, out[-2000:]))
        if rc == 0:
            discharged += 1
        else:
            res["ok"] = False
            res["problems"].append("leanchecker rejected %s:\n%s" % (" ".join(modules), out[-2000:]))
    res["discharged"] = discharged
    return res


def build_harness(log):
    with BuildLock():
        # keep the lock file in step with /repo's (offline: nothing can be fetched)
        rc, out = run_cmd(["cargo", "build", "--offline"], HARNESS_DIR)
    log.append(("cargo build", rc, out[-4000:]))
    return rc == 0, out


# ----------------------------------------------------------------------------------------------
# running both sides


def _run_stream(exe, lines, restart_on_death, env=None):
    """feed lines to exe, return list of outputs (one per line). If the process dies on a line,
    that line's output is fault(<signal>) and the process is restarted behind it."""
    outs = []
    pos = 0
    n = len(lines)
    # encoded once; a restart behind a line that killed the process sends a view of the rest (a tree on which
    # thousands of operations abort would otherwise re-encode the whole remaining input for each of them)
    enc = [l.encode() for l in lines]
    blob = b"\n".join(enc) + b"\n" if enc else b""
    offs = [0]
    for b_ in enc:
        offs.append(offs[-1] + len(b_) + 1)
    view = memoryview(blob)
    while pos < n:
        nchunk = n - pos
        data = view[offs[pos]:]
        e = dict(os.environ)
        if env:
            e.update(env)
        stdout, stderr, rc, hung = _run_watched(exe, data, e)
        got = stdout.decode("utf-8", "replace").split("\n")
        if got and got[-1] == "":
            got.pop()
        if hung and got and not stdout.endswith(b"\n"):
            got.pop()  # a partial line of the operation that never finished
        if len(got) >= nchunk:
            outs.extend(got[:nchunk])
            pos = n
            break
        # died (or hung) on line index len(got)
        outs.extend(got)
        pos += len(got)
        err_text = stderr.decode("utf-8", "replace")
        if not restart_on_death:
            raise RuntimeError("%s died (rc=%s, hung=%s) on line %r\n%s" % (exe, rc, hung, lines[pos][:300], err_text[-2000:]))
        sig = -rc if rc is not None and rc < 0 else rc
        kind = "abort"
        if hung:
            # no output for HANG_SECONDS (or the address space limit was hit while it kept allocating): the
            # operation does not terminate - for C02 that is the violation itself
            kind = "hang"
        elif "unsafe precondition" in err_text:
            kind = "ub-precondition"
        outs.append("fault(%s,sig=%s)" % (kind, sig))
        pos += 1
    return outs


HANG_SECONDS = int(os.environ.get("VERIF_HANG_SECONDS", "120"))
_HANGS_SEEN = [0]
ADDRESS_SPACE_LIMIT = 24 << 30


def _limit_child():
    import resource

    try:
        resource.setrlimit(resource.RLIMIT_AS, (ADDRESS_SPACE_LIMIT, ADDRESS_SPACE_LIMIT))
    except (ValueError, OSError):
        pass


def _run_watched(exe, data, env):
    """run exe on data; kill it when it produces no output line for HANG_SECONDS while input is still pending (the
    harness answers every line, line buffered).  returns (stdout, stderr, returncode, hung)"""
    import threading

    p = subprocess.Popen([exe], stdin=subprocess.PIPE, stdout=subprocess.PIPE, stderr=subprocess.PIPE, env=env, preexec_fn=_limit_child)
    out_chunks, err_chunks = [], []
    last = [time.time()]

    def feed():
        try:
            p.stdin.write(data)
            p.stdin.close()
        except (BrokenPipeError, OSError):
            pass

    def read_out():
        while True:
            b = p.stdout.read1(1 << 16) if hasattr(p.stdout, "read1") else p.stdout.read(1 << 16)
            if not b:
                break
            out_chunks.append(b)
            last[0] = time.time()

    def read_err():
        while True:
            b = p.stderr.read(1 << 16)
            if not b:
                break
            err_chunks.append(b[-(1 << 16):])
            if len(err_chunks) > 8:
                del err_chunks[:4]

    ts = [threading.Thread(target=f, daemon=True) for f in (feed, read_out, read_err)]
    for t in ts:
        t.start()
    hung = False
    while True:
        try:
            p.wait(timeout=0.2)
            break
        except subprocess.TimeoutExpired:
            # the first hang of a run waits the full time; once one operation of this tree is known not to
            # terminate, later ones (shrinking re-runs them) are given up on sooner
            limit = HANG_SECONDS if _HANGS_SEEN[0] == 0 else max(15, HANG_SECONDS // 8)
            if time.time() - last[0] > limit:
                hung = True
                _HANGS_SEEN[0] += 1
                p.kill()
                p.wait()
                break
    for t in ts[1:]:
        t.join(timeout=10)
    return b"".join(out_chunks), b"".join(err_chunks), p.returncode, hung


def build_harness_profile(profile):
    """the harness without debug assertions / overflow checks (profiles relcheck: optimised, nocheck:
    unoptimised); returns the path of the binary or None"""
    with BuildLock():
        rc, out = run_cmd(["cargo", "build", "--offline", "--profile", profile], HARNESS_DIR)
    return os.path.join(HARNESS_DIR, "target", profile, "ephar") if rc == 0 else None


def _dump_ops(lines):
    """VERIF_DUMP_OPS=<file>: append every operation line sent to the implementation (tools/coverage.py
    replays them on a coverage-instrumented build to see which code of the crate the generators reach)"""
    f = os.environ.get("VERIF_DUMP_OPS")
    if f and lines:
        with open(f, "a") as fh:
            fh.write("\n".join(lines) + "\n")


def run_cases_with(exe, cases):
    """fill case.impl from another build of the harness (model outputs are left as they are)"""
    impl_lines, impl_idx = [], []
    for ci, c in enumerate(cases):
        for li, line in enumerate(c.lines):
            if not line.startswith("spec."):
                impl_lines.append(line)
                impl_idx.append((ci, li))
    impl_out = _run_stream(exe, impl_lines, True, None) if impl_lines else []
    for (ci, li), o in zip(impl_idx, impl_out):
        cases[ci].impl[li] = o


def run_cases(cases, impl_env=None):
    """run all lines of all cases on both sides, fill case.impl / case.model."""
    impl_lines, impl_idx = [], []
    model_lines, model_idx = [], []
    for ci, c in enumerate(cases):
        for li, line in enumerate(c.lines):
            if "\n" in line:
                raise ValueError("newline in op line")
            if line.startswith("spec."):
                model_lines.append(line)
                model_idx.append((ci, li))
            elif line.startswith("impl."):
                impl_lines.append(line)
                impl_idx.append((ci, li))
            else:
                impl_lines.append(line)
                impl_idx.append((ci, li))
                model_lines.append(line)
                model_idx.append((ci, li))
    _dump_ops(impl_lines)
    impl_out = _run_stream(EPHAR, impl_lines, True, impl_env) if impl_lines else []
    model_out = _run_stream(EPDRV, model_lines, False) if model_lines else []
    for (ci, li), o in zip(impl_idx, impl_out):
        cases[ci].impl[li] = o
    for (ci, li), o in zip(model_idx, model_out):
        cases[ci].model[li] = o


def correspondence_failures(cases, theorems):
    fails = []
    for c in cases:
        for li, line in enumerate(c.lines):
            if line.startswith("spec.") or line.startswith("impl."):
                continue
            if c.impl[li] != c.model[li]:
                op = line.split("\t", 1)[0]
                fails.append(Failure("correspondence", op, c, {"line": line, "impl": c.impl[li], "model": c.model[li]}, theorems))
                break
    return fails


# ----------------------------------------------------------------------------------------------
# evidence / replay / known findings


def shape_of(s):
    """shape class of a canonical output: digits and hex runs collapsed."""
    if s is None:
        return "None"
    s = re.sub(r"[0-9a-f]{2,}", "#", s)
    s = re.sub(r"\d+", "#", s)
    return s


def load_known_findings():
    if not os.path.exists(KNOWN_FINDINGS):
        return []
    with open(KNOWN_FINDINGS) as f:
        return json.load(f).get("findings", [])


def match_known(prop_id, failure, findings):
    """a `known` finding suppresses a failure iff property, oracle name and all regexes match."""
    for k in findings:
        if k.get("status") != "known" or k.get("property") != prop_id:
            continue
        m = k.get("match", {})
        if m.get("oracle") and m["oracle"] != failure.oracle:
            continue
        if failure.case is None:
            continue
        blob_lines = "\n".join(failure.case.lines)
        blob_impl = "\n".join(str(x) for x in failure.case.impl)
        if m.get("line_regex") and not re.search(m["line_regex"], blob_lines):
            continue
        if m.get("impl_regex") and not re.search(m["impl_regex"], blob_impl):
            continue
        return k
    return None


def write_replay(prop_id, failure, extra=None):
    os.makedirs(REPLAY_DIR, exist_ok=True)
    body = failure.to_json()
    body["property"] = prop_id
    if extra:
        body.update(extra)
    h = hashlib.sha1(json.dumps(body, sort_keys=True).encode()).hexdigest()[:12]
    path = os.path.join(REPLAY_DIR, "%s-%s.json" % (prop_id, h))
    with open(path, "w") as f:
        json.dump(body, f, indent=1, sort_keys=True)
    return path


def write_evidence(prop_id, tier, seed, coverage, wall, violations, assumptions):
    os.makedirs(EVIDENCE_DIR, exist_ok=True)
    ev = {
        "property_id": prop_id,
        "tier": tier,
        "seed": seed,
        "level": "proof",
        "coverage": coverage,
        "assumptions": assumptions,
        "wall_s": round(wall, 2),
        "violations": violations,
    }
    path = os.path.join(EVIDENCE_DIR, prop_id + ".json")
    tmp = path + ".tmp"
    with open(tmp, "w") as f:
        json.dump(ev, f, indent=1)
    os.replace(tmp, path)
    return path


# ----------------------------------------------------------------------------------------------
# generic shrinking of a failing case (hex arguments only)


def _hex_args(line):
    """indices of arguments that are byte strings (an all-digit argument shorter than 12 characters is
    taken to be a decimal number, not hex)"""
    parts = line.split("\t")
    return [i for i, p in enumerate(parts) if i > 0 and (p == "-" or (re.fullmatch(r"(?:[0-9a-f]{2})+", p) and (len(p) >= 12 or re.search(r"[a-f]", p))))]


def shrink_case(prop, case, still_fails, budget=400):
    """greedy shrinking: cut hex arguments at the end while `still_fails` holds. The same hex string
    occurring in several lines of a case is one input and is cut consistently in all of them.
    still_fails(list of candidate cases) -> list of bool (runs both sides in one batch)."""
    best = case
    rounds = 0
    if hasattr(prop, "rebuild") and isinstance(case.meta.get("data"), str):
        # the property module knows how to rebuild all lines of a case from its input bytes
        while rounds < 16:
            rounds += 1
            h = best.meta["data"]
            if h == "-":
                break
            nbytes = len(h) // 2
            cands = []
            for cut in sorted(set([nbytes // 2, nbytes - 16, nbytes - 8, nbytes - 4, nbytes - 2, nbytes - 1])):
                if 0 <= cut < nbytes:
                    meta = dict(best.meta)
                    meta["data"] = h[: cut * 2] if cut > 0 else "-"
                    c = prop.rebuild(meta)
                    if c is not None:
                        cands.append(c)
            if not cands:
                break
            verdicts = still_fails(cands)
            picked = None
            for c, v in zip(cands, verdicts):
                if v:
                    picked = c
                    break
            if picked is None:
                break
            best = picked
        return best
    while rounds < 14:
        rounds += 1
        hexes = []
        for line in best.lines:
            parts = line.split("\t")
            for ai in _hex_args(line):
                if parts[ai] != "-" and len(parts[ai]) >= 2 and parts[ai] not in hexes:
                    hexes.append(parts[ai])
        cands = []
        for h in hexes:
            nbytes = len(h) // 2
            for cut in sorted(set([nbytes // 2, nbytes - 16, nbytes - 8, nbytes - 4, nbytes - 2, nbytes - 1])):
                if 0 <= cut < nbytes:
                    nh = h[: cut * 2] if cut > 0 else "-"
                    nl = []
                    for line in best.lines:
                        parts = line.split("\t")
                        nl.append("\t".join(nh if (i > 0 and x == h) else x for i, x in enumerate(parts)))
                    meta = dict(best.meta)
                    for k, v in list(meta.items()):
                        if v == h:
                            meta[k] = nh
                    cands.append(Case(nl, meta))
        cands = cands[:budget]
        if not cands:
            break
        verdicts = still_fails(cands)
        picked = None
        for c, v in zip(cands, verdicts):
            if v:
                picked = c
                break
        if picked is None:
            break
        best = picked
    return best


# ----------------------------------------------------------------------------------------------
# the generic check driver


def run_check(prop, argv):
    """prop: a property module with ID, TITLE, generate(rng, tier), oracle(case) -> list[(name, detail)],
    RULE (text), optional THEOREM_HINT(oracle_name)->list of theorem names, optional search(rng, failures)."""
    t0 = time.time()
    tier = os.environ.get("VERIF_TIER", "quick")
    replay_file = None
    i = 0
    while i < len(argv):
        a = argv[i]
        if a == "--tier":
            tier = argv[i + 1]
            i += 1
        elif a in ("quick", "thorough"):
            tier = a
        elif a == "--replay":
            replay_file = argv[i + 1]
            i += 1
        i += 1
    if tier not in ("quick", "thorough"):
        tier = "quick"
    seed = int(os.environ.get("VERIF_SEED", "1") or "1")
    rng = random.Random("%s-%d" % (prop.ID, seed))
    log = []
    pid = prop.ID

    failures = []
    # 1. proof
    pr = proof_step(pid, tier, log)
    theorems = pr["theorems"]
    if not pr["ok"]:
        for pb in pr["problems"]:
            failures.append(Failure("proof", "lean-proof", None, pb, theorems))

    # 2. build harness
    ok, out = build_harness(log)
    if not ok:
        print(out[-3000:])
        print("ERROR: the harness does not build against /repo's working tree")
        # a tree that does not compile cannot be judged; report as infrastructure error
        cov = {
            "obligations": pr["obligations"],
            "discharged": pr["discharged"],
            "checker_cmd": "lake build EpModel.Props.%s" % pid,
            "trusted_base": TRUSTED_BASE,
            "explanation": "harness build failed; nothing explored",
        }
        write_evidence(pid, tier, seed, cov, time.time() - t0, 0, [])
        sys.exit(2)

    # 3./4. explore
    if replay_file:
        with open(replay_file) as f:
            body = json.load(f)
        cs = body.get("case")
        cases = [Case(cs["lines"], cs.get("meta"))] if cs else []
    else:
        cases = list(prop.generate(rng, tier))
    have_model = os.path.exists(EPDRV)
    if cases and have_model:
        run_cases(cases)
    elif cases:
        failures.append(Failure("proof", "driver-missing", None, "Lean driver was not built", theorems))

    corr = correspondence_failures(cases, theorems) if have_model else []
    oracle_fails = []
    oracle_evals = 0
    for c in cases:
        for name, detail in prop.oracle(c):
            hint = prop.THEOREM_HINT(name) if hasattr(prop, "THEOREM_HINT") else theorems
            oracle_fails.append(Failure("oracle", name, c, detail, hint))
        oracle_evals += 1

    # 5. decide
    findings = load_known_findings()
    known_hits = {}
    new_oracle = []
    for f in oracle_fails:
        k = match_known(pid, f, findings)
        if k is not None:
            known_hits.setdefault(k["id"], [k, 0])[1] += 1
        else:
            new_oracle.append(f)

    # correspondence differences that coincide with a known finding's case are not counted twice
    violations = []
    if new_oracle:
        # group by oracle name, report the first (shrunk) of each
        by = {}
        for f in new_oracle:
            by.setdefault(f.oracle, []).append(f)
        for name, fs in sorted(by.items()):
            f = fs[0]
            if not replay_file:
                f = _shrink_failure(prop, f)
            path = write_replay(pid, f, {"count_same_oracle": len(fs), "tier": tier, "seed": seed})
            violations.append((path, False))
    corr_new = []
    for f in corr:
        k = match_known(pid, f, findings)
        if k is None:
            corr_new.append(f)
    if corr_new and not new_oracle:
        # model and implementation differ but the oracle holds on everything explored:
        # neighbourhood search for a failing input
        found = None
        if hasattr(prop, "search") and not replay_file:
            found = prop.search(rng, corr_new, run_cases)
        if found is not None:
            path = write_replay(pid, found, {"found_by": "neighbourhood search after correspondence difference", "tier": tier, "seed": seed})
            violations.append((path, False))
        else:
            by = {}
            for f in corr_new:
                by.setdefault(f.oracle, []).append(f)
            first = corr_new[0]
            body = {
                "no_failing_input_found": True,
                "unchecked": "correspondence between the Lean model and the implementation no longer holds for operation(s) %s; the theorems %s are therefore not known to speak about this code"
                % (sorted(by.keys()), theorems),
                "differences": len(corr_new),
                "tier": tier,
                "seed": seed,
            }
            path = write_replay(pid, first, body)
            violations.append((path, True))
    proof_fails = [f for f in failures if f.kind == "proof"]
    if proof_fails and not new_oracle:
        body = {"no_failing_input_found": True, "unchecked": "theorem(s) of EpModel.Props.%s no longer check" % pid, "problems": [f.detail for f in proof_fails][:5]}
        path = write_replay(pid, proof_fails[0], body)
        violations.append((path, True))

    # evidence
    shapes = set()
    nontrivial = 0
    for c in cases:
        key = tuple(shape_of(o) for o in c.impl) + tuple(l.split("\t", 1)[0] for l in c.lines)
        if key not in shapes:
            shapes.add(key)
    trivial_rule = getattr(prop, "is_trivial", None)
    distinct_keys = set()
    for c in cases:
        if trivial_rule and trivial_rule(c):
            continue
        distinct_keys.add(hashlib.sha1("\n".join(c.lines).encode()).hexdigest())
    nontrivial = len(distinct_keys)
    samples = []
    step = max(1, len(cases) // 5) if cases else 1
    for c in cases[::step][:6]:
        samples.append({"lines": [l[:400] for l in c.lines], "impl": [str(o)[:400] for o in c.impl]})
    ops_hist = {}
    for c in cases:
        for l in c.lines:
            op = l.split("\t", 1)[0]
            ops_hist[op] = ops_hist.get(op, 0) + 1
    # what the implementation answered: verdict / error kind / layer named / markers, and how long the inputs were
    res_hist, size_hist = {}, {}
    kind_re = re.compile(r"^(ok|err\((?:len|content)?[A-Za-z_]*|slice=ok|slice=err|panic|fault|bad-op|[a-z_]+)")
    layer_re = re.compile(r"layer[=:] ?(\w+)")
    for c in cases:
        for l, o in zip(c.lines, c.impl):
            if o is None:
                continue
            m = kind_re.match(o)
            k = m.group(1) if m else o[:12]
            ml = layer_re.search(o) if k.startswith(("err", "slice=err")) or "stop=(" in o else None
            if ml:
                k += "@" + ml.group(1)
            if "stop=(" in o:
                k = "ok+stop" + (("@" + ml.group(1)) if ml else "")
            res_hist[k] = res_hist.get(k, 0) + 1
            n = max((len(a) for a in l.split("\t")[1:]), default=0) // 2
            b = 0 if n == 0 else 1 << (n.bit_length() - 1)
            size_hist[b] = size_hist.get(b, 0) + 1
    res_top = dict(sorted(res_hist.items(), key=lambda kv: -kv[1])[:40])
    cov = {
        "result_histogram": res_top,
        "result_kinds": len(res_hist),
        "argument_size_histogram_bytes_pow2": {str(k): v for k, v in sorted(size_hist.items())},
        "obligations": pr["obligations"],
        "discharged": pr["discharged"],
        "checker_cmd": "cd /verif/lean && lake build %s epdrv && lake env lean <generated '#print axioms' file>%s" % (" ".join(theorem_modules(pid)), " && lake env leanchecker %s" % " ".join(theorem_modules(pid)) if tier == "thorough" else ""),
        "trusted_base": TRUSTED_BASE,
        "theorems": [{"name": n, "axioms": pr["axioms"].get(n)} for n in theorems],
        "evaluations": len(cases),
        "distinct_nontrivial": nontrivial,
        "output_shape_classes": len(shapes),
        "rule": prop.RULE,
        "samples": samples,
        "op_histogram": ops_hist,
        "correspondence_lines_compared": sum(1 for c in cases for l in c.lines if not (l.startswith("spec.") or l.startswith("impl."))),
        "disagreements_checked": len(corr),
        "oracle_evaluations": oracle_evals,
        "oracle_failures": len(oracle_fails),
        "known_findings_hit": {k: v[1] for k, v in known_hits.items()},
        "explanation": prop.EXPLANATION if hasattr(prop, "EXPLANATION") else "",
    }
    if hasattr(prop, "extra_coverage"):
        cov.update(prop.extra_coverage(cases))
    assumptions = list(getattr(prop, "ASSUMPTIONS", []))
    write_evidence(pid, tier, seed, cov, time.time() - t0, len(violations), assumptions)

    for kid, (k, n) in sorted(known_hits.items()):
        print("KNOWN-FINDING: property=%s %s (%s; %d case(s) this run)" % (pid, k["text"], k.get("where", ""), n))
    print(
        "%s tier=%s seed=%d theorems=%d obligations=%d/%d cases=%d nontrivial=%d corr-diffs=%d oracle-fails=%d wall=%.1fs"
        % (pid, tier, seed, len(theorems), pr["discharged"], pr["obligations"], len(cases), nontrivial, len(corr), len(oracle_fails), time.time() - t0)
    )
    if violations:
        for path, nofail in violations:
            print("VIOLATION property=%s replay=%s%s" % (pid, path, " no-failing-input-found" if nofail else ""))
        sys.exit(1)
    sys.exit(0)


def _shrink_failure(prop, f):
    def still(cands):
        run_cases(cands)
        res = []
        for c in cands:
            names = [n for n, _ in prop.oracle(c)]
            res.append(f.oracle in names)
        return res

    try:
        small = shrink_case(prop, f.case, still)
    except Exception:
        return f
    if small is f.case:
        return f
    run_cases([small])
    for name, detail in prop.oracle(small):
        if name == f.oracle:
            return Failure("oracle", name, small, detail, f.theorems)
    return f
