"""
Structured packet generator for the dec.* checks (C01-C07).  Composes packets byte-wise itself
(it never calls the crate): a layer-stack grammar, then perturbation of length/count/offset fields,
trailing bytes and truncation.  All randomness from the rng passed in.
"""
import struct

ET_IPV4, ET_IPV6, ET_ARP = 0x0800, 0x86DD, 0x0806
ET_VLAN = [0x8100, 0x88A8, 0x9100]
ET_MACSEC = 0x88E5
EXT_NUMS = [0, 43, 44, 51, 60]


class Layer:
    def __init__(self, name, data, fields=None):
        self.name = name
        self.data = bytearray(data)
        # fields: list of (name, offset, width_bytes, kind) kind in {"len","type","flag"}
        self.fields = fields or []


def rb(rng, n):
    return bytes(rng.randrange(256) for _ in range(n))


def payload_bytes(rng):
    n = rng.choice([0, 0, 1, 2, 4, 7, 8, 9, 12, 16, 20, 21, 28, 32, 40, 64, rng.randrange(0, 120)])
    return rb(rng, n)


def mk_udp(rng, inner_len):
    ln = 8 + inner_len
    if rng.random() < 0.05:
        ln = 0
    h = struct.pack(">HHHH", rng.randrange(65536), rng.randrange(65536), ln, rng.randrange(65536))
    return Layer("udp", h, [("udp.len", 4, 2, "len")])


def mk_tcp(rng, inner_len):
    nopt = rng.choice([0, 0, 0, 1, 2, 3, 5, 10])
    doff = 5 + nopt
    opts = bytearray()
    while len(opts) < nopt * 4:
        k = rng.choice([1, 1, 2, 3, 4, 8, 0, 5, 200])
        if k == 1:
            opts += b"\x01"
        elif k == 0:
            opts += b"\x00"
        elif k == 2:
            opts += b"\x02\x04" + rb(rng, 2)
        elif k == 3:
            opts += b"\x03\x03" + rb(rng, 1)
        elif k == 4:
            opts += b"\x04\x02"
        elif k == 8:
            opts += b"\x08\x0a" + rb(rng, 8)
        elif k == 5:
            opts += b"\x05\x0a" + rb(rng, 8)
        else:
            opts += bytes([k, rng.randrange(0, 6)])
    opts = bytes(opts[: nopt * 4]).ljust(nopt * 4, b"\0")
    flags = rng.randrange(512)
    h = struct.pack(">HHIIBBHHH", rng.randrange(65536), rng.randrange(65536), rng.randrange(2**32), rng.randrange(2**32), (doff << 4) | (flags >> 8), flags & 0xFF, rng.randrange(65536), rng.randrange(65536), rng.randrange(65536))
    return Layer("tcp", h + opts, [("tcp.doff", 12, 1, "len")])


def mk_icmp4(rng, inner_len):
    t = rng.choice([0, 3, 4, 5, 8, 11, 12, 13, 14, 13, 14, 40, rng.randrange(256)])
    c = rng.choice([0, 0, 0, 1, rng.randrange(256)])
    return Layer("icmp4", bytes([t, c]) + rb(rng, 6), [("icmp4.type", 0, 1, "type")])


def mk_icmp6(rng, inner_len):
    t = rng.choice([1, 2, 3, 4, 128, 129, 133, 134, 135, 136, 137, rng.randrange(256)])
    c = rng.choice([0, 0, 0, 1, rng.randrange(256)])
    return Layer("icmp6", bytes([t, c]) + rb(rng, 6), [("icmp6.type", 0, 1, "type")])


def mk_ah(rng, next_header):
    icv_words = rng.choice([0, 1, 1, 2, 3, 6])
    if rng.random() < 0.02:
        # far end of the length octet: headers of 256 bytes and more, up to the 1 028 byte maximum
        icv_words = rng.choice([61, 62, 63, 126, 127, 253, 254])
    plen = 1 + icv_words  # (plen+2)*4 = 12 + icv
    if rng.random() < 0.04:
        plen = 0
    h = bytes([next_header, plen]) + rb(rng, 2) + rb(rng, 8) + rb(rng, icv_words * 4)
    return Layer("ah", h, [("ah.len", 1, 1, "len"), ("ah.nh", 0, 1, "type")])


def mk_rawext(rng, name, next_header):
    units = rng.choice([0, 0, 0, 1, 2, 3])
    if rng.random() < 0.02:
        # far end of the length octet: 256 bytes and more, up to the 2 048 byte maximum
        units = rng.choice([30, 31, 32, 63, 127, 128, 254, 255])
    h = bytes([next_header, units]) + rb(rng, 6 + units * 8)
    return Layer(name, h, [(name + ".len", 1, 1, "len"), (name + ".nh", 0, 1, "type")])


def mk_fragext(rng, next_header, fragmenting=None):
    if fragmenting is None:
        fragmenting = rng.random() < 0.4
    if fragmenting:
        fo = rng.randrange(1, 8192) if rng.random() < 0.7 else 0
        mf = 1 if fo == 0 else rng.randrange(2)
    else:
        fo, mf = 0, 0
    v = (fo << 3) | (rng.randrange(4) << 1) | mf
    h = bytes([next_header, rng.randrange(256)]) + struct.pack(">HI", v, rng.randrange(2**32))
    return Layer("frag", h, [("frag.nh", 0, 1, "type"), ("frag.off", 2, 2, "flag")])


def mk_ipv4(rng, proto, inner_len):
    nopt = rng.choice([0, 0, 0, 0, 1, 2, 5, 10])
    ihl = 5 + nopt
    tl = ihl * 4 + inner_len
    frag = rng.random() < 0.12
    fo = 0
    mf = 0
    if frag:
        fo = rng.randrange(0, 8192)
        mf = 1 if fo == 0 else rng.randrange(2)
    flags_fo = (rng.randrange(2) << 15) | (rng.randrange(2) << 14) | (mf << 13) | fo
    h = struct.pack(">BBHHHBBH", (4 << 4) | ihl, rng.randrange(256), tl & 0xFFFF, rng.randrange(65536), flags_fo, rng.randrange(256), proto, rng.randrange(65536)) + rb(rng, 8) + rb(rng, nopt * 4)
    return Layer("ipv4", h, [("ipv4.vihl", 0, 1, "len"), ("ipv4.tl", 2, 2, "len"), ("ipv4.proto", 9, 1, "type"), ("ipv4.frag", 6, 2, "flag")])


def mk_ipv6(rng, nh, inner_len):
    pl = inner_len
    if rng.random() < 0.08:
        pl = 0
    h = struct.pack(">IHBB", (6 << 28) | rng.randrange(2**28), pl & 0xFFFF, nh, rng.randrange(256)) + rb(rng, 32)
    return Layer("ipv6", h, [("ipv6.ver", 0, 1, "len"), ("ipv6.plen", 4, 2, "len"), ("ipv6.nh", 6, 1, "type")])


def mk_arp(rng):
    hl = rng.choice([6, 6, 6, 0, 1, 8, 20, 255])
    pl = rng.choice([4, 4, 4, 0, 16, 1, 255])
    h = struct.pack(">HHBBH", rng.choice([1, 1, 6, rng.randrange(65536)]), rng.choice([0x0800, 0x86DD, rng.randrange(65536)]), hl, pl, rng.choice([1, 2, rng.randrange(65536)])) + rb(rng, 2 * hl + 2 * pl)
    return Layer("arp", h, [("arp.hlen", 4, 1, "len"), ("arp.plen", 5, 1, "len")])


def mk_vlan(rng, et):
    h = struct.pack(">HH", rng.randrange(65536), et)
    return Layer("vlan", h, [("vlan.et", 2, 2, "type")])


def mk_macsec(rng, et, inner_len):
    """inner_len: bytes behind the macsec header (excluding the ether type for unmodified)."""
    kind = rng.choice(["unmod", "unmod", "unmod", "mod", "enc", "encunmod"])
    sci = rng.random() < 0.4
    tci = 0
    if sci:
        tci |= 0x20
    tci |= rng.randrange(2) << 6  # es
    tci |= rng.randrange(2) << 4  # scb
    if kind == "mod":
        tci |= 0x04
    elif kind == "enc":
        tci |= 0x0C
    elif kind == "encunmod":
        tci |= 0x08
    tci |= rng.randrange(4)
    if rng.random() < 0.03:
        tci |= 0x80
    # short length: counts ether type for unmodified
    total = inner_len + (2 if kind == "unmod" else 0)
    sl = total if total < 48 and rng.random() < 0.7 else 0
    if rng.random() < 0.05:
        sl = rng.randrange(64)
    slb = sl | (rng.randrange(4) << 6 if rng.random() < 0.1 else 0)
    h = bytes([tci, slb]) + rb(rng, 4) + (rb(rng, 8) if sci else b"")
    fields = [("macsec.tci", 0, 1, "flag"), ("macsec.sl", 1, 1, "len")]
    if kind == "unmod":
        fields.append(("macsec.et", len(h), 2, "type"))
        h += struct.pack(">H", et)
    return Layer("macsec", h, fields), kind == "unmod"


def mk_eth(rng, et):
    return Layer("eth", rb(rng, 12) + struct.pack(">H", et), [("eth.et", 12, 2, "type")])


def mk_sll(rng, et):
    pt = rng.choice([0, 1, 2, 3, 4, 5, 6, 7, 7, 8, 9, 0xFFFF])
    hw = rng.choice([1, 1, 1, 1, 824, 778, 803, 770, 2, 0, 65535])
    proto = et if rng.random() < 0.85 else rng.choice([0, 1, 4, 9, 0x0A, 0x0C, 0x1C, 0x1D, 0xF5, 0xFA, 0xFB])
    h = struct.pack(">HHH", pt, hw, rng.choice([0, 6, 8, 9, 65535])) + rb(rng, 8) + struct.pack(">H", proto)
    return Layer("sll", h, [("sll.pt", 0, 2, "type"), ("sll.hw", 2, 2, "type"), ("sll.proto", 14, 2, "type")])


TP_NUM = {"udp": 17, "tcp": 6, "icmp4": 1, "icmp6": 58}


def gen_ext_chain(rng, final_nh, ordered=None):
    """returns list of layers (outer->inner) and the first next header."""
    n = rng.choice([0, 0, 1, 1, 2, 3, 4, 6])
    if n == 0:
        return [], final_nh
    kinds = []
    if ordered is None:
        ordered = rng.random() < 0.6
    if ordered:
        cand = [0, 60, 43, 44, 51, 60]
        pick = sorted(rng.sample(range(6), min(n, 6)))
        kinds = [cand[i] for i in pick]
    else:
        kinds = [rng.choice(EXT_NUMS) for _ in range(n)]
    layers = []
    nh = final_nh
    for k in reversed(kinds):
        if k in (0, 43, 60):
            layers.append(mk_rawext(rng, {0: "hbh", 43: "route", 60: "dest"}[k], nh))
        elif k == 44:
            layers.append(mk_fragext(rng, nh))
        else:
            layers.append(mk_ah(rng, nh))
        nh = k
    layers.reverse()
    return layers, nh


def gen_packet(rng, start=None):
    """returns dict(start, et, data, layers(list of names), fields(list of (name, abs_off, width, kind)))"""
    if start is None:
        start = rng.choice(["eth", "eth", "eth", "sll", "et", "et", "ip", "ip"])
    inner = []  # outer -> inner, built inside out
    pay = payload_bytes(rng)
    net = rng.choices(["ipv4", "ipv6", "arp", "other"], [45, 40, 8, 7])[0] if start != "ip" else rng.choice(["ipv4", "ipv6"])
    stack = []
    if net in ("ipv4", "ipv6"):
        tpk = rng.choices(["udp", "tcp", "icmp4", "icmp6", "other"], [35, 30, 12, 12, 11])[0]
        if tpk == "other":
            tlayers = []
            tnum = rng.choice([0, 2, 41, 47, 50, 59, 132, 255, 4, 43, 44, 51, 60])
        else:
            tlayers = [{"udp": mk_udp, "tcp": mk_tcp, "icmp4": mk_icmp4, "icmp6": mk_icmp6}[tpk](rng, len(pay))]
            if tpk == "icmp4" and tlayers[0].data[0] in (13, 14) and tlayers[0].data[1] == 0 and rng.random() < 0.6:
                pay = rb(rng, 12)
            tnum = TP_NUM[tpk]
        tlen = sum(len(l.data) for l in tlayers) + len(pay)
        if net == "ipv4":
            exts = []
            proto = tnum
            if rng.random() < 0.15:
                exts = [mk_ah(rng, tnum)]
                proto = 51
            elen = sum(len(l.data) for l in exts)
            stack = [mk_ipv4(rng, proto, elen + tlen)] + exts + tlayers
        else:
            exts, first = gen_ext_chain(rng, tnum)
            elen = sum(len(l.data) for l in exts)
            stack = [mk_ipv6(rng, first, elen + tlen)] + exts + tlayers
            if exts and exts[0].name == "hbh" and rng.random() < 0.3:
                # RFC 2675 jumbogram look-alike: payload length 0 and a jumbo payload option (0xC2, 4, u32)
                # at the start of the hop-by-hop options, announcing about as many bytes as follow (the crate
                # does not interpret the option: payload length 0 means "to the end of the slice")
                real = elen + tlen
                v = max(0, real + rng.choice([0, 0, 1, 8, 20, 30, 39, 40, 41, 48, -1, -8, rng.randrange(0, 90)]))
                stack[0].data[4:6] = b"\x00\x00"
                exts[0].data[2:8] = bytes([0xC2, 4]) + struct.pack(">I", v)
        net_et = ET_IPV4 if net == "ipv4" else ET_IPV6
        if rng.random() < 0.05:
            net_et = ET_IPV6 if net == "ipv4" else ET_IPV4
    elif net == "arp":
        stack = [mk_arp(rng)]
        net_et = ET_ARP
        pay = pay if rng.random() < 0.3 else b""
    else:
        net_et = rng.choice([0x0000, 0x0805, 0x8847, 0x88CC, 0xFFFF, rng.randrange(65536)])
    # link extensions (outer -> inner), built inside out
    et = net_et
    if start != "ip":
        nexts = rng.choice([0, 0, 0, 1, 1, 2, 3, 4])
        inner_len = sum(len(l.data) for l in stack) + len(pay)
        exts = []
        for _ in range(nexts):
            if rng.random() < 0.6:
                l = mk_vlan(rng, et)
                et = rng.choice(ET_VLAN)
                exts.insert(0, l)
                inner_len += 4
            else:
                l, unmod = mk_macsec(rng, et, inner_len)
                if not unmod:
                    # everything behind is opaque: keep it but it is not parsed
                    pass
                et = ET_MACSEC
                exts.insert(0, l)
                inner_len += len(l.data)
        stack = exts + stack
        if start == "eth":
            stack = [mk_eth(rng, et)] + stack
        elif start == "sll":
            stack = [mk_sll(rng, et)] + stack
    data = bytearray()
    fields = []
    names = []
    for l in stack:
        base = len(data)
        for (n, o, w, k) in l.fields:
            fields.append((n, base + o, w, k))
        names.append(l.name)
        data += l.data
    data += pay
    return {"start": start, "et": et, "data": data, "layers": names, "fields": fields, "paylen": len(pay)}


DELTAS = [-9, -8, -4, -1, 1, 4, 8, 9]


def perturb(rng, pkt):
    """perturb length/type/flag fields, append trailing bytes, truncate. returns (bytes, ops list)"""
    data = bytearray(pkt["data"])
    notes = []
    r = rng.random()
    if pkt["fields"] and r < 0.55:
        k = 1 if rng.random() < 0.8 else 2
        for _ in range(k):
            (n, o, w, kind) = rng.choice(pkt["fields"])
            if kind != "len" and rng.random() < 0.6:
                continue
            old = int.from_bytes(data[o : o + w], "big")
            mode = rng.random()
            if mode < 0.6:
                new = old + rng.choice(DELTAS)
            elif mode < 0.75:
                new = 0
            elif mode < 0.9:
                new = (1 << (8 * w)) - 1
            else:
                new = rng.randrange(1 << (8 * w))
            if n in ("ipv4.vihl",):
                # perturb only the ihl nibble most of the time
                new = (old & 0xF0) | (new & 0x0F) if rng.random() < 0.8 else new
            if n == "tcp.doff":
                new = (old & 0x0F) | ((new & 0x0F) << 4) if rng.random() < 0.9 else new
            if n == "macsec.sl":
                new = new & 0xFF
            new &= (1 << (8 * w)) - 1
            data[o : o + w] = new.to_bytes(w, "big")
            notes.append("%s:%d->%d" % (n, old, new))
    r = rng.random()
    if r < 0.3:
        t = rng.choice([1, 2, 4, 7, 8, 16, rng.randrange(1, 40)])
        data += rb(rng, t)
        notes.append("trail+%d" % t)
    r = rng.random()
    if r < 0.3 and len(data) > 0:
        cut = rng.randrange(0, len(data))
        data = data[:cut]
        notes.append("cut@%d" % cut)
    return bytes(data), notes


def noise(rng):
    n = rng.choice([0, 1, 2, 7, 8, 13, 14, 15, 16, 19, 20, 21, 39, 40, 41, 60, rng.randrange(0, 200)])
    b = bytearray(rb(rng, n))
    # make the first bytes plausible sometimes
    if n > 0 and rng.random() < 0.5:
        b[0] = rng.choice([0x45, 0x46, 0x4F, 0x60, 0x6F, 0x44, 0x50, 0x00])
    return bytes(b)


def all_truncations(data):
    for i in range(len(data) + 1):
        yield data[:i]
