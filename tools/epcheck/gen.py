"""Small generator helpers shared by the property modules (all randomness from the rng given)."""


def hx(b):
    b = bytes(b)
    return b.hex() if b else "-"


def rbytes(rng, n, style=None):
    """n bytes; style: None=uniform, 'ff'=0xff heavy, 'zero'=mostly zero, 'edge'=from {0,1,0x7f,0x80,0xfe,0xff}"""
    if style is None:
        style = rng.choice([None, None, "ff", "zero", "edge"]) if n else None
    if style == "ff":
        return bytes(0xFF if rng.random() < 0.85 else rng.randrange(256) for _ in range(n))
    if style == "zero":
        return bytes(0 if rng.random() < 0.85 else rng.randrange(256) for _ in range(n))
    if style == "edge":
        return bytes(rng.choice([0, 1, 0x7F, 0x80, 0xFE, 0xFF]) for _ in range(n))
    return bytes(rng.randrange(256) for _ in range(n))


def edge_int(rng, bits):
    m = (1 << bits) - 1
    return rng.choice([0, 1, 2, m, m - 1, m - 2, m >> 1, (m >> 1) + 1, rng.randrange(m + 1), rng.randrange(m + 1)])
